#!/usr/bin/env python3
"""Regenerate MANIFEST.json from the table below + the rule modules that exist. Keeps not_applicable current."""
import json
import os

V = os.path.dirname(os.path.dirname(os.path.abspath(__file__)))
props = [json.loads(l) for l in open(os.path.join(V, "properties.jsonl"))]

CLAIMS = {
 "C01": ("opcode exhaustiveness: every opcode the compiler can emit has an interpreter arm that advances; no emittable opcode hits an unfinished arm", "exhaustiveness / table agreement over MIR match arms"),
 "C02": ("no emittable opcode reaches a panicking JIT translator arm; bytecode scanners honour the JIT trampoline header; interpreter and JIT helper siblings agree", "table agreement + sibling cross-check over MIR"),
 "C03": ("&mut to shared payload is obtained only through the uniqueness-checked API (Gc::get_mut/make_mut/try_unwrap), which really tests uniqueness; no unchecked escape hatches", "who-may-call + dominator checks over MIR"),
 "C04": ("type-directed tracing completeness of all three markers, leaf-filter soundness, root-set sibling agreement, unmark=>full-mark typestate, who-may-clear mark bits", "type-directed field-coverage + must-pass-through over MIR"),
 "C05": ("owner-only access to the non-atomic biased counter, deallocation control-dependent on a zero test, shared word only through CAS, unique access through has_unique_ref", "who-may-access + dominator checks over MIR of steel-rc"),
 "C06": ("global-index opcode table agreement between compiler, VM and every closure-body scanner; trampoline header; rollback on failed builds; free-list who-may-write", "table agreement + must-pass-through over MIR"),
 "C07": ("state restoration and rollback on every error exit; generated arity guards dominate argument indexing; no unfinished-code macro on an emittable opcode arm or registered primitive", "must-pass-through + dominator checks over MIR"),
 "C08": ("frame pop => continuation marks closed with the mark still attached (typestate); thread fork closes all marks; handler unwinding shape", "typestate / no-site-between over MIR"),
 "C09": ("tail-call opcodes never push a frame; every frame push is depth-checked; CallKind->opcode class agreement", "call-graph reachability + table agreement over MIR"),
 "C10": ("no silently overflowing machine arithmetic on script integers in the script-reachable numeric surface; checked fast paths with big-number promotion are present", "operation census with guard-idiom discharge over MIR"),
 "C11": ("eq/hash class agreement per value kind", "sibling arm classification over MIR"),
 "C12": ("reader totality: panic-site census in steel-parser and recursion (call-graph cycles) reachable from the reader entry points", "panic-site census + SCC over the resolved call graph"),
 "C15": ("publish/retract pairing of the safepoint context; who may dereference a foreign thread; stop/resume pairing", "pairing + who-may-deref over MIR"),
 "C16": ("blocking calls only inside safepoints; native loop back-edges poll; waits have a liveness exit", "who-may-call + reachability over MIR"),
 "C17": ("every dispatch cycle polls the interrupt flag and propagates it; native back-edges poll; the safepoint wait does not swallow an interrupt", "every-cycle-through + dominators over MIR"),
 "C18": ("every ownership cycle through the value type has an iterative Drop; no unguarded call-graph cycle in eq/hash/print/mark/serialise", "type-ownership graph + SCC over the resolved call graph"),
 "C19": ("root work-list empty at exit of mark; mark bits reset before each full mark; counts recomputed; host root freed on token drop; deferred drops merged", "must-pass-through + pairing over MIR"),
 "C20": ("no unguarded narrowing/sign-changing cast in conversions; lent-reference who-may-call and RAII pairing", "cast census with guard discharge + who-may-call over MIR"),
}
NA = {
 "C13": "hygiene is a property of renaming results over all macro definitions; the implementation is a textual prefix scheme with no pairing/exhaustiveness/ownership shape to check, and reserved-prefix disjointness does not hold by construction (DESIGN §5)",
 "C14": "'exactly the provided names, instantiated once' is a property of name sets computed at expansion time from arbitrary module graphs; the only structural clause (rollback of the module table on failure) is claimed under C06/C07 and is not a necessary condition of the behaviour on successful runs (DESIGN §5)",
}
old = json.load(open(os.path.join(V, "MANIFEST.json")))
checks, na = [], []
for p in props:
    pid = p["id"]
    have = os.path.exists(os.path.join(V, "rules", pid.lower() + ".py"))
    if pid in CLAIMS and have:
        text, tech = CLAIMS[pid]
        checks.append({
            "property_id": pid,
            "quick_cmd": "./check %s --tier quick" % pid,
            "thorough_cmd": "./check %s --tier thorough" % pid,
            "evidence_file": "evidence/%s.json" % pid,
            "replay_cmd_template": "./check %s --explain {path}" % pid,
            "engine": "steel-facts + rules",
            "level_claimed": {"category": "other",
                              "text": "Static analysis, exhaustive over the enumerated rule instances of the current source. Decides these structural clauses (necessary conditions), not the behaviour: " + text,
                              "design_ref": "DESIGN.md §4 " + pid},
            "level_note": "trusted base: rustc nightly's type checking / MIR construction / trait resolution, the fact extractor in driver/, the one-symbol allowlists in rules/; analysed configuration = the workspace feature set of /repo/Cargo.toml (thorough: also default features); runtime values, schedules and Scheme library code are not analysed",
            "technique": "static analysis: " + tech,
        })
    elif pid in NA:
        na.append({"property_id": pid, "reason": NA[pid]})
    else:
        na.append({"property_id": pid, "reason": "rule set not built yet (build in progress, DESIGN §9); not claimed"})
old["checks"] = checks
old["not_applicable"] = na
old["engines"][0]["serves_properties"] = [c["property_id"] for c in checks]
old["engines"][1]["serves_properties"] = [c["property_id"] for c in checks]
old["notes"] = ("Every check re-derives its facts from /repo's current working tree (content-hash keyed cache under .work/). "
                "exit 0 = all rule instances hold (KNOWN-FINDING lines allowed), 1 = VIOLATION, 2 = CHECK-ERROR (cannot decide).")
json.dump(old, open(os.path.join(V, "MANIFEST.json"), "w"), indent=1)
print("claimed:", [c["property_id"] for c in checks])
