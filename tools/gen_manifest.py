#!/usr/bin/env python3
"""Regenerate MANIFEST.json from the table below + the rule modules that exist. Keeps not_applicable current."""
import json
import os

V = os.path.dirname(os.path.dirname(os.path.abspath(__file__)))
props = [json.loads(l) for l in open(os.path.join(V, "properties.jsonl"))]

CLAIMS = {
 "C01": ("opcode exhaustiveness (every emittable opcode has an advancing interpreter arm, none unfinished); rest-argument collapse resets the argument count at every call path; call-site rewrites to fixed-arity opcodes test the arity like their siblings; inliner consults the assigned flag; the walkers that collect assignments reach every evaluated child; a call is inlined only after its argument count was compared with the parameter count", "exhaustiveness / table agreement over MIR match arms + backward value-flow slices + sibling agreement + type-directed traversal completeness (every-path)"),
 "C02": ("no emittable opcode reaches a panicking JIT translator arm; scanners honour the trampoline header; only CALLPRIMITIVE bakes a global in; Int tags only on immediates; every fallible helper emission is followed by a deopt check (fixpoint over translator methods); argument counts without a handler are gated before translation; JIT helpers never panic on a primitive's Err; pending reads of a slot are all reified before it is moved; the trampoline decision precedes the frame install; one way of installing the callee's frame per helper", "table agreement + must-pass-through + interprocedural name resolution over MIR (JIT symbol table, name tables); ordering (no test reachable from an install) + sibling agreement"),
 "C03": ("&mut to shared payload only through the uniqueness-checked API, which really tests uniqueness on every path; no unchecked escape hatches; the JIT reifies all pending reads of a slot before moving it; the in-place and the copying arm of a functional update apply the same mutators to arguments from the same parameters under the same guards; a read is flagged as last use only as its scope ends or at a tail call", "who-may-call + dominator / every-path checks over MIR + compile_fail witnesses; sibling agreement over ownership arms + who-may-write with value provenance"),
 "C04": ("type-directed tracing completeness of all three markers, leaf-filter soundness, root-set sibling agreement, in-flight values rooted, unmark=>full-mark typestate, clean-slate full marks, who-may-clear mark bits; a pointer a marker extracts from a value is queued on every path", "type-directed field-coverage + must-pass-through + value flow over MIR"),
 "C05": ("owner-only access to the non-atomic biased counter, deallocation control-dependent on a zero test, shared word only through CAS whose retry recomputes and is free of side effects, unique access through has_unique_ref, hand-over protocol", "who-may-access + dominator checks over MIR of steel-rc + compile_fail witness"),
 "C06": ("global-index opcode table agreement between compiler, VM and every closure-body scanner; trampoline header; recycler walk complete on every path; rollback on failed builds incl. threshold; shadowed-slot value flow; free-list who-may-write; a redefined name gets its most recently shadowed slot back on roll-back", "table agreement + must-pass-through + value flow over MIR"),
 "C07": ("state restoration and rollback on every error exit; arity guards dominate argument indexing; argument-derived index/slice positions are length-checked; argument conversions are never unwrapped; no unfinished-code macro in a primitive; JIT helpers hand a primitive's error to the interpreter; continuation-mark typestate (C08.e/f); bounds comparisons admit only positions the guarded operation accepts (element: < len, cut: <= len), persistent-vector and SmallVec methods included", "must-pass-through + dominator + guard-idiom census over MIR; edge-relation analysis of dominating comparisons"),
 "C08": ("frame pop / bulk discard => continuation marks closed with the mark still attached (typestate); reinstating decided by the strong count only; thread fork closes all marks; handler unwinding shape; dynamic-wind / do-wind / call/cc wrapper effect order (Scheme library source); the close wrapper reaches the close on every path", "typestate / no-site-between over MIR + syntax-tree rule over parameters.scm"),
 "C09": ("tail-call opcodes never push a frame (through helpers ≤ 3); every frame push is depth-checked; CallKind->opcode class agreement; tail path and push path separated by one decision", "call-graph reachability + table agreement over MIR"),
 "C10": ("no silently overflowing machine arithmetic in the script-reachable numeric surface; checked fast paths with big-number promotion; canonical bignum / rational construction; float->integer casts range-checked; binary numeric arms read both operands", "operation census with guard-idiom discharge + simulated match decision trees over MIR"),
 "C11": ("eq/hash class agreement per kind; nested equality arms = top-level arms; cross-side membership; visited set keyed on both operands and never turning a revisit into inequality; order-independent hashing of hash collections; hash-union bias in every ownership arm; identity fields fed into Hash are compared by equality; no equality shortcut decides a cross-kind comparable pair unequal by kind alone; the same-list shortcut compares the next pointers; cross-kind comparable kinds hash under one tag", "sibling arm classification + field-sensitive value flow over MIR; decision-tree simulation of pair matches"),
 "C12": ("reader recursion (call-graph cycles) reachable from the reader entry points; budget of byte-offset slicing sites in the reader; interned ids are tied to their table entry by the id; reader counters are at least 32 bits wide", "SCC over the resolved call graph + confirmed-instance census; value-flow from fetch_add + integer-width census"),
 "C13": ("syntax-rules pattern matching and renaming, structural clauses only (hygiene proper — which binding an identifier of an expansion resolves to — is NOT decided): every non-ellipsis pattern consumes exactly one form in binder and matcher; the recursive pattern walkers descend into the same variants; every template binder is recorded, renamed and flagged (sibling agreement over the renamer's binder sites); a macro case is built only after template verification, renaming and pattern mangling; an expansion starts from cleared binding tables; the expander's scope layers are balanced on every successful exit; template walkers read every child of every node; a pattern without a tail matches only uses it consumes entirely; matcher and binder count an ellipsis alike; un-introducing a binder never removes an enclosing one; a loop that module-qualifies macros runs over the whole macro table", "every-path / pairing / sibling-agreement / must-pass-through checks over MIR, type-directed traversal completeness"),
 "C14": ("a required module is compiled only after the compiled-module / file-metadata tables were consulted; compile_module registers the module; failed compilation restores the module table; unused-import pruning walks every module macro's templates; module identities are canonical paths; only provided macros leave a module (initialiser from the provide forms; requester-named insertions control-dependent on a membership test). NOT decided: which value names a module graph exposes", "dominator + every-path checks over MIR; field-provenance value flow + path-based guard with correlated-accessor pruning"),
 "C15": ("publish/retract pairing of the safepoint context; who may dereference a foreign thread; stop/resume reach every controller; safepoints enabled for every new thread; every park re-checks in a loop; a walk over the thread registry is left only when the registry is exhausted", "pairing + who-may-deref + on-a-cycle checks over MIR"),
 "C16": ("blocking primitives only inside safepoints; native loop back-edges poll; waits have a liveness exit; the world-stop mutex is only waited for inside a safepoint; parked threads are published; the thread registry drops only dead entries; every path that stops the world holds the heap lock (in the function, by type, or in every caller); no merge-queue map guard is alive across a payload destructor", "who-may-call + derived lock set + reachability over MIR; interprocedural lock-held-at-call (guard liveness from drop terminators, obligation passed to callers)"),
 "C17": ("every dispatch cycle polls the interrupt flag and propagates it; native back-edges poll; waits break on Interrupted; only the host / thread-resume clear an interrupt, the stop protocol compare-exchanges; interrupt publishes the state before the pause flag", "every-cycle-through + who-may-call + dominators over MIR"),
 "C18": ("every ownership cycle through the value type has an iterative Drop reached on both outcomes of the shared-buffer borrow; no unguarded call-graph cycle in eq/hash/print; every mutable-cell equality arm consults the visited set; collector/printer key agreement; every equality arm one side of which is a mutable cell consults the visited set; the breadth-first visitors (collector markers, recycler, drop handler, equality) have no call cycle among their methods", "type-ownership graph + SCC + every-path checks over MIR"),
 "C19": ("root work-list empty at exit of mark; mark bits reset before each full mark; counts recomputed; host root freed on token drop; deferred drops merged; redefined globals hand over their previous slot; compaction forced by the growth counter; the host-root entry removed is the one the token names; a queue of deferred decrements is never displaced by an insert", "must-pass-through + pairing + decision-provenance over MIR + compile_fail witness"),
 "C20": ("no unguarded narrowing/sign-changing cast in conversions; lent-reference who-may-call, unconditional release and RAII pairing; every registered-function wrapper reads each argument position; what a type converts into it converts back from; tuples only from lists of their length; a lent reference's release token is never cloned; the end of a lending call releases the owners of derived references as well", "cast census with guard discharge + who-may-call over MIR + compile_fail witnesses; returned-variant analysis of conversion pairs + constant-index coverage"),
}
NA = {
}
old = json.load(open(os.path.join(V, "MANIFEST.json")))
checks, na = [], []
for p in props:
    pid = p["id"]
    have = os.path.exists(os.path.join(V, "rules", pid.lower() + ".py"))
    if pid in CLAIMS and have:
        text, tech = CLAIMS[pid]
        checks.append({
            "property_id": pid,
            "quick_cmd": "./check %s --tier quick" % pid,
            "thorough_cmd": "./check %s --tier thorough" % pid,
            "evidence_file": "evidence/%s.json" % pid,
            "replay_cmd_template": "./check %s --explain {path}" % pid,
            "engine": "steel-facts + rules",
            "level_claimed": {"category": "other",
                              "text": "Static analysis, exhaustive over the enumerated rule instances of the current source. Decides these structural clauses (necessary conditions), not the behaviour: " + text,
                              "design_ref": "DESIGN.md §4 " + pid},
            "level_note": "trusted base: rustc nightly's type checking / MIR construction / trait resolution, the fact extractor in driver/, the one-symbol allowlists in rules/; analysed configuration = the workspace feature set of /repo/Cargo.toml (thorough: also default features); runtime values and schedules are not analysed; Scheme library code only where a rule names it (parameters.scm for C08.w, reader.scm for C12.r)",
            "technique": "static analysis: " + tech,
        })
    elif pid in NA:
        na.append({"property_id": pid, "reason": NA[pid]})
    else:
        na.append({"property_id": pid, "reason": "rule set not built yet (build in progress, DESIGN §9); not claimed"})
old["checks"] = checks
old["not_applicable"] = na
old["engines"][0]["serves_properties"] = [c["property_id"] for c in checks]
old["engines"][1]["serves_properties"] = [c["property_id"] for c in checks]
old["notes"] = ("Every check re-derives its facts from /repo's current working tree (content-hash keyed cache under .work/). "
                "exit 0 = all rule instances hold (KNOWN-FINDING lines allowed), 1 = VIOLATION, 2 = CHECK-ERROR (cannot decide).")
json.dump(old, open(os.path.join(V, "MANIFEST.json"), "w"), indent=1)
print("claimed:", [c["property_id"] for c in checks])
