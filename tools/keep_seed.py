#!/usr/bin/env python3
"""keep_seed.py <sid> <property> <json-file with summary/needs/caught_by/missed_before> — archive a confirmed seeded change from
its scratch worktree /scratch/wt/<sid>/SEED into seeded/<sid>/ (patch.diff, demo/, meta.md, confirm.log, meta.json)."""
import json, os, shutil, sys
sid, prop, extra = sys.argv[1], sys.argv[2], json.load(open(sys.argv[3]))
src = "/scratch/wt/%s/SEED" % sid
dst = os.path.join(os.path.dirname(os.path.dirname(os.path.abspath(__file__))), "seeded", sid)
os.makedirs(dst, exist_ok=True)
shutil.copy(os.path.join(src, "patch.diff"), dst)
if os.path.isdir(os.path.join(dst, "demo")):
    shutil.rmtree(os.path.join(dst, "demo"))
shutil.copytree(os.path.join(src, "demo"), os.path.join(dst, "demo"),
                ignore=shutil.ignore_patterns("target", "build.log", "Cargo.lock"))
shutil.copy(os.path.join(src, "meta.md"), dst)
log = "/scratch/wt/%s/confirm.log" % sid
if os.path.exists(log):
    shutil.copy(log, os.path.join(dst, "confirm.log"))
meta = {"property": prop}
meta.update(extra)
meta["files"] = {"patch": "patch.diff", "demonstration": "demo/ (see demo/demo.md)", "log": "confirm.log", "author_notes": "meta.md"}
meta["confirmed"] = ("in the change's own scratch worktree (since removed): (1) cargo nextest run --workspace … with the change "
                     "applied: 664 passed / the 6 baseline failures; (2) the demonstration with the change: fails; (3) the "
                     "demonstration with a binary built from the unchanged HEAD: passes (see confirm.log). Against /repo: "
                     "tools/seed_check.sh patch.diff <prop>")
json.dump(meta, open(os.path.join(dst, "meta.json"), "w"), indent=1)
print("kept", dst)
