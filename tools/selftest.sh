#!/bin/sh
REPO=${STEEL_REPO:-/repo}; export STEEL_REPO=$REPO
# Re-run every seeded change against the current checks: each must make the listed property's check exit 1, and the clean
# tree must be silent. Not part of quick/thorough. Usage: tools/selftest.sh [id ...]
cd "$(dirname "$0")/.." || exit 2
if [ -n "$(git -C $REPO status --porcelain --untracked-files=no)" ]; then echo "$REPO not clean"; exit 2; fi
ids="$*"; [ -z "$ids" ] && ids=$(ls seeded)
fail=0
for id in $ids; do
  prop=$(python3 -c "import json;print(json.load(open('seeded/$id/meta.json'))['property'])")
  if python3 -c "import json,sys;sys.exit(0 if 'superseded' in json.load(open('seeded/$id/meta.json')) else 1)"; then echo "$id: skipped (superseded by a fix, see meta.json)"; continue; fi
  git -C $REPO apply "$PWD/seeded/$id/patch.diff" || { echo "$id: patch does not apply"; fail=1; continue; }
  ./check "$prop" > ${TMPDIR:-/tmp}/selftest_$id.out 2>&1; rc=$?
  git -C $REPO checkout -- .
  if [ $rc -eq 1 ]; then echo "$id: reported by $prop ($(grep -c '^VIOLATION' ${TMPDIR:-/tmp}/selftest_$id.out) violations): $(grep -m1 '^  rule' ${TMPDIR:-/tmp}/selftest_$id.out)"; else echo "$id: NOT reported (exit $rc)"; fail=1; fi
done
exit $fail
