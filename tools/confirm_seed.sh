#!/bin/sh
# tools/confirm_seed.sh <sid>
# Independent confirmation of a seeded change in its own scratch worktree /scratch/wt/<sid> (never in /repo):
#   (0) SEED/patch.diff applies to a clean checkout of the worktree's HEAD and is the whole change
#   (1) the pinned suite with the change: 664 passed, the 6 baseline failures
#   (2) the demonstration with the change: SEED/demo/run.sh exits non-zero (property broken)
#   (3) the demonstration without the change: exits 0
# Writes /scratch/wt/<sid>/confirm.log and prints a one-line verdict.
sid="$1"
wt=/scratch/wt/$sid
log=$wt/confirm.log
export CARGO_NET_OFFLINE=true CARGO_INCREMENTAL=0
cd "$wt" || exit 2
[ -f SEED/patch.diff ] || { echo "$sid: no SEED/patch.diff"; exit 2; }
[ -x SEED/demo/run.sh ] || chmod +x SEED/demo/run.sh 2>/dev/null
: > "$log"
# (0) normalise: clean tree + patch
git checkout -q -- . 2>/dev/null
git clean -fdq -e SEED -e confirm.log -e suite.out 2>/dev/null
if ! git apply --check SEED/patch.diff 2>>"$log"; then echo "$sid: patch does not apply to HEAD" | tee -a "$log"; exit 1; fi
git apply SEED/patch.diff
echo "== patch: $(git diff --stat | tail -1)" >> "$log"
# (1) suite
echo "== suite with the change (cargo nextest, worktree $wt)" >> "$log"
cargo nextest run --workspace --no-fail-fast --offline --test-threads 12 > "$wt/suite.out" 2>&1
grep -E "^\s+(FAIL|SIGABRT|SIGSEGV|TIMEOUT)|Summary" "$wt/suite.out" | sort -u >> "$log"
summary=$(grep -E "Summary" "$wt/suite.out" | tail -1)
# (2) demo with
echo "== demo with the change" >> "$log"
( cd "$wt" && timeout 1500 sh SEED/demo/run.sh "$wt" ) >> "$log" 2>&1; with=$?
echo "exit=$with" >> "$log"
# (3) demo without
git apply -R SEED/patch.diff
echo "== demo without the change (same worktree, change reverted, rebuilt)" >> "$log"
( cd "$wt" && timeout 1500 sh SEED/demo/run.sh "$wt" ) >> "$log" 2>&1; without=$?
echo "exit=$without" >> "$log"
git apply SEED/patch.diff
okS=no; echo "$summary" | grep -q "664 passed, 6 failed" && okS=yes
echo "$sid: suite[$okS] {$summary} demo-with=$with demo-without=$without"
[ "$okS" = yes ] && [ $with -ne 0 ] && [ $without -eq 0 ]
