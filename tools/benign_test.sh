#!/bin/sh
REPO=${STEEL_REPO:-/repo}; export STEEL_REPO=$REPO
# Negative controls: every behaviour-preserving change under benign/ must leave every check silent (exit 0).
# Usage: tools/benign_test.sh [file.diff ...]   (default: benign/*.diff). Not part of quick/thorough.
cd "$(dirname "$0")/.." || exit 2
if [ -n "$(git -C $REPO status --porcelain --untracked-files=no)" ]; then echo "$REPO not clean"; exit 2; fi
files="$*"; [ -z "$files" ] && files=$(ls benign/*.diff)
props=$(python3 -c "import json;print(' '.join(c['property_id'] for c in json.load(open('MANIFEST.json'))['checks']))")
fail=0
for f in $files; do
  case $f in /*) abs=$f ;; *) abs=$PWD/$f ;; esac
  git -C $REPO apply "$abs" || { echo "$f: does not apply"; fail=1; continue; }
  bad=""
  for p in $props; do
    ./check $p > ${TMPDIR:-/tmp}/benign_$p.out 2>&1; rc=$?
    if [ $rc -ne 0 ]; then bad="$bad $p(exit $rc)"; grep -E "^(VIOLATION|CHECK-ERROR|  rule)" ${TMPDIR:-/tmp}/benign_$p.out | head -4; fi
  done
  git -C $REPO checkout -- .
  git -C $REPO clean -fdq -- crates >/dev/null 2>&1
  if [ -z "$bad" ]; then echo "$(basename $f): silent"; else echo "$(basename $f): ALARM$bad"; fail=1; fi
done
exit $fail
