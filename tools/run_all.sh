#!/bin/sh
# run every claimed check (default: quick) on the current tree; prints one line per property
cd "$(dirname "$0")/.." || exit 2
tier="${1:-quick}"
rc=0
for p in $(python3 -c "import json;print(' '.join(c['property_id'] for c in json.load(open('MANIFEST.json'))['checks']))"); do
  out=$(./check $p --tier $tier 2>&1); r=$?
  echo "$p exit=$r $(echo "$out" | grep '^checked' )"
  [ $r -ne 0 ] && { rc=1; echo "$out" | grep -E "^(VIOLATION|CHECK-ERROR|  rule)" | head -5; }
done
exit $rc
