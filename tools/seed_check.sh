#!/bin/sh
REPO=${STEEL_REPO:-/repo}; export STEEL_REPO=$REPO
# usage: tools/seed_check.sh <patch.diff> <prop> [<prop>...]   — apply a seeded change to $REPO, run the checks, undo it
set -u
patch="$1"; shift
cd $REPO || exit 2
if [ -n "$(git status --porcelain --untracked-files=no)" ]; then echo "repo not clean"; exit 2; fi
git apply "$patch" || { echo "patch does not apply"; exit 2; }
cd /verif
for p in "$@"; do
  ./check "$p" > ${TMPDIR:-/tmp}/seed_check_$p.out 2>&1; rc=$?
  echo "== $p exit=$rc"; grep -E "^(VIOLATION|CHECK-ERROR|  rule|checked)" ${TMPDIR:-/tmp}/seed_check_$p.out | head -12
done
git -C $REPO checkout -- .
git -C $REPO status --porcelain --untracked-files=no | head -3
