#!/bin/sh
# usage: tools/seed_check.sh <patch.diff> <prop> [<prop>...]   — apply a seeded change to /repo, run the checks, undo it
set -u
patch="$1"; shift
cd /repo || exit 2
if [ -n "$(git status --porcelain --untracked-files=no)" ]; then echo "repo not clean"; exit 2; fi
git apply "$patch" || { echo "patch does not apply"; exit 2; }
cd /verif
for p in "$@"; do
  ./check "$p" > /tmp/seed_check_$p.out 2>&1; rc=$?
  echo "== $p exit=$rc"; grep -E "^(VIOLATION|CHECK-ERROR|  rule|checked)" /tmp/seed_check_$p.out | head -12
done
git -C /repo checkout -- .
git -C /repo status --porcelain --untracked-files=no | head -3
