#!/bin/sh
# tools/mk_seed_wt.sh <sid> — scratch worktree of /repo HEAD for one seeding sub-agent, with a warm copy of /repo/target
sid="$1"; wt=/scratch/wt/$sid
[ -d "$wt" ] && { echo "$wt exists"; exit 1; }
git -C /repo worktree add -q -b "seed-$sid" "$wt" HEAD || exit 1
# dependencies only: the workspace crates are rebuilt in the worktree anyway (their fingerprints carry the path)
rsync -a --exclude 'incremental' --exclude 'deps/*steel*' --exclude 'deps/*xtask*' --exclude 'deps/*forge*' --exclude 'examples' --exclude 'deps/testbench-*' --exclude 'steel' /repo/target/ "$wt/target/"
mkdir -p "$wt/SEED/demo"
echo "$wt ready"
