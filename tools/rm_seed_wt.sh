#!/bin/sh
# tools/rm_seed_wt.sh <sid>... — remove scratch worktrees with their build output and branches
for sid in "$@"; do
  git -C /repo worktree remove --force "/scratch/wt/$sid" 2>/dev/null || rm -rf "/scratch/wt/$sid"
  git -C /repo branch -D -q "seed-$sid" 2>/dev/null
done
git -C /repo worktree prune
