#!/usr/bin/env python3
"""seed_prompt.py <Cnn> <sid> — print the brief handed to a fresh sub-agent that is asked for a property-breaking change.
The brief contains the property's text, the agent's scratch worktree, the protocol, and one line per earlier change of the
same property (so that the new one goes somewhere else). Nothing about the checks in /verif is in it."""
import json, os, sys, glob
prop, sid = sys.argv[1], sys.argv[2]
root = os.path.dirname(os.path.dirname(os.path.abspath(__file__)))
P = None
for l in open(os.path.join(root, "properties.jsonl")):
    d = json.loads(l)
    if d["id"] == prop:
        P = d
earlier = []
for m in sorted(glob.glob(os.path.join(root, "seeded", prop + "-*", "meta.json"))):
    s = json.load(open(m)).get("summary", "")
    earlier.append("- " + s[:260].replace("\n", " "))
wt = "/scratch/wt/" + sid
print(f"""You are helping to evaluate a verification tool for the Rust project mattwparas/steel (an embeddable Scheme: parser, macro
expander, optimising bytecode compiler, stack VM with continuations, Cranelift JIT, mark-and-sweep heap, threads). Your job is
to play the part of a plausible but WRONG maintainer commit.

Your private git worktree of the project is {wt} (branch seed-{sid}). Work ONLY inside it. Never read or write /verif or /repo
(they are off limits; reading them would invalidate the experiment). Build output goes to {wt}/target (already warm: a copy of a
finished build; the first cargo command recompiles the workspace crates, 2-4 minutes). The sandbox has no network: always pass
--offline to cargo. Other agents are compiling at the same time: use `-j 6` for cargo builds, and `export CARGO_INCREMENTAL=0` in every shell (disk space is short; for the same reason
delete any extra target directories you create as soon as you are done with them).

THE PROPERTY (semantic, must hold for every input / schedule / history):

{json.dumps({k: P[k] for k in ("id", "title", "statement", "quantifier", "why_tests_cant", "anchors")}, indent=1)}

WHAT TO PRODUCE: one change to the project's source (Rust under crates/, or the Scheme library sources under
crates/steel-core/src/scheme/ or cogs/) that
  1. BREAKS the property above — some program / schedule / evaluation history now observably violates it;
  2. still COMPILES and still PASSES THE EXISTING TEST SUITE exactly as before. The suite is
       cargo nextest run --workspace --no-fail-fast --offline --test-threads 8
     and on the unchanged tree it ends with "670 tests run: 664 passed, 6 failed, 1 skipped" — the 6 baseline failures are
     steel-interpreter {{syntax_test_suite, test_runner, r7rs_test_suite, r7rs_benchmark_test_suite, r5rs_test_suite}} and
     steel-core::testbench static_site_generator_modules (they fail for sandbox reasons; they must stay exactly those 6);
  3. needs SOMETHING SPECIFIC TO MANIFEST: a particular interleaving, a fault at a particular point, a multi-step sequence of
     evaluations, an unusual input, a size threshold, or two cooperating sites that each look fine alone. NOT something ordinary
     use would expose at once, and not something the existing tests or scripts under crates/steel-core/src/tests exercise;
  4. looks like something a maintainer could really commit: a refactoring that is subtly not equivalent, an optimisation with a
     missing side condition, a de-duplication that loses a case, a "simplification" of a guard, a changed order of two steps, a
     new fast path. No comments that give it away, no dead flags, no `if input == magic`. Keep it small (usually < 60 lines).
Prefer a mechanism that is DIFFERENT from the earlier changes listed at the end; explore other anchor files and mechanisms of the
property. Before settling on a change, make sure the unchanged tree really satisfies the property on your demonstration (if the
unchanged tree already misbehaves there, pick another place, and mention what you saw in meta.md under "Side remarks").

DELIVERABLES, all under {wt}/SEED/ :
  patch.diff   — `git diff` of your change against HEAD (source files only; nothing from SEED/ or target/); it must apply with
                 `git apply` to a clean checkout.
  demo/run.sh  — `sh SEED/demo/run.sh {wt}` builds what it needs from the worktree's CURRENT source (e.g.
                 `cargo build --offline -j 6 --bin steel`, binary at target/debug/steel; or a small harness crate / cargo test
                 placed under SEED/demo that path-depends on the worktree's crates — copy Cargo.lock from the worktree into it and
                 give it its own target dir under SEED/demo), runs the demonstration, prints PASS or FAIL with a one-line reason,
                 and exits 0 when the property holds, non-zero when it is violated. It must FAIL with your change and PASS without
                 it, deterministically (for schedule-dependent bugs: loop / retry inside the script until the outcome is
                 practically certain, bounded by ~5 minutes). It must not depend on files outside the worktree.
  demo/...     — the Scheme programs / Rust sources the script uses, and demo/demo.md explaining the expected and observed output.
  meta.md      — the change (files, functions), why it breaks the property, exactly what it needs in order to manifest, why the
                 suite does not notice, and "Side remarks": anything odd you noticed in the UNCHANGED tree while looking.

PROTOCOL you must follow before you finish: (a) run the full suite with your change and confirm 664 passed / the same 6 failed;
(b) run `sh SEED/demo/run.sh {wt}` with the change → FAIL; (c) `git apply -R SEED/patch.diff` (do NOT use `git stash`: the stash stack is shared with other authors' worktrees), run it again →
PASS; (d) restore the change so that the worktree ends with the change applied. Report the three outcomes in your final message
(a few lines; the files are what counts). Useful: `target/debug/steel file.scm` runs a file; `target/debug/steel < lines.txt`
feeds the REPL one evaluation per line on ONE engine (good for evaluation histories); STEEL_JIT=false disables the JIT; debug
builds are slow (avoid demonstrations needing more than ~10^6 VM steps where you can).

Earlier changes already made for this property by other authors (do something else):
{chr(10).join(earlier) if earlier else "- (none yet)"}
""")
