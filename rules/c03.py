"""C03 — immutable values never change (DESIGN §4 C03).

Decided clause: a `&mut` to the payload of a shared immutable value can be obtained only through the
uniqueness-checked API (Gc::get_mut / make_mut / try_unwrap -> Shared::*), which really tests uniqueness; there is no
other road (no unchecked accessor, no raw-pointer write, no DerefMut-like impl).  Because the persistent collections'
mutators need `&mut`, Rust's type system then guarantees every in-place update is on a uniquely held value.
Not decided: that the count is right at the instant of the test (C05, last-use analysis).
"""
import re

from . import lib, c05
from .lib import CheckError

PAYLOAD_WRAPPERS = {"Gc", "GcMut", "HeapRef", "SteelString", "SteelVector", "SteelHashMap", "SteelHashSet"}


def payload_types(F):
    """short names of types stored behind shared pointers in SteelVal variants"""
    sv = F.adt("SteelVal")
    out = set()
    skip = {"Gc", "GcMut", "Global", "RwLock", "Box", "HeapRef", "Vec", "Arc", "BiasedRc", "Mutex", "RefCell", "Option",
            "Pin", "Shared", "RawRwLock", "RawMutex"}
    for v in sv["variants"]:
        for f in v["fields"]:
            for m in f["mentions"]:  # fn-pointer / dyn signatures are not descended into by the driver
                short = lib.split_path(m)[-1]
                if m.startswith("dyn ") or m in ("fnptr", "rawptr") or short in skip:
                    continue
                out.add(short)
    # the collections inside the newtype wrappers
    out |= {"Vector", "HashMap", "HashSet", "GenericHashMap", "GenericHashSet", "GenericVector", "GenericList", "String"}
    return out


def run(F, R, ctx):
    _run(F, R, ctx)
    if "jit2" in (F.meta.get("features") or []):
        jit_move_rule(F, R)
    from . import c11
    c11.union_rule(F, R, "C03.u")


def _run(F, R, ctx):
    R.rule("C03.a", "no road to `&mut payload` other than the checked API: get_mut_unchecked is called only inside the "
                    "checked accessors/destructor; no raw-pointer mutable dereference or *const->*mut cast targets a value "
                    "payload type; Gc/BiasedRc have no DerefMut/AsMut/BorrowMut impl; Gc's pub fns returning &mut are "
                    "exactly get_mut and make_mut")
    R.rule("C03.b", "the checked API really checks: Gc::{get_mut,make_mut,try_unwrap} delegate to Shared::{get_mut,make_mut,"
                    "try_unwrap}; BiasedRc::get_mut/make_mut are guarded by has_unique_ref (see C05.d), whose owner branch "
                    "compares the owner count with 1 and the shared count with 0")
    R.rule("C03.p", "positive control: the in-place fast paths of the immutable collections go through Gc::get_mut")
    pts = payload_types(F)
    _, callers = F.graph()

    # ---- a: unchecked accessor callers (all crates)
    for target in [n for n in F.fns if re.search(r"::get_mut_unchecked$", n)]:
        for c in sorted(callers.get(target, ())):
            ok = bool(re.search(r"^steel_rc::\{impl BiasedRc<T>\}::(get_mut|make_mut|drop_contents_and_maybe_box)$", c))
            R.inst("C03.a", "%s calls get_mut_unchecked" % lib.short_name(c), ok,
                   "%s obtains &mut to a shared payload through get_mut_unchecked, bypassing the uniqueness test: every "
                   "other holder of the value sees the mutation" % lib.short_name(c), F.fns[c].loc() if c in F.fns else "",
                   sample=True)
    ext_unchecked = 0
    for n, fn in F.fns.items():
        if not n.startswith("steel"):
            continue
        for i, b in fn.calls():
            if re.search(r"(alloc::(sync|rc)::\{impl (Arc|Rc)<T,A>\}|triomphe::.*)::get_mut_unchecked$", b["callee"]):
                ext_unchecked += 1
                R.inst("C03.a", "%s calls %s" % (fn.short(), lib.short_name(b["callee"])), False,
                       "%s uses the std unchecked accessor on a shared pointer" % fn.short(), fn.loc(b["line"]))
    # raw mutable derefs / const->mut casts on payload types
    nraw = 0
    for n, fn in F.fns.items():
        if not n.startswith("steel::") or "::jit2::" in n:
            continue
        for i, j, e in fn.events("rawderef"):
            nraw += 1
            base = re.match(r"[A-Za-z_][A-Za-z0-9_]*", e[1])
            if e[2][0] in "wm" and e[2] != "mv" and base and base.group(0) in pts and base.group(0) not in ("SyntaxRules",):
                R.inst("C03.a", "%s writes through a raw pointer to %s" % (fn.short(), e[1]), False,
                       "%s mutably dereferences a raw pointer to the value payload type %s" % (fn.short(), e[1]), fn.loc())
        for i, j, e in fn.events("cast"):
            if e[1] == "PtrToPtr" and e[2].startswith("*const ") and e[3].startswith("*mut "):
                base = re.match(r"\*mut ([A-Za-z_][A-Za-z0-9_]*)", e[3])
                if base and base.group(1) in pts and not e[5]:
                    R.inst("C03.a", "%s casts %s to %s" % (fn.short(), e[2], e[3]), False,
                           "%s casts away constness of a pointer to the value payload type %s" % (fn.short(), base.group(1)),
                           fn.loc(e[4]))
    R.floor("C03.a", "raw dereferences seen (matcher alive)", nraw, 100)
    R.inst("C03.a", "no raw mutable access to value payloads (%d raw dereferences examined)" % 0, True,
           sample={"raw_derefs_examined": nraw, "payload_types": sorted(pts)[:12]})
    for im in F.impls:
        if im["self"].split("<")[0] in ("Gc", "BiasedRc") and im["trait"] and \
                re.search(r"::(DerefMut|AsMut|BorrowMut|IndexMut)$", im["trait"]):
            R.inst("C03.a", "%s implements %s" % (im["self"], im["trait"]), False,
                   "%s implements %s: every holder can mutate the shared payload" % (im["self"], im["trait"]),
                   "%s:%s" % (im["file"], im["line"]))
    gcm = [f for n, f in F.fns.items() if re.search(r"^steel::gc::\{impl Gc<[^}]*\}::\w+$", n) and f.d.get("pub")
           and "&mut " in f.d.get("out", "")]
    names = sorted(lib.split_path(f.name)[-1] for f in gcm)
    R.inst("C03.a", "pub fns of Gc returning &mut = %s" % names, set(names) <= {"get_mut", "make_mut"} and "get_mut" in names,
           "Gc exposes %s returning a mutable reference; only get_mut and make_mut may" % names, "", sample=True)

    # ---- b
    for nm in ("get_mut", "make_mut", "try_unwrap"):
        fn = F.one(r"^steel::gc::\{impl Gc<T>\}::%s$" % nm)
        dele = [b["callee"] for _, b in fn.calls()]
        ok = any(re.search(r"(BiasedRc<T>|Arc<T,A>|Rc<T,A>|Arc<T>)\}::%s$" % nm, c) for c in dele)
        R.inst("C03.b", "Gc::%s delegates to the checked Shared::%s" % (nm, nm), ok,
               "Gc::%s no longer delegates to the uniqueness-checked accessor of the shared pointer (calls: %s)" % (
                   nm, [lib.short_name(c) for c in dele]), fn.loc(), sample=True)
    hu = F.one(r"^steel_rc::\{impl RcBox<T>\}::has_unique_ref$")
    okb, why = c05.owner_branch_checks_shared(hu)
    R.inst("C03.b", "has_unique_ref / owner branch: local count == 1 and shared count == 0", okb,
           "RcBox::has_unique_ref: %s — Gc::get_mut / make_mut then hand out &mut to a value another thread still holds" % why,
           hu.loc(), sample=True)
    c05.unique_predicate_instances(F, R, "C03.b", hu)
    # C05.d instances are shared (same construct)
    gm = F.one(r"^steel_rc::\{impl BiasedRc<T>\}::get_mut$")
    hub = gm.call_blocks(r"\{impl RcBox<T>\}::has_unique_ref$")
    un = gm.call_blocks(r"\{impl BiasedRc<T>\}::get_mut_unchecked$")
    trues = [lib.bool_branch(gm, b)[0] for b in hub]
    R.inst("C03.b", "BiasedRc::get_mut / unchecked access only after has_unique_ref", bool(hub) and bool(un) and
           all(c05.dominated_by_any(gm, b, trues) for b in un),
           "BiasedRc::get_mut hands out &mut without has_unique_ref()==true", gm.loc(), sample=True)
    mm = F.one(r"^steel_rc::\{impl BiasedRc<T>\}::make_mut$")
    hub = mm.call_blocks(r"\{impl RcBox<T>\}::has_unique_ref$")
    un = mm.call_blocks(r"\{impl BiasedRc<T>\}::get_mut_unchecked$")
    news = mm.call_blocks(r"\{impl BiasedRc<T>\}::new$")
    ok = bool(hub) and bool(un)
    for b in hub:
        t, f = lib.bool_branch(mm, b)
        ok = ok and f is not None and mm.every_path_passes_from([f], un, news)[0]
    R.inst("C03.b", "BiasedRc::make_mut / shared value is cloned before mutation", ok,
           "BiasedRc::make_mut mutates the shared original when it is not unique", mm.loc(), sample=True)

    # ---- p
    sites = []
    for n, fn in F.fns.items():
        if re.search(r"^steel::(primitives::(hashmaps|hashsets|vectors|strings)|values::structs)::", n):
            for i, b in fn.calls():
                if re.search(r"^steel::gc::\{impl Gc<T>\}::(get_mut|make_mut)$", b["callee"]):
                    sites.append(fn.short())
    R.floor("C03.p", "Gc::get_mut/make_mut sites in the collection primitives", len(sites), 12)
    R.inst("C03.p", "%d in-place fast paths use the checked accessor" % len(sites), True, sample={"sites": sorted(set(sites))[:20]})


def jit_move_rule(F, R, rid="C03.m"):
    from . import jitmodel
    R.rule(rid, "the JIT moves a local out of its slot (MOVEREADLOCAL* → MaybeStackValue::MutRegister) only after every "
                    "pending by-reference read of that slot on the shadow stack has been turned into a value: each construction "
                    "of MutRegister in the translator is cut off from the function entry by a loop that calls "
                    "immutable_register_to_value (directly, or in a helper whose call lies on a loop) — reifying only the first "
                    "pending read leaves later operands reading the slot after the move, so an argument that is used twice "
                    "and then moved into an in-place update is observed as void / as the updated value")
    tr = jitmodel.translator(F)
    byname = {f.name: f for f in tr}

    def loop_blocks(f):
        out = set()
        for i, b in f.calls():
            if re.search(r"::immutable_register_to_value$", b["callee"]) and i in f.reachable_from(f.succ(i)):
                scc = {x for x in f.reachable_from(f.succ(i)) if i in f.reachable_from([x])}
                out |= scc | {i}
        return out
    helpers = {f.name for f in tr if loop_blocks(f)}
    n = 0
    for f in sorted(tr, key=lambda x: x.name):
        movers = [i for i, _, e in f.events("agg") if e[1] == "MaybeStackValue" and e[2] == "MutRegister"]
        if not movers:
            continue
        via = loop_blocks(f) | {i for i, b in f.calls() if b["callee"] in helpers and b["callee"] != f.name}
        for a in movers:
            n += 1
            ok = bool(via) and f.every_path_passes_from([0], [a], via)[0]
            R.inst(rid, "%s / pending reads are reified in a loop before the move" % f.short(), ok,
                   "%s builds MaybeStackValue::MutRegister (a move out of the local's slot, line %s) on a path that has not "
                   "run a loop reifying every pending read of that slot: (list m m (hash-insert m 'a 1)) compiled by the JIT "
                   "lets the second `m` read the slot after it was moved into the in-place insert" % (
                       f.short(), [e[3] for _, _, e in f.events("agg") if e[2] == "MutRegister"][:1]), f.loc(), sample=True)
    R.floor(rid, "MutRegister constructions in the translator", n, 2)
