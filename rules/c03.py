"""C03 — immutable values never change (DESIGN §4 C03).

Decided clause: a `&mut` to the payload of a shared immutable value can be obtained only through the
uniqueness-checked API (Gc::get_mut / make_mut / try_unwrap -> Shared::*), which really tests uniqueness; there is no
other road (no unchecked accessor, no raw-pointer write, no DerefMut-like impl).  Because the persistent collections'
mutators need `&mut`, Rust's type system then guarantees every in-place update is on a uniquely held value.
Not decided: that the count is right at the instant of the test (C05, last-use analysis).
"""
import re

from . import lib, c05
from .lib import CheckError

PAYLOAD_WRAPPERS = {"Gc", "GcMut", "HeapRef", "SteelString", "SteelVector", "SteelHashMap", "SteelHashSet"}


def payload_types(F):
    """short names of types stored behind shared pointers in SteelVal variants"""
    sv = F.adt("SteelVal")
    out = set()
    skip = {"Gc", "GcMut", "Global", "RwLock", "Box", "HeapRef", "Vec", "Arc", "BiasedRc", "Mutex", "RefCell", "Option",
            "Pin", "Shared", "RawRwLock", "RawMutex"}
    for v in sv["variants"]:
        for f in v["fields"]:
            for m in f["mentions"]:  # fn-pointer / dyn signatures are not descended into by the driver
                short = lib.split_path(m)[-1]
                if m.startswith("dyn ") or m in ("fnptr", "rawptr") or short in skip:
                    continue
                out.add(short)
    # the collections inside the newtype wrappers
    out |= {"Vector", "HashMap", "HashSet", "GenericHashMap", "GenericHashSet", "GenericVector", "GenericList", "String"}
    return out


def run(F, R, ctx):
    _run(F, R, ctx)
    if "jit2" in (F.meta.get("features") or []):
        jit_move_rule(F, R)
    from . import c11
    c11.union_rule(F, R, "C03.u")
    ownership_arm_rule(F, R)
    last_use_rule(F, R)


def _run(F, R, ctx):
    R.rule("C03.a", "no road to `&mut payload` other than the checked API: get_mut_unchecked is called only inside the "
                    "checked accessors/destructor; no raw-pointer mutable dereference or *const->*mut cast targets a value "
                    "payload type; Gc/BiasedRc have no DerefMut/AsMut/BorrowMut impl; Gc's pub fns returning &mut are "
                    "exactly get_mut and make_mut")
    R.rule("C03.b", "the checked API really checks: Gc::{get_mut,make_mut,try_unwrap} delegate to Shared::{get_mut,make_mut,"
                    "try_unwrap}; BiasedRc::get_mut/make_mut are guarded by has_unique_ref (see C05.d), whose owner branch "
                    "compares the owner count with 1 and the shared count with 0")
    R.rule("C03.p", "positive control: the in-place fast paths of the immutable collections go through Gc::get_mut")
    pts = payload_types(F)
    _, callers = F.graph()

    # ---- a: unchecked accessor callers (all crates)
    for target in [n for n in F.fns if re.search(r"::get_mut_unchecked$", n)]:
        for c in sorted(callers.get(target, ())):
            ok = bool(re.search(r"^steel_rc::\{impl BiasedRc<T>\}::(get_mut|make_mut|drop_contents_and_maybe_box)$", c))
            R.inst("C03.a", "%s calls get_mut_unchecked" % lib.short_name(c), ok,
                   "%s obtains &mut to a shared payload through get_mut_unchecked, bypassing the uniqueness test: every "
                   "other holder of the value sees the mutation" % lib.short_name(c), F.fns[c].loc() if c in F.fns else "",
                   sample=True)
    ext_unchecked = 0
    for n, fn in F.fns.items():
        if not n.startswith("steel"):
            continue
        for i, b in fn.calls():
            if re.search(r"(alloc::(sync|rc)::\{impl (Arc|Rc)<T,A>\}|triomphe::.*)::get_mut_unchecked$", b["callee"]):
                ext_unchecked += 1
                R.inst("C03.a", "%s calls %s" % (fn.short(), lib.short_name(b["callee"])), False,
                       "%s uses the std unchecked accessor on a shared pointer" % fn.short(), fn.loc(b["line"]))
    # raw mutable derefs / const->mut casts on payload types
    nraw = 0
    for n, fn in F.fns.items():
        if not n.startswith("steel::") or "::jit2::" in n:
            continue
        for i, j, e in fn.events("rawderef"):
            nraw += 1
            base = re.match(r"[A-Za-z_][A-Za-z0-9_]*", e[1])
            if e[2][0] in "wm" and e[2] != "mv" and base and base.group(0) in pts and base.group(0) not in ("SyntaxRules",):
                R.inst("C03.a", "%s writes through a raw pointer to %s" % (fn.short(), e[1]), False,
                       "%s mutably dereferences a raw pointer to the value payload type %s" % (fn.short(), e[1]), fn.loc())
        for i, j, e in fn.events("cast"):
            if e[1] == "PtrToPtr" and e[2].startswith("*const ") and e[3].startswith("*mut "):
                base = re.match(r"\*mut ([A-Za-z_][A-Za-z0-9_]*)", e[3])
                if base and base.group(1) in pts and not e[5]:
                    R.inst("C03.a", "%s casts %s to %s" % (fn.short(), e[2], e[3]), False,
                           "%s casts away constness of a pointer to the value payload type %s" % (fn.short(), base.group(1)),
                           fn.loc(e[4]))
    R.floor("C03.a", "raw dereferences seen (matcher alive)", nraw, 100)
    R.inst("C03.a", "no raw mutable access to value payloads (%d raw dereferences examined)" % 0, True,
           sample={"raw_derefs_examined": nraw, "payload_types": sorted(pts)[:12]})
    for im in F.impls:
        if im["self"].split("<")[0] in ("Gc", "BiasedRc") and im["trait"] and \
                re.search(r"::(DerefMut|AsMut|BorrowMut|IndexMut)$", im["trait"]):
            R.inst("C03.a", "%s implements %s" % (im["self"], im["trait"]), False,
                   "%s implements %s: every holder can mutate the shared payload" % (im["self"], im["trait"]),
                   "%s:%s" % (im["file"], im["line"]))
    gcm = [f for n, f in F.fns.items() if re.search(r"^steel::gc::\{impl Gc<[^}]*\}::\w+$", n) and f.d.get("pub")
           and "&mut " in f.d.get("out", "")]
    names = sorted(lib.split_path(f.name)[-1] for f in gcm)
    R.inst("C03.a", "pub fns of Gc returning &mut = %s" % names, set(names) <= {"get_mut", "make_mut"} and "get_mut" in names,
           "Gc exposes %s returning a mutable reference; only get_mut and make_mut may" % names, "", sample=True)

    # ---- b
    for nm in ("get_mut", "make_mut", "try_unwrap"):
        fn = F.one(r"^steel::gc::\{impl Gc<T>\}::%s$" % nm)
        dele = [b["callee"] for _, b in fn.calls()]
        ok = any(re.search(r"(BiasedRc<T>|Arc<T,A>|Rc<T,A>|Arc<T>)\}::%s$" % nm, c) for c in dele)
        R.inst("C03.b", "Gc::%s delegates to the checked Shared::%s" % (nm, nm), ok,
               "Gc::%s no longer delegates to the uniqueness-checked accessor of the shared pointer (calls: %s)" % (
                   nm, [lib.short_name(c) for c in dele]), fn.loc(), sample=True)
    hu = F.one(r"^steel_rc::\{impl RcBox<T>\}::has_unique_ref$")
    okb, why = c05.owner_branch_checks_shared(hu)
    R.inst("C03.b", "has_unique_ref / owner branch: local count == 1 and shared count == 0", okb,
           "RcBox::has_unique_ref: %s — Gc::get_mut / make_mut then hand out &mut to a value another thread still holds" % why,
           hu.loc(), sample=True)
    c05.unique_predicate_instances(F, R, "C03.b", hu)
    # C05.d instances are shared (same construct)
    gm = F.one(r"^steel_rc::\{impl BiasedRc<T>\}::get_mut$")
    hub = gm.call_blocks(r"\{impl RcBox<T>\}::has_unique_ref$")
    un = gm.call_blocks(r"\{impl BiasedRc<T>\}::get_mut_unchecked$")
    trues = [lib.bool_branch(gm, b)[0] for b in hub]
    R.inst("C03.b", "BiasedRc::get_mut / unchecked access only after has_unique_ref", bool(hub) and bool(un) and
           all(c05.dominated_by_any(gm, b, trues) for b in un),
           "BiasedRc::get_mut hands out &mut without has_unique_ref()==true", gm.loc(), sample=True)
    mm = F.one(r"^steel_rc::\{impl BiasedRc<T>\}::make_mut$")
    hub = mm.call_blocks(r"\{impl RcBox<T>\}::has_unique_ref$")
    un = mm.call_blocks(r"\{impl BiasedRc<T>\}::get_mut_unchecked$")
    news = mm.call_blocks(r"\{impl BiasedRc<T>\}::new$")
    ok = bool(hub) and bool(un)
    for b in hub:
        t, f = lib.bool_branch(mm, b)
        ok = ok and f is not None and mm.every_path_passes_from([f], un, news)[0]
    R.inst("C03.b", "BiasedRc::make_mut / shared value is cloned before mutation", ok,
           "BiasedRc::make_mut mutates the shared original when it is not unique", mm.loc(), sample=True)

    # ---- p
    sites = []
    for n, fn in F.fns.items():
        if re.search(r"^steel::(primitives::(hashmaps|hashsets|vectors|strings)|values::structs)::", n):
            for i, b in fn.calls():
                if re.search(r"^steel::gc::\{impl Gc<T>\}::(get_mut|make_mut)$", b["callee"]):
                    sites.append(fn.short())
    R.floor("C03.p", "Gc::get_mut/make_mut sites in the collection primitives", len(sites), 12)
    R.inst("C03.p", "%d in-place fast paths use the checked accessor" % len(sites), True, sample={"sites": sorted(set(sites))[:20]})


def jit_move_rule(F, R, rid="C03.m"):
    from . import jitmodel
    R.rule(rid, "the JIT moves a local out of its slot (MOVEREADLOCAL* → MaybeStackValue::MutRegister) only after every "
                    "pending by-reference read of that slot on the shadow stack has been turned into a value: each construction "
                    "of MutRegister in the translator is cut off from the function entry by a loop that calls "
                    "immutable_register_to_value (directly, or in a helper whose call lies on a loop) — reifying only the first "
                    "pending read leaves later operands reading the slot after the move, so an argument that is used twice "
                    "and then moved into an in-place update is observed as void / as the updated value")
    tr = jitmodel.translator(F)
    byname = {f.name: f for f in tr}

    def loop_blocks(f):
        out = set()
        for i, b in f.calls():
            if re.search(r"::immutable_register_to_value$", b["callee"]) and i in f.reachable_from(f.succ(i)):
                scc = {x for x in f.reachable_from(f.succ(i)) if i in f.reachable_from([x])}
                out |= scc | {i}
        return out
    helpers = {f.name for f in tr if loop_blocks(f)}
    n = 0
    for f in sorted(tr, key=lambda x: x.name):
        movers = [i for i, _, e in f.events("agg") if e[1] == "MaybeStackValue" and e[2] == "MutRegister"]
        if not movers:
            continue
        via = loop_blocks(f) | {i for i, b in f.calls() if b["callee"] in helpers and b["callee"] != f.name}
        for a in movers:
            n += 1
            ok = bool(via) and f.every_path_passes_from([0], [a], via)[0]
            R.inst(rid, "%s / pending reads are reified in a loop before the move" % f.short(), ok,
                   "%s builds MaybeStackValue::MutRegister (a move out of the local's slot, line %s) on a path that has not "
                   "run a loop reifying every pending read of that slot: (list m m (hash-insert m 'a 1)) compiled by the JIT "
                   "lets the second `m` read the slot after it was moved into the in-place insert" % (
                       f.short(), [e[3] for _, _, e in f.events("agg") if e[2] == "MutRegister"][:1]), f.loc(), sample=True)
    R.floor(rid, "MutRegister constructions in the translator", n, 2)


# ---------------------------------------------------------------------------------------------------------------------
# C03.s — the in-place arm and the copying arm of a functional update apply the same update
MUTATOR_NAMES = {"push_back", "push_front", "pop_back", "pop_front", "set", "insert", "remove", "update", "truncate", "take",
                 "skip", "clear", "union", "append", "retain", "split_off", "index_mut", "swap", "without", "extend", "push",
                 "pop", "insert_str", "push_str", "remove_entry", "drain", "slice", "sort", "sort_by", "reverse", "difference",
                 "intersection", "symmetric_difference", "relative_complement", "unions"}
# persistent twins of an in-place mutator (the collection library's own naming), one line of reason each
CANON = {
    "update": "insert",      # HashMap/HashSet::update(k, v) = clone + insert(k, v)
    "take": "truncate",      # Vector::take(n) = clone + truncate(n)  (take asserts n <= len, truncate does not: C07.s)
    "skip": "pop_front",     # Vector::skip(n) = clone + n × pop_front
    "without": "remove",     # HashMap/HashSet::without(k) = clone + remove(k)
}
COLLECTION_CRATES = r"^(steel_imbl|imbl|im|im_rc|im_lists|alloc|smallvec|hashbrown|std::collections)::"


def ownership_arm_rule(F, R, rid="C03.s"):
    from . import shared
    from .c07 import _backward, _origins
    R.rule(rid, "a functional update has two arms — in place when Gc::get_mut proves the holder unique, on a copy otherwise — and "
                "both apply the same update: at every switch on the result of Gc::get_mut in script-reachable code where an "
                "arm calls a mutator of the collection library, the other arm calls the same mutators (persistent twins "
                "update/take/skip/without count as insert/truncate/pop_front/remove; `clear` pairs with constructing a fresh "
                "collection), each mutator receives arguments derived from the same parameters, and the comparisons that "
                "guard it in one arm guard it in the other. nc: otherwise the value returned depends on how many references "
                "exist (the update is not 'the update applied to a fresh copy')")
    reach = shared.script_reach(F)
    n = 0
    for name, fn in sorted(F.fns.items()):
        if not name.startswith("steel::") or name not in reach:
            continue
        for i, b in fn.calls():
            if not re.search(r"gc::\{impl Gc<T>\}::get_mut$", b["callee"]):
                continue
            nxt, hops = b.get("ret"), 0
            while nxt is not None and fn.blocks[nxt]["k"] == "goto" and hops < 3:
                nxt, hops = fn.blocks[nxt]["s"][0], hops + 1
            if nxt is None:
                continue
            sw = fn.blocks[nxt]
            if sw["k"] != "switch" or sw["on"] != "enum:Option":
                continue          # tuple matches (hm_union) are C03.u's
            am = lib.arm_map(fn, nxt)
            maps = _backward(fn)
            nparams = len(fn.d["in"])
            params = {"_%d" % k for k in range(1, nparams + 1)}
            cmpname = {}
            for blk2 in fn.blocks:
                for e in blk2["e"]:
                    if e[0] == "der" and len(e) >= 5 and e[3] in ("Lt", "Le", "Gt", "Ge", "Eq", "Ne"):
                        cmpname.setdefault(e[1], []).append((e[3], e[4], e[2]))
            dom = fn.dominators()
            arms = {}
            for v in ("Some", "None"):
                t = am.get(v, am["_"])
                blocks = lib.arm_reach(fn, nxt, t)
                muts, fresh, unfinished = [], False, False
                for x in sorted(blocks):
                    bx = fn.blocks[x]
                    if bx["c"] or bx["k"] != "call":
                        continue
                    if re.search(r"todo|unimplemented", bx.get("mac", "")) and "panic" in bx["callee"]:
                        unfinished = True
                    if not re.search(COLLECTION_CRATES, bx["callee"]):
                        # a helper of the repository that the arm hands the collection to (one arm extracted into a
                        # function): its mutators count for the arm; argument / guard provenance is not compared there
                        hf = F.fns.get(bx["callee"])
                        if hf is not None and hf.name.startswith("steel::primitives::") and len(hf.blocks) < 60:
                            for _, hb in lib.deep_calls(F, hf, depth=1):
                                hs = lib.split_path(hb["callee"])[-1]
                                if re.search(COLLECTION_CRATES, hb["callee"]) and hs in MUTATOR_NAMES:
                                    muts.append((CANON.get(hs, hs), hs, None, None, bx["line"]))
                                if re.search(COLLECTION_CRATES, hb["callee"]) and hs in ("new", "default", "new_in"):
                                    fresh = True
                        continue
                    short = lib.split_path(bx["callee"])[-1]
                    if short in ("new", "default", "new_in") :
                        fresh = True
                    if short not in MUTATOR_NAMES:
                        continue
                    # parameters each non-receiver argument derives from
                    argsrc = []
                    for a in bx["args"][1:]:
                        src = set()
                        for tk in lib.TOK.findall(a):
                            src |= _origins(fn, tk, maps) & params
                        argsrc.append(frozenset(src))
                    # comparisons inside the arm that dominate the mutator
                    guards = []
                    for sb in dom[x]:
                        if sb not in blocks or fn.blocks[sb]["k"] != "switch" or fn.blocks[sb]["on"] != "bool":
                            continue
                        loc = re.match(r"_\d+", fn.blocks[sb].get("place", "").strip("()*"))
                        if not loc:
                            continue
                        for c_ in [loc.group(0)] + sorted(_origins(fn, loc.group(0), (maps[0], {}, {}))):
                            for op, side, src in cmpname.get(c_, ()):
                                if side == 0:
                                    guards.append(op)
                    muts.append((CANON.get(short, short), short, tuple(argsrc), tuple(sorted(guards)), bx["line"]))
                arms[v] = (muts, fresh, unfinished)
            (ms, fs, us), (mn, fn_, un) = arms["Some"], arms["None"]
            if not ms and not mn:
                continue
            n += 1
            key = "%s: in-place and copying arm apply the same update" % fn.short()
            names_s = sorted(set(m[0] for m in ms))
            names_n = sorted(set(m[0] for m in mn))
            problems = []
            if un or us:
                problems.append("one arm is unfinished (todo!/unimplemented!)")
            if names_s != names_n:
                if names_s == ["clear"] and not names_n and fn_:
                    pass            # the copy of a cleared collection is a fresh one
                else:
                    problems.append("the in-place arm calls {%s}, the copying arm {%s}" % (
                        ", ".join(sorted(set(m[1] for m in ms))) or "nothing", ", ".join(sorted(set(m[1] for m in mn))) or "nothing"))
            else:
                for cname in names_s:
                    a_s = [m for m in ms if m[0] == cname]
                    a_n = [m for m in mn if m[0] == cname]
                    if any(m[2] is None for m in a_s + a_n):
                        continue          # one side lives in a helper: names agree, provenance not compared
                    if len(a_s[0][2]) == len(a_n[0][2]):
                        # position by position the same parameter reaches both calls (an arm may clamp with a length as well)
                        for k in range(len(a_s[0][2])):
                            ss = set().union(*[m[2][k] for m in a_s])
                            sn = set().union(*[m[2][k] for m in a_n])
                            if (ss or sn) and not (ss & sn):
                                problems.append("argument %d of `%s` derives from parameter(s) %s in the in-place arm and %s in "
                                                "the copying arm" % (k + 1, cname, sorted(ss) or "none", sorted(sn) or "none"))
                    if a_s[0][1] == a_n[0][1] and {m[3] for m in a_s} != {m[3] for m in a_n}:
                        problems.append("`%s` is guarded by the comparisons [%s] in the in-place arm and [%s] in the copying arm" % (
                            cname, ",".join(a_s[0][3]), ",".join(a_n[0][3])))
            R.inst(rid, key, not problems,
                   "%s (switch on Gc::get_mut, line %s): %s — the result of the update depends on whether another reference to "
                   "the collection exists" % (fn.short(), b["line"], "; ".join(problems)), fn.loc(b["line"]),
                   sample={"fn": fn.short(), "in_place": [m[1] for m in ms], "copy": [m[1] for m in mn]})
    R.floor(rid, "functional updates with an in-place arm", n, 10)


# ---------------------------------------------------------------------------------------------------------------------
# C03.l — who may declare a read to be the last use of a variable
SCOPE_END = r"ScopeMap<[^}]*\}::(remove|pop_layer)$|\{impl AnalysisPass[^}]*\}::pop_top_layer$|::pop_top_layer$"


def last_use_rule(F, R, rid="C03.l"):
    from .c07 import _backward, _origins
    R.rule(rid, "a read is declared the variable's last use (SemanticInformation.last_usage, which makes the code generator "
                "emit the moving read MOVEREADLOCAL — the value leaves the slot, and a uniquely held collection is then "
                "updated in place) only where nothing can read the variable afterwards: every store to last_usage in the "
                "compiler takes the read it flags from the variable's scope entry *as the scope ends* (the result of "
                "ScopeMap::remove / pop_top_layer / pop_layer), or lies on the true side of a comparison with "
                "CallKind::TailCall (the function returns with that call). nc: a read flagged anywhere else — e.g. at an "
                "assignment that may not execute — is followed on some path by another read, which finds the slot emptied "
                "(#<void>) or, worse, a holder observing an in-place update of a value it still refers to")
    n = 0
    for name, fn in sorted(F.fns.items()):
        if not name.startswith("steel::compiler::"):
            continue
        sites = [(i, e) for i, _, e in fn.events("fld") if e[1] == "SemanticInformation" and e[2] == "last_usage" and "w" in e[3]]
        if not sites:
            continue
        if re.search(r"\{impl (Clone|Debug|Default|PartialEq|Hash|Serialize|Deserialize)", name) or name.endswith("SemanticInformation}::new"):
            continue
        maps = _backward(fn)
        dom = fn.dominators()
        for i, e in sites:
            # a constructor writing the field of a fresh value is not a flagging
            if any(x[0] == "agg" and x[1] == "SemanticInformation" for x in fn.blocks[i]["e"]):
                continue
            n += 1
            scope_end = False
            line = fn.blocks[i].get("line")
            for g in sorted(dom[i], reverse=True):
                gb = fn.blocks[g]
                if gb["k"] == "call" and re.search(r"::get_mut$", gb["callee"]) and len(gb["args"]) >= 2:
                    line = line or gb.get("line")
                    ko = {o.split(".")[0] for o in _origins(fn, re.match(r"_\d+", gb["args"][1]).group(0), maps, depth=30)}
                    if any(re.search(SCOPE_END, cb["callee"]) and (cb.get("dest") or "").split(".")[0] in ko for _, cb in fn.calls()):
                        scope_end = True
                    break
            tail = False
            for g in dom[i]:
                gb = fn.blocks[g]
                if gb["k"] == "call" and re.search(r"\{impl PartialEq(<CallKind>)? for CallKind\}::eq$", gb["callee"]):
                    kvs = set()
                    for a in gb["args"]:
                        for t in lib.TOK.findall(a):
                            for o in _origins(fn, t, maps, depth=6) | {t}:
                                for blk in fn.blocks:
                                    for ev in blk["e"]:
                                        if ev[0] == "kv" and ev[1].split(".")[0] == o.split(".")[0] and ev[2].startswith("variant:CallKind::"):
                                            kvs.add(ev[2].split("::")[-1])
                    br = lib.bool_branch(fn, g)
                    if "TailCall" in kvs and br and br[0] is not None and (br[0] == i or i in fn.reachable_from([br[0]], avoid={g})) \
                            and not (br[1] is not None and (br[1] == i or i in fn.reachable_from([br[1]], avoid={g}))):
                        tail = True
            R.inst(rid, "%s / last_usage set %s" % (fn.short(), "as the scope ends" if scope_end else "at a tail call" if tail else "elsewhere"),
                   scope_end or tail,
                   "%s flags a read as the last use of its variable (line %s) although the variable's scope has not ended there "
                   "and the function does not return there: on a path where another read follows, that read finds the local "
                   "moved out" % (fn.short(), line), fn.loc(line), sample=True)
    R.floor(rid, "stores to SemanticInformation.last_usage", n, 3)
