"""Shared machinery of the rule engine: fact loading, call graph, CFG algorithms, reporting."""
import json
import os
import re
import sys
import time
from collections import defaultdict, deque

VERIF = os.path.dirname(os.path.dirname(os.path.abspath(__file__)))


class CheckError(Exception):
    """The checker cannot decide (anchor lost, floor not reached, facts missing). Never a pass."""


# --------------------------------------------------------------------------- facts
class Fn:
    __slots__ = ("d", "name", "blocks", "_preds", "_dom", "crate", "_mv", "_calldest")

    def __init__(self, d, crate):
        self.d = d
        self.name = d["name"]
        self.blocks = d["blocks"]
        self._preds = None
        self._dom = None
        self._mv = None
        self._calldest = None
        self.crate = crate

    @property
    def file(self):
        return self.d["file"]

    @property
    def line(self):
        return self.d["line"]

    def loc(self, line=None):
        return "%s:%s" % (self.d["file"], line if line else self.d["line"])

    def short(self):
        return short_name(self.name)

    # ---- CFG (normal edges only: cleanup blocks = unwinding are excluded unless asked)
    def succ(self, b, cleanup=False):
        bl = self.blocks
        return [s for s in bl[b]["s"] if cleanup or not bl[s]["c"]]

    def preds(self):
        if self._preds is None:
            p = defaultdict(list)
            for i, b in enumerate(self.blocks):
                if b["c"]:
                    continue
                for s in self.succ(i):
                    p[s].append(i)
            self._preds = p
        return self._preds

    def normal_blocks(self):
        return [i for i, b in enumerate(self.blocks) if not b["c"]]

    def reachable_from(self, starts, avoid=(), cleanup=False):
        avoid = set(avoid)
        seen = set()
        dq = deque(s for s in starts if s not in avoid)
        seen.update(dq)
        while dq:
            b = dq.popleft()
            for s in self.succ(b, cleanup):
                if s not in seen and s not in avoid:
                    seen.add(s)
                    dq.append(s)
        return seen

    def dominators(self):
        """idom-free set-based dominators over normal edges from block 0"""
        if self._dom is not None:
            return self._dom
        nodes = sorted(self.reachable_from([0]))
        preds = self.preds()
        allset = set(nodes)
        dom = {n: set(allset) for n in nodes}
        dom[0] = {0}
        changed = True
        order = nodes
        while changed:
            changed = False
            for n in order:
                if n == 0:
                    continue
                ps = [p for p in preds[n] if p in dom]
                if not ps:
                    continue
                new = set.intersection(*(dom[p] for p in ps))
                new = new | {n}
                if new != dom[n]:
                    dom[n] = new
                    changed = True
        self._dom = dom
        return dom

    def returns(self):
        return [i for i, b in enumerate(self.blocks) if b["k"] == "return" and not b["c"]]

    def calls(self):
        for i, b in enumerate(self.blocks):
            if b["k"] == "call":
                yield i, b

    def call_blocks(self, pat, cleanup=False, wrappers=False):
        """blocks calling a function matching pat — or (wrappers=True) one of the repository's small helpers that calls
        such a function on every path to its return (Facts.must_call)"""
        rx = re.compile(pat) if isinstance(pat, str) else pat
        wr = _CURRENT.must_call(rx) if (wrappers and _CURRENT is not None) else ()
        return [i for i, b in enumerate(self.blocks)
                if b["k"] == "call" and (cleanup or not b["c"]) and
                (rx.search(b["callee"]) or rx.search(b["decl"]) or (b["callee"] in wr and b["callee"] != self.name))]

    def events(self, kind=None, cleanup=False):
        for i, b in enumerate(self.blocks):
            if b["c"] and not cleanup:
                continue
            for j, e in enumerate(b["e"]):
                if kind is None or e[0] == kind:
                    yield i, j, e

    def every_path_passes(self, frm, to, via, avoid_ok=()):
        """True iff every normal path from block `frm` (exclusive of its own body) to any block in `to`
        goes through a block in `via`. Returns (ok, witness_target)"""
        via = set(via)
        to = set(to)
        if frm in via:
            return True, None
        reach = self.reachable_from(self.succ(frm), avoid=via)
        bad = sorted(reach & to)
        if bad:
            return False, bad[0]
        return True, None


def short_name(n):
    # steel::steel_vm::vm::{impl VmCore}::vm -> VmCore::vm ; {impl Tr for X}::f -> <X as Tr>::f
    parts = split_path(n)
    out = []
    for p in parts[-3:]:
        m = re.match(r"\{impl (.*) for (.*)\}$", p)
        if m:
            out = ["<%s as %s>" % (m.group(2), m.group(1))]
            continue
        m = re.match(r"\{impl (.*)\}$", p)
        if m:
            out = [m.group(1)]
            continue
        out.append(p)
    return "::".join(out[-3:])


def split_path(n):
    parts = []
    depth = 0
    cur = ""
    i = 0
    while i < len(n):
        c = n[i]
        if c in "{<(":
            depth += 1
        elif c in "}>)":
            depth -= 1
        if c == ":" and depth == 0 and n[i:i + 2] == "::":
            parts.append(cur)
            cur = ""
            i += 2
            continue
        cur += c
        i += 1
    parts.append(cur)
    return parts


_CURRENT = None


class Facts:
    def __init__(self, fdir, meta=None):
        self.dir = fdir
        self.meta = meta or {}
        self.fns = {}
        self.adts = {}
        self.adts_short = defaultdict(list)
        self.impls = []
        self.crates = {}
        for f in sorted(os.listdir(fdir)):
            if not f.endswith(".json") or f == "meta.json":
                continue
            d = json.load(open(os.path.join(fdir, f)))
            self.crates[d["crate"]] = d["nfn"]
            for fn in d["fns"]:
                self.fns[fn["name"]] = Fn(fn, d["crate"])
            for a in d["adts"]:
                self.adts[a["name"]] = a
                self.adts_short[a["short"]].append(a)
            for im in d["impls"]:
                im["crate"] = d["crate"]
                self.impls.append(im)
        self._callers = None
        self._callees = None
        self._trait_impls = None
        self._must_call = {}
        global _CURRENT
        _CURRENT = self

    # ---- wrappers: a call to a function that calls X on every path to its return counts as a call to X
    def must_call(self, rx):
        """names of the repository's own functions (small ones: helpers, not drivers) in which every normal path from the
        entry to a return passes through a call matching rx, directly or through another such function (three rounds).
        `Fn.call_blocks` counts a call to one of them as a call matching rx, so that extracting `x.foo()` into a private
        helper, or calling foo through a thin wrapper, does not change what a rule sees."""
        key = rx.pattern
        got = self._must_call.get(key)
        if got is not None:
            return got
        self._must_call[key] = frozenset()          # re-entrancy guard
        must = set()
        callers = self.graph()[1]
        frontier = set()
        for n, f in self.fns.items():
            for b in f.blocks:
                if b["k"] == "call" and not b["c"] and (rx.search(b["callee"]) or rx.search(b["decl"])):
                    frontier.add(n)
                    break
        for _ in range(3):
            new = set()
            for n in frontier:
                f = self.fns.get(n)
                if f is None or n in must or len(f.blocks) > 120 or not re.match(r"steel(_rc|_parser)?::", n):
                    continue
                if rx.search(n):
                    continue
                via = [i for i, b in enumerate(f.blocks) if b["k"] == "call" and not b["c"] and
                       (rx.search(b["callee"]) or rx.search(b["decl"]) or b["callee"] in must)]
                rets = f.returns()
                if via and rets and f.every_path_passes_from([0], rets, via)[0]:
                    new.add(n)
            if not new:
                break
            must |= new
            frontier = set()
            for n in new:
                frontier |= set(callers.get(n, ()))
        self._must_call[key] = frozenset(must)
        return self._must_call[key]

    # ---- anchors
    def find(self, pat):
        rx = re.compile(pat)
        return [f for n, f in self.fns.items() if rx.search(n)]

    def one(self, pat):
        r = self.find(pat)
        if len(r) != 1:
            raise CheckError("anchor lost: expected exactly one function matching /%s/, found %d%s" % (
                pat, len(r), (": " + ", ".join(f.name for f in r[:5])) if r else ""))
        return r[0]

    def some(self, pat, floor=1):
        r = self.find(pat)
        if len(r) < floor:
            raise CheckError("anchor lost: expected >= %d functions matching /%s/, found %d" % (floor, pat, len(r)))
        return r

    def adt(self, short):
        r = self.adts_short.get(short, [])
        if len(r) != 1:
            raise CheckError("anchor lost: expected exactly one type named %s, found %d" % (short, len(r)))
        return r[0]

    # ---- call graph
    def trait_impl_methods(self):
        """trait-method decl cname -> list of impl method cnames (same item name) over analysed crates"""
        if self._trait_impls is None:
            m = defaultdict(list)
            for im in self.impls:
                if not im["trait"]:
                    continue
                for it in im["items"]:
                    name = split_path(it)[-1]
                    m[im["trait"] + "::" + name].append(it)
            self._trait_impls = m
        return self._trait_impls

    def callees(self, fn, expand_unresolved=True, closures=True):
        """set of callee cnames of fn (resolved; unresolved/virtual trait calls expanded to all known impls)"""
        out = set()
        tim = self.trait_impl_methods()
        for i, b in enumerate(fn.blocks):
            if b["k"] == "call":
                out.add(b["callee"])
                if b["how"] in ("u", "v") and expand_unresolved:
                    for t in tim.get(b["decl"], ()):
                        out.add(t)
            for e in b["e"]:
                if e[0] == "closure" and closures:
                    out.add(e[1])
                elif e[0] in ("fnref", "constref", "staticref") and closures:
                    out.add(e[1])
        return out

    def graph(self):
        if self._callees is None:
            ce = {}
            cr = defaultdict(set)
            for n, f in self.fns.items():
                s = self.callees(f)
                ce[n] = s
                for c in s:
                    cr[c].add(n)
            self._callees, self._callers = ce, cr
        return self._callees, self._callers

    def reach(self, roots, stop=None, edge_filter=None):
        """names reachable from roots in the call graph (only descends into analysed fns)"""
        ce, _ = self.graph()
        seen = set(roots)
        dq = deque(roots)
        while dq:
            n = dq.popleft()
            if stop and stop(n):
                continue
            for c in ce.get(n, ()):
                if c not in seen:
                    if edge_filter and not edge_filter(n, c):
                        continue
                    seen.add(c)
                    dq.append(c)
        return seen

    def reaches(self, root, target_rx, stop=None, maxdepth=None):
        """shortest call path from root to a callee matching target_rx, or None"""
        rx = re.compile(target_rx) if isinstance(target_rx, str) else target_rx
        ce, _ = self.graph()
        prev = {root: None}
        dq = deque([(root, 0)])
        while dq:
            n, d = dq.popleft()
            if rx.search(n) and n != root:
                path = []
                while n is not None:
                    path.append(n)
                    n = prev[n]
                return path[::-1]
            if stop and stop(n) and n != root:
                continue
            if maxdepth is not None and d >= maxdepth:
                continue
            for c in sorted(ce.get(n, ())):
                if c not in prev:
                    prev[c] = n
                    dq.append((c, d + 1))
        return None


# --------------------------------------------------------------------------- reporting
class Violation:
    def __init__(self, rule, key, msg, where=""):
        self.rule, self.key, self.msg, self.where = rule, key, msg, where

    def fullkey(self):
        return "%s / %s" % (self.rule, self.key)


class Report:
    def __init__(self, prop, tier):
        self.prop = prop
        self.tier = tier
        self.rules = {}
        self.instances = 0
        self.nontrivial = set()
        self.samples = []
        self.violations = []
        self.notes = []
        self.assumptions = []
        self.rule_counts = defaultdict(lambda: [0, 0])  # rule -> [instances, violations]
        self.t0 = time.time()

    def rule(self, rid, text):
        self.rules[rid] = text

    def inst(self, rid, key, ok, msg="", where="", sample=None, nontrivial=True):
        """record one decided rule instance"""
        self.instances += 1
        self.rule_counts[rid][0] += 1
        if nontrivial:
            self.nontrivial.add((rid, key))
        if sample is not None and sum(1 for s in self.samples if s.get("rule") == rid) < 4:
            s = {"rule": rid, "instance": key, "holds": bool(ok)}
            if where:
                s["where"] = where
            if isinstance(sample, dict):
                s.update(sample)
            elif sample is not True:
                s["detail"] = sample
            self.samples.append(s)
        if not ok:
            self.rule_counts[rid][1] += 1
            self.violations.append(Violation(rid, key, msg, where))

    def floor(self, rid, what, n, floor):
        """the rule found fewer instances than were counted by hand on the reference tree: a protected construct was
        removed, or rewritten in a shape the rule does not recognise. Reported as a violation of the rule (the check goes
        on with its other rules), so that the report names what disappeared."""
        if n < floor:
            self.inst(rid, "floor / %s" % what, False,
                      "%s: only %d of the %d instances counted on the reference tree are left (%s): one of the constructs this "
                      "rule protects was removed or rewritten in a shape it does not recognise — the property is not decided "
                      "for it" % (rid, n, floor, what), "")

    def note(self, s):
        self.notes.append(s)

    def assume(self, s):
        self.assumptions.append(s)


# --------------------------------------------------------------------------- match-arm helpers
def enum_switches(fn, enum_short, place_rx=None):
    """blocks of fn that switch on the discriminant of enum `enum_short` (optionally of a place matching rx)"""
    out = []
    for i, b in enumerate(fn.blocks):
        if b["k"] == "switch" and b["on"] == "enum:" + enum_short and not b["c"]:
            if place_rx is None or re.search(place_rx, b["place"]):
                out.append(i)
    return out


def arm_map(fn, sb):
    """variant -> target block for switch block sb; 'otherwise' key '_' """
    b = fn.blocks[sb]
    m = {v: t for v, t in b["targets"]}
    m["_"] = b["otherwise"]
    return m


def arm_reach(fn, sb, target, extra_avoid=()):
    """blocks of the arm: reachable from the arm target without re-entering the switch block"""
    return fn.reachable_from([target], avoid=set([sb]) | set(extra_avoid))


def arm_calls(fn, sb, extra_avoid=()):
    """variant -> sorted list of (callee, block) reachable inside the arm. Arms sharing a target share a result."""
    res = {}
    cache = {}
    for v, t in arm_map(fn, sb).items():
        if t not in cache:
            blocks = arm_reach(fn, sb, t, extra_avoid)
            cache[t] = sorted((fn.blocks[x]["callee"], x) for x in blocks if fn.blocks[x]["k"] == "call")
        res[v] = cache[t]
    return res


def bool_branch(fn, call_block):
    """for a call returning bool whose result is branched on right away: (true_target, false_target) else (None, None)"""
    b = fn.blocks[call_block]
    nxt = b.get("ret")
    dest = b.get("dest")
    hops = 0
    while nxt is not None and hops < 4:
        nb = fn.blocks[nxt]
        if nb["k"] == "switch" and nb["on"] == "bool":
            f = None
            for v, t in nb["targets"]:
                if v == "0":
                    f = t
            return nb["otherwise"], f
        if nb["k"] == "goto" and len(nb["s"]) == 1:
            nxt = nb["s"][0]
            hops += 1
            continue
        break
    return None, None


def _every_path_passes_from(self, starts, to, via):
    via = set(via)
    to = set(to)
    reach = self.reachable_from([s for s in starts if s not in via], avoid=via)
    bad = sorted(reach & to)
    return (not bad), (bad[0] if bad else None)


Fn.every_path_passes_from = _every_path_passes_from


def alias_sources(fn, local, depth=6):
    """set of place strings that `local` (e.g. '_14') may have been copied/borrowed from, transitively"""
    mv = getattr(fn, "_mv", None)
    if mv is None:
        mv = defaultdict(set)
        for b in fn.blocks:
            for e in b["e"]:
                if e[0] == "mv":
                    mv[e[1]].add(e[2])
        try:
            fn._mv = mv
        except AttributeError:
            pass
    out = {local}
    frontier = [local]
    for _ in range(depth):
        nxt = []
        for l in frontier:
            srcs_ = set(mv.get(l, ()))
            for k_, v_ in mv.items():
                if k_.startswith(l + "."):
                    srcs_ |= v_
            for src in srcs_:
                if src not in out:
                    out.add(src)
                    base = re.match(r"^\(?\*?(_\d+)\)?$", src)
                    if base:
                        if base.group(1) not in out:
                            out.add(base.group(1))
                        nxt.append(base.group(1))
                    elif re.match(r"^_\d+$", src):
                        nxt.append(src)
        frontier = nxt
    return out


def family_events(F, fn, kind=None, cleanup=False, _depth=0):
    """events of fn plus those of the closures it constructs, the latter attributed to the block of fn in which
    the closure value is built (closures passed to and_then/map/enter_safepoint run right there or later)"""
    for i, b in enumerate(fn.blocks):
        if b["c"] and not cleanup:
            continue
        for e in b["e"]:
            if kind is None or e[0] == kind:
                yield i, e
            if e[0] == "closure" and e[1] in F.fns and _depth < 3:
                for _, ce in family_events(F, F.fns[e[1]], kind, cleanup, _depth + 1):
                    yield i, ce


def family_calls(F, fn, _depth=0):
    """(block_in_fn, call terminator) of fn and of the closures it constructs"""
    for i, b in enumerate(fn.blocks):
        if b["c"]:
            continue
        if b["k"] == "call":
            yield i, b
        for e in b["e"]:
            if e[0] == "closure" and e[1] in F.fns and _depth < 3:
                for _, cb in family_calls(F, F.fns[e[1]], _depth + 1):
                    yield i, cb


def _helper_ok(name, crate_prefixes):
    return any(name.startswith(c) for c in crate_prefixes)


def deep_events(F, fn, kind=None, depth=2, crates=("steel::", "steel_rc::", "steel_parser::"), _seen=None):
    """family_events of fn and of the repository's own functions it calls, transitively up to `depth` calls (for
    'the function does X somewhere' clauses, which must survive the extraction of X into a private helper); events of a
    helper are attributed to the block of fn that calls it"""
    _seen = _seen if _seen is not None else {fn.name}
    for i, e in family_events(F, fn, kind):
        yield i, e
    if depth <= 0:
        return
    for i, cb in family_calls(F, fn):
        c = cb["callee"]
        if c in F.fns and c not in _seen and _helper_ok(c, crates):
            _seen.add(c)
            for _, e in deep_events(F, F.fns[c], kind, depth - 1, crates, _seen):
                yield i, e


def deep_calls(F, fn, depth=2, crates=("steel::", "steel_rc::", "steel_parser::"), _seen=None):
    """family_calls of fn and of the repository's own functions it calls, transitively up to `depth` calls"""
    _seen = _seen if _seen is not None else {fn.name}
    for i, cb in family_calls(F, fn):
        yield i, cb
        c = cb["callee"]
        if depth > 0 and c in F.fns and c not in _seen and _helper_ok(c, crates):
            _seen.add(c)
            for _, cb2 in deep_calls(F, F.fns[c], depth - 1, crates, _seen):
                yield i, cb2


TOK = re.compile(r"_\d+(?:\.\d+)?")


def _norm(place):
    return re.sub(r" as \w+", "", place)


def _is_tainted(tok, taint):
    if tok in taint:
        return True
    base_ = tok.split(".")[0]
    if base_ in taint:
        return True
    if "." not in tok:  # whole local: tainted if any of its fields is
        pre = tok + "."
        return any(t.startswith(pre) for t in taint)
    return False


def tainted_locals(fn, seeds):
    """forward closure of 'derived from' over simple moves/borrows/casts, aggregates (field-sensitive: `_5.0`) and calls
    (a call's destination is derived from each of its arguments). Seeds / results are tokens like '_2' or '_5.1';
    use `tok in result` through is_tainted() semantics: a whole local counts as tainted when one of its fields is."""
    taint = set(seeds)
    changed = True
    while changed:
        changed = False
        for b in fn.blocks:
            for e in b["e"]:
                if e[0] in ("mv", "der") and e[1] not in taint:
                    if any(_is_tainted(x, taint) for x in TOK.findall(_norm(e[2]))):
                        taint.add(e[1])
                        changed = True
            if b["k"] == "call":
                d = re.match(r"_\d+", b.get("dest") or "")
                if d and d.group(0) not in taint:
                    if any(_is_tainted(x, taint) for a in b["args"] for x in TOK.findall(_norm(a))):
                        taint.add(d.group(0))
                        changed = True
    # close under 'whole local is tainted when a field is'
    for t in list(taint):
        if "." in t:
            taint.add(t.split(".")[0] + ".*")
    return TaintSet(taint)


class TaintSet(set):
    """membership is field-aware: '_5' in T is true when '_5' or any '_5.k' is tainted; '_5.0' when '_5.0' or '_5' is"""

    def __contains__(self, tok):
        if set.__contains__(self, tok):
            return True
        if "." in tok:
            return set.__contains__(self, tok.split(".")[0])
        return set.__contains__(self, tok + ".*")


def derivation_fields(F, fn):
    """for every local of fn: the set of field names its value was derived through (moves/borrows of places with field
    projections, results of calls on derived arguments, closures built in the same block and passed along)"""
    base = re.compile(r"_\d+")
    fields = defaultdict(set)
    changed = True
    # fields read inside closures constructed in a block are attributed to the call consuming the closure in that block
    clos_fields = {}
    for i, b in enumerate(fn.blocks):
        s = set()
        for e in b["e"]:
            if e[0] == "closure" and e[1] in F.fns:
                for _, ce in family_events(F, F.fns[e[1]], "fld"):
                    s.add(ce[2])
        clos_fields[i] = s
    while changed:
        changed = False
        for i, b in enumerate(fn.blocks):
            for e in b["e"]:
                if e[0] == "mv":
                    new = set(re.findall(r"\.([A-Za-z_][A-Za-z0-9_]*)", e[2]))
                    for x in base.findall(e[2]):
                        new |= fields.get(x, set())
                    if not new <= fields[e[1]]:
                        fields[e[1]] |= new
                        changed = True
            if b["k"] == "call":
                d = base.match(b.get("dest") or "")
                if d:
                    new = set()
                    for a in b["args"]:
                        new |= set(re.findall(r"\.([A-Za-z_][A-Za-z0-9_]*)", a))
                        for x in base.findall(a):
                            new |= fields.get(x, set())
                    if new:
                        new |= clos_fields.get(i, set())
                    if not new <= fields[d.group(0)]:
                        fields[d.group(0)] |= new
                        changed = True
    return fields


def sccs(nodes, succ):
    """Tarjan (iterative). nodes: iterable; succ: node -> iterable of nodes. returns list of lists (size>1 or self-loop)"""
    index = {}
    low = {}
    onstack = set()
    stack = []
    out = []
    counter = [0]
    for root in nodes:
        if root in index:
            continue
        work = [(root, iter(succ(root)))]
        index[root] = low[root] = counter[0]
        counter[0] += 1
        stack.append(root)
        onstack.add(root)
        while work:
            v, it = work[-1]
            advanced = False
            for w in it:
                if w not in index:
                    index[w] = low[w] = counter[0]
                    counter[0] += 1
                    stack.append(w)
                    onstack.add(w)
                    work.append((w, iter(succ(w))))
                    advanced = True
                    break
                elif w in onstack:
                    low[v] = min(low[v], index[w])
            if advanced:
                continue
            work.pop()
            if work:
                u = work[-1][0]
                low[u] = min(low[u], low[v])
            if low[v] == index[v]:
                comp = []
                while True:
                    w = stack.pop()
                    onstack.discard(w)
                    comp.append(w)
                    if w == v:
                        break
                if len(comp) > 1 or v in set(succ(v)):
                    out.append(comp)
    return out


def switch_key(fn, b):
    """correlation key of a bool switch: the field place its discriminant was copied from (e.g. '(*_1).safepoints_enabled')"""
    blk = fn.blocks[b]
    if blk["k"] != "switch" or blk["on"] != "bool":
        return None
    pl = blk.get("place", "")
    for s in sorted(alias_sources(fn, pl)) if pl.startswith("_") else []:
        if "." in s:
            return s
    return None


def reachable_correlated(fn, starts, avoid, decided):
    """like reachable_from, but a bool switch whose correlation key is in `decided` only follows the decided side
    (True -> otherwise target, False -> the '0' target). Sound only if nothing writes the keyed place in between
    (the caller checks that)."""
    avoid = set(avoid)
    seen = set(s for s in starts if s not in avoid)
    dq = deque(seen)
    while dq:
        b = dq.popleft()
        succ = fn.succ(b)
        k = switch_key(fn, b)
        blk0 = fn.blocks[b]
        if blk0["k"] == "switch" and blk0.get("cv") is not None:
            # compile-time constant condition (cfg!(..)): only the live side
            tgt = [t for v, t in blk0["targets"] if v == str(blk0["cv"])]
            succ = tgt if tgt else [blk0["otherwise"]]
        elif k is not None and k in decided:
            blk = fn.blocks[b]
            zero = [t for v, t in blk["targets"] if v == "0"]
            succ = [blk["otherwise"]] if decided[k] else zero
        for s in succ:
            if s not in seen and s not in avoid and not fn.blocks[s]["c"]:
                seen.add(s)
                dq.append(s)
    return seen


def park_helpers(F):
    """functions of steel_vm::vm that wait by parking in a loop (derived, not named): {name: Fn}"""
    out = {}
    for n, fn in F.fns.items():
        if not n.startswith("steel::steel_vm::vm::") or fn.d["kind"] == "Closure":
            continue
        for i, b in fn.calls():
            if re.search(r"thread::(functions::)?park$", b["callee"]) and i in fn.reachable_from(fn.succ(i)):
                out[n] = fn
                break
    return out


def leaves_wait_on_interrupt(F, fn, _depth=0):
    """True iff the parking wait of fn — its own loop, or the loop of a park helper it calls — has a ThreadState switch whose
    Interrupted arm reaches a return without parking; when that test is guarded by a bool parameter of the helper, the call
    must pass the constant that enables it"""
    parks = fn.call_blocks(r"std::thread::(functions::)?park$")
    if parks:
        sws = enum_switches(fn, "ThreadState")
        for sw in sws:
            m = arm_map(fn, sw)
            it = m.get("Interrupted")
            if it is None or it == m.get("_"):
                continue
            if set(fn.returns()) & fn.reachable_from([it], avoid=set(parks) | {sw}):
                return True, sw
        return False, None
    if _depth >= 1:
        return False, None
    helpers = park_helpers(F)
    for i, b in fn.calls():
        h = helpers.get(b["callee"])
        if h is None or h is fn:
            continue
        ok, sw = leaves_wait_on_interrupt(F, h, _depth + 1)
        if not ok:
            return False, None
        # a bool parameter guarding the test must be passed as the enabling constant
        dom = h.dominators()
        for g in dom.get(sw, ()):
            blk = h.blocks[g]
            if blk["k"] == "switch" and blk.get("on") == "bool":
                srcs = alias_sources(h, blk["place"].strip("()*"))
                params = [x for x in srcs if re.match(r"^_\d+$", x) and 1 <= int(x[1:]) <= (h.d.get("nargs") or 0)]
                if not params:
                    continue
                k = int(params[0][1:]) - 1
                false_t = [t for v, t in blk["targets"] if v == "0"]
                needs_true = sw not in h.reachable_from(false_t, avoid={g}) if false_t else True
                arg = b["args"][k] if k < len(b["args"]) else None
                if arg != ("const:1" if needs_true else "const:0"):
                    return False, None
        return True, None
    return False, None
