"""C08 — continuations, dynamic-wind, handlers (DESIGN §4 C08).

dynamic-wind / with-handler / reset-shift are Scheme library code and are not analysed.  Decided, Rust side:
  a  frame pop => continuation marks closed while the mark is still attached (typestate),
  b  forking a thread closes every open mark / a spawned thread starts with empty stacks,
  c  handler unwinding shape: operand stack truncated to the frame before the error value is pushed; a handler is
     taken out of its frame (runs at most once per frame).
"""
import re

from . import lib, sexp, facts as factsmod
from .lib import CheckError

POP = r"alloc::vec::\{impl Vec<T,A>\}::pop$"
CLOSE = r"(\{impl VmCore\}::close_continuation_marks|\{impl Continuation\}::close_marks)$"


def frame_pops(fn):
    return [i for i, b in fn.calls() if re.search(POP, b["callee"]) and b["targs"] and b["targs"][0] == "StackFrame"]


def run(F, R, ctx):
    R.rule("C08.a", "every function that pops a StackFrame off SteelThread.stack_frames closes its continuation marks "
                    "(close_continuation_marks / Continuation::close_marks reachable after the pop), and no mutable access "
                    "that can empty StackFrameAttachments.weak_continuation_mark lies on a path between the pop and the close")
    R.rule("C08.b", "VmCore::make_thread closes the marks of every frame and of current_frame; spawn_native_thread clears "
                    "the cloned thread's stack and stack_frames")
    R.rule("C08.c", "both error-unwind loops: the handler is taken out of the frame's attachments, and the operand stack is "
                    "truncated before the error value is pushed")
    poppers = []
    for n, fn in F.fns.items():
        if n.startswith("steel::steel_vm::") and frame_pops(fn):
            poppers.append(fn)
    R.floor("C08.a", "functions popping stack frames", len(poppers), 6)
    for fn in sorted(poppers, key=lambda f: f.name):
        pops = frame_pops(fn)
        closes = fn.call_blocks(CLOSE)
        after = set()
        for p in pops:
            after |= fn.reachable_from(fn.succ(p))
        closes_after = [c for c in closes if c in after]
        R.inst("C08.a", "%s / pop is followed by close" % fn.short(), bool(closes_after),
               "%s pops a frame off the frame stack but never closes its continuation marks: a continuation captured "
               "lazily in that frame stays open and re-entering it later finds no frame (host panic 'Failed to find an "
               "open continuation on the stack')" % fn.short(), fn.loc(), sample=True)
        # mark emptied between pop and close
        muts = [i for i, e in lib.family_events(F, fn, "fld")
                if e[1] == "StackFrameAttachments" and e[2] == "weak_continuation_mark" and e[3][0] in "mw"]
        bad = None
        for m in muts:
            if m in after:
                r = fn.reachable_from([m])
                if any(c in r for c in closes_after):
                    bad = m
        R.inst("C08.a", "%s / mark still attached when closing" % fn.short(), bad is None,
               "%s takes/overwrites StackFrameAttachments.weak_continuation_mark of the popped frame on a path that then "
               "calls close_continuation_marks: the close finds no mark and is a no-op" % fn.short(),
               fn.loc(), sample={"mutable_mark_accesses": len(muts)})
    # frames dropped in a loop: a frame may be skipped without closing only on the no-mark side of a test of its mark
    R.rule("C08.d", "in the error-unwind loops (the frame-dropping loops that look for handlers), every path from "
                    "popping a frame to popping the next one passes through close_continuation_marks, unless it leaves "
                    "through the 'absent' side of a test of that frame's attachments / weak_continuation_mark only (a test "
                    "of anything else, e.g. the handler, does not excuse skipping the close)")
    MARK_FIELDS = {"attachments", "weak_continuation_mark"}
    nloops = 0
    for fn in sorted(poppers, key=lambda f: f.name):
        for p in frame_pops(fn):
            if p not in fn.reachable_from(fn.succ(p)):
                continue  # not in a loop
            if not any(e[1] == "StackFrameAttachments" and e[2] == "handler" for _, e in lib.family_events(F, fn, "fld")):
                continue  # continuation re-entry loops keep frames the target continuation still contains: different rule
            nloops += 1
            df = lib.derivation_fields(F, fn)
            dest = re.match(r"_\d+", fn.blocks[p].get("dest") or "")
            base_fields = set(df.get(dest.group(0), set())) if dest else set()  # how the frame stack itself is reached
            closes = set(fn.call_blocks(CLOSE))
            # BFS from the pop, not crossing closes, not taking the 'absent' edge of pure mark tests
            seen = set()
            stack = list(fn.succ(p))
            hit = False
            while stack:
                b = stack.pop()
                if b in seen or b in closes:
                    continue
                if b == p:
                    hit = True
                    break
                seen.add(b)
                blk = fn.blocks[b]
                succ = fn.succ(b)
                if blk["k"] == "switch":
                    pl = blk.get("place", "")
                    loc = re.match(r"_\d+", pl.strip("(*)"))
                    fl = set(re.findall(r"\.([A-Za-z_][A-Za-z0-9_]*)", pl))
                    if loc:
                        fl |= df.get(loc.group(0), set())
                    fl -= {"0", "1"}
                    fl -= base_fields
                    if fl and fl <= MARK_FIELDS:
                        if blk["on"] == "enum:Option":
                            m = lib.arm_map(fn, b)
                            none_t = m.get("None", m["_"])
                            succ = [s_ for s_ in succ if s_ != none_t]
                        elif blk["on"] == "bool":
                            zero = [t for v, t in blk["targets"] if v == "0"]
                            succ = [s_ for s_ in succ if s_ not in zero]
                stack.extend(succ)
            R.inst("C08.d", "%s / a frame with a mark is not skipped" % fn.short(), not hit,
                   "%s can go from popping one frame to popping the next without calling close_continuation_marks and "
                   "without having found the frame's continuation mark absent (the close is conditional on something "
                   "else, e.g. on the frame having a handler): a continuation captured in a frame that is unwound stays "
                   "open" % fn.short(), fn.loc(fn.blocks[p]["line"]), sample=True)
    R.floor("C08.d", "error-unwind loops", nloops, 2)

    reinstate_rule(F, R)
    bulk_discard_rule(F, R)
    pop_count_rule(F, R)
    pop_count_guard_rule(F, R)
    nested_restore_rule(F, R)
    wind_rules(F, R)

    # close_marks itself must upgrade the weak mark and close it
    cm = F.one(r"^steel::steel_vm::vm::\{impl Continuation\}::close_marks$")
    reads = any(e[1] == "StackFrameAttachments" and e[2] == "weak_continuation_mark" for _, e in lib.deep_events(F, cm, "fld"))
    R.inst("C08.a", "Continuation::close_marks reads the frame's mark and closes it",
           reads and any(re.search(r"\{impl ContinuationMark\}::close$", b["callee"]) for _, b in lib.deep_calls(F, cm)) and
           any(re.search(r"::upgrade$", b["callee"]) for _, b in lib.deep_calls(F, cm)),
           "Continuation::close_marks no longer upgrades the frame's weak mark and closes it", cm.loc(), sample=True)
    ccm = F.one(r"^steel::steel_vm::vm::\{impl VmCore\}::close_continuation_marks$")
    cl = ccm.call_blocks(r"\{impl Continuation\}::close_marks$", wrappers=True)
    R.inst("C08.a", "VmCore::close_continuation_marks delegates to Continuation::close_marks",
           bool(cl),
           "VmCore::close_continuation_marks is a no-op", ccm.loc(), sample=True)
    # … on every path: the only thing that may skip a close is the absence of a mark (decided inside close_marks, C08.d);
    # no state of the VM (nesting depth, mode flags) may veto it
    skip = [r for r in ccm.returns() if r in ccm.reachable_from([0], avoid=set(cl))] if cl else []
    R.inst("C08.a", "VmCore::close_continuation_marks closes on every path", bool(cl) and not skip,
           "VmCore::close_continuation_marks can return without calling Continuation::close_marks (a condition on the VM's "
           "state — nesting depth, a mode flag — vetoes the close): a frame that goes out of scope in that state keeps an "
           "open mark, and a continuation captured there panics the host when it is re-entered after the frame is gone "
           "(\"Failed to find an open continuation on the stack\")", ccm.loc(), sample=True)

    # ---- b
    mt = F.one(r"^steel::steel_vm::vm::\{impl VmCore\}::make_thread$")
    closes = mt.call_blocks(CLOSE)
    rd = set((e[1], e[2]) for _, _, e in mt.events("fld"))
    in_loop = any(c in mt.reachable_from(mt.succ(c)) for c in closes)
    R.inst("C08.b", "make_thread / closes every frame (loop) and current_frame",
           len(closes) >= 2 and in_loop and ("SteelThread", "stack_frames") in rd and ("SteelThread", "current_frame") in rd,
           "VmCore::make_thread no longer closes the continuation marks of all frames and of current_frame before the "
           "cloned thread escapes: a continuation captured before the fork is shared open between two threads",
           mt.loc(), sample={"close_calls": len(closes), "one_in_loop": in_loop})
    sn = F.one(r"^steel::steel_vm::vm::threads::spawn_native_thread$")
    cl = [b["targs"][0] for _, b in sn.calls() if re.search(r"Vec<T,A>\}::clear$", b["callee"]) and b["targs"]]
    R.inst("C08.b", "spawn_native_thread / clone starts with empty stack and frames", "StackFrame" in cl and "SteelVal" in cl,
           "spawn_native_thread no longer clears the cloned thread's operand stack and frame stack (cleared: %s)" % cl,
           sn.loc(), sample=True)

    # ---- c
    for pat in (r"\{impl SteelThread\}::execute$", r"\{impl VmCore\}::call_with_instructions_and_reset_state$"):
        fn = F.one(r"^steel::steel_vm::vm::" + pat)
        pops = frame_pops(fn)
        if not pops:
            raise CheckError("anchor lost: %s no longer pops frames" % fn.name)
        takes = [i for i, e in lib.family_events(F, fn, "fld")
                 if e[1] == "StackFrameAttachments" and e[2] == "handler" and e[3][0] in "mw"]
        R.inst("C08.c", "%s / handler taken out of the frame" % fn.short(), bool(takes),
               "%s no longer takes the handler out of the unwound frame's attachments" % fn.short(), fn.loc(), sample=True)
        pushes = [i for i, b in fn.calls() if re.search(r"Vec<T,A>\}::push$", b["callee"]) and b["targs"] and b["targs"][0] == "SteelVal"]
        truncs = [i for i, b in fn.calls() if re.search(r"Vec<T,A>\}::truncate$", b["callee"]) and b["targs"] and b["targs"][0] == "SteelVal"]
        dom = fn.dominators()
        okp = [p for p in pushes if any(t in dom[p] for t in truncs)]
        # the error value push is the one following into_steelval
        errp = []
        for p in pushes:
            preds_calls = [i for i, b in fn.calls() if re.search(r"into_steelval$", b["callee"]) and i in dom[p]]
            if preds_calls:
                errp.append(p)
        R.inst("C08.c", "%s / stack truncated to the frame before the error is pushed" % fn.short(),
               bool(errp) and all(p in okp for p in errp),
               "%s pushes the error value for the handler without first truncating the operand stack to the unwound "
               "frame's stack pointer" % fn.short(), fn.loc(), sample={"error_pushes": len(errp), "truncates": len(truncs)})


def reinstate_rule(F, R):
    R.rule("C08.e", "Continuation::set_state_from_continuation, on finding the frame that carries the invoked open mark "
                    "(ptr_eq), drops that frame; it may leave the mark open only when nobody else holds the continuation: "
                    "every branch that decides between closing the mark (close_marks) and reinstating from the open mark "
                    "tests only Arc::strong_count of the continuation (or the result of close_marks itself)")
    fn = F.one(r"^steel::steel_vm::vm::\{impl Continuation\}::set_state_from_continuation$")
    pe = fn.call_blocks(r"::ptr_eq$")
    if len(pe) != 1:
        raise CheckError("anchor lost: set_state_from_continuation no longer identifies the frame by one ptr_eq (%d)" % len(pe))
    t, f = lib.bool_branch(fn, pe[0])
    if t is None:
        raise CheckError("anchor lost: ptr_eq result is not branched on in set_state_from_continuation")
    region = fn.reachable_from([t], avoid=[f] if f is not None else [])
    closes = [c for c in fn.call_blocks(CLOSE) if c in region]
    R.inst("C08.e", "set_state_from_continuation / matched frame: a close of the mark exists", bool(closes),
           "Continuation::set_state_from_continuation drops the frame that carries the invoked continuation's open mark and "
           "never closes the mark: any other holder of that continuation is left with an open mark whose frame is gone "
           "(host panic 'Failed to find an open continuation on the stack' on the next invocation)", fn.loc(), sample=True)
    if not closes:
        return
    sc = fn.call_blocks(r"::strong_count$")
    if not sc:
        R.inst("C08.e", "set_state_from_continuation / close decided by strong_count", False,
               "set_state_from_continuation no longer consults Arc::strong_count of the continuation", fn.loc())
        return
    seeds = []
    for c in sc + closes:
        d = re.match(r"_\d+", fn.blocks[c].get("dest") or "")
        if d:
            seeds.append(d.group(0))
    ok_taint = lib.tainted_locals(fn, seeds)
    # decision points: switches after the match from which a close is reachable on one side but can be by-passed
    ret_wo_close = fn.reachable_from([t], avoid=closes)
    bad = []
    ndec = 0
    for b in sorted(region):
        blk = fn.blocks[b]
        if blk["k"] != "switch" or b not in ret_wo_close:
            continue
        succ = fn.succ(b)
        reach_close = [s_ for s_ in succ if any(c in fn.reachable_from([s_]) for c in closes)]
        if not reach_close or len(reach_close) == len(succ) and all(
                not (set(fn.returns()) & fn.reachable_from([s_], avoid=closes)) for s_ in succ):
            continue
        ndec += 1
        loc = re.match(r"_\d+", blk.get("place", "").strip("(*)"))
        if not loc or loc.group(0) not in ok_taint:
            bad.append((b, blk.get("place")))
    R.inst("C08.e", "set_state_from_continuation / close decided by strong_count only", ndec >= 1 and not bad,
           "Continuation::set_state_from_continuation skips closing the invoked continuation's mark depending on something "
           "other than its strong count (switch on %s): the frame carrying the mark is dropped, so whenever that other "
           "condition is false while the continuation is still held elsewhere (e.g. a second continuation captured inside "
           "the first one's extent keeps a copy of the frame, raising the weak count), the holder keeps an open mark with "
           "no frame and the next invocation panics 'Failed to find an open continuation on the stack'" % (
               ", ".join("%s" % p for _, p in bad) or "nothing"), fn.loc(), sample={"decision_switches": ndec})


PARAMS_SCM = "crates/steel-core/src/scheme/modules/parameters.scm"


def _idx(order, pred):
    return [i for i, c in enumerate(order) if pred(c)]


def wind_rules(F, R):
    """dynamic-wind / do-wind / the call/cc wrapper are Scheme library code (parameters.scm, compiled into the binary).
    Structural rules over their syntax tree: the order of effects inside each body."""
    R.rule("C08.w", "parameters.scm, dynamic-wind protocol (syntax-tree rule over the Scheme library source): (1) dynamic-wind "
                    "calls `in`, then pushes (in . out) on the winders list, and on both the normal and the error exit pops "
                    "the winders list before calling `out` (once per path); (2) do-wind leaves extents innermost-first — per "
                    "element: publish the shortened winders list, call the element's after-thunk (cdr), then continue — and "
                    "enters extents outermost-first — per element: recurse on the rest first, call the before-thunk (car), "
                    "then publish the list up to this element; the accessors agree with the (in . out) layout; (3) the "
                    "call/cc wrapper reads the winders list at capture time and, when invoked, calls do-wind with it "
                    "before resuming the raw continuation")
    forms = sexp.load(factsmod.REPO, PARAMS_SCM)
    defs = sexp.definitions(forms)
    for need in ("dynamic-wind", "do-wind", "call/cc", "winders"):
        if need not in defs:
            raise CheckError("anchor lost: %s not defined in %s" % (need, PARAMS_SCM))
    where = lambda x: "%s:%s" % (PARAMS_SCM, getattr(x, "line", 0))

    def is_setw(c):
        return sexp.is_form(c, "set-tls!") and len(c) == 3 and c[1] == "winders"

    def is_getw(c):
        return sexp.is_form(c, "get-tls") and len(c) == 2 and c[1] == "winders"

    # ---- (1) dynamic-wind
    dw = defs["dynamic-wind"]
    body = sexp.lambda_body(dw)
    if body is None or not isinstance(dw[1], list) or len(dw[1]) != 3:
        raise CheckError("anchor lost: dynamic-wind is not (lambda (in body out) ...)")
    p_in, p_body, p_out = [str(x) for x in dw[1]]
    order = sexp.seq_order(body)
    call_in = _idx(order, lambda c: len(c) == 1 and c[0] == p_in)
    call_out = _idx(order, lambda c: len(c) == 1 and c[0] == p_out)
    push = _idx(order, lambda c: is_setw(c) and sexp.is_form(c[2], "cons"))
    pop = _idx(order, lambda c: is_setw(c) and sexp.is_form(c[2], "cdr") and is_getw(c[2][1]))
    protected = [c for c in order if any(sexp.lambda_body(a) is not None and
                                          any(len(x) == 1 and x[0] == p_body for x in sexp.walk(a)) for a in c[1:]
                                          if isinstance(a, list))]
    ok = bool(call_in) and bool(push) and call_in[0] < push[0]
    R.inst("C08.w", "dynamic-wind / `in` runs before the extent is pushed", ok,
           "dynamic-wind no longer calls its before-thunk and then pushes the extent on the winders list (in that order): "
           "an escape from inside `in` would run `out` for an extent that was never entered", where(dw), sample=True)
    lay = False
    if push:
        v = order[push[0]][2]
        lay = (len(v) == 3 and sexp.is_form(v[1], "cons") and len(v[1]) == 3 and v[1][1] == p_in and v[1][2] == p_out
               and is_getw(v[2]))
    R.inst("C08.w", "dynamic-wind / pushes (in . out) on top of the current winders", lay,
           "dynamic-wind does not push (cons in out) onto (get-tls winders): do-wind takes the before-thunk from the car "
           "and the after-thunk from the cdr of each entry, so re-entry would run the wrong thunk", where(dw), sample=True)
    ok = bool(protected) and bool(pop) and bool(call_out) and len(call_out) == 1 and len(pop) == 1 and \
        order.index(protected[0]) < pop[0] < call_out[0]
    R.inst("C08.w", "dynamic-wind / normal exit: body, then pop, then `out` once", ok,
           "dynamic-wind's normal exit no longer runs the body under the handler, pops the winders list and then calls "
           "`out` exactly once: `out` would run with the extent still registered (an escape from inside `out` runs it "
           "again) or not at all", where(dw), sample={"pops": len(pop), "out_calls": len(call_out)})
    hok = False
    for c in protected:
        for a in c[1:]:
            lb = sexp.lambda_body(a) if isinstance(a, list) else None
            if lb is None or any(len(x) == 1 and x[0] == p_body for x in sexp.walk(a)):
                continue
            ho = sexp.seq_order(lb)
            hpop = _idx(ho, lambda c_: is_setw(c_) and sexp.is_form(c_[2], "cdr"))
            hout = _idx(ho, lambda c_: len(c_) == 1 and c_[0] == p_out)
            hraise = _idx(ho, lambda c_: isinstance(c_[0], str) and c_[0].startswith("raise"))
            hok = bool(hpop) and len(hout) == 1 and bool(hraise) and hpop[0] < hout[0] < hraise[0]
    R.inst("C08.w", "dynamic-wind / error exit: pop, then `out` once, then re-raise", hok,
           "dynamic-wind's exception handler no longer pops the winders list, calls `out` once and re-raises (in that "
           "order): an error crossing the extent skips the after-thunk or leaves the extent registered", where(dw), sample=True)

    # ---- (2) do-wind
    do = defs["do-wind"]
    dbody = sexp.lambda_body(do)
    if dbody is None or len(do[1]) != 1:
        raise CheckError("anchor lost: do-wind is not (lambda (new) ...)")
    p_new = str(do[1][0])
    loops = list(sexp.named_lets(do))
    kinds = {}
    for name, binds, lbody, form in loops:
        if len(binds) != 1 or not isinstance(binds[0], list):
            continue
        var = str(binds[0][0])
        init = binds[0][1]
        lo = sexp.seq_order(lbody)
        rec = _idx(lo, lambda c: c[0] == name and len(c) == 2 and sexp.is_form(c[1], "cdr") and c[1][1] == var)
        thunk = lambda acc: _idx(lo, lambda c: len(c) == 1 and sexp.is_form(c[0], acc) and sexp.is_form(c[0][1], "car")
                                 and c[0][1][1] == var)
        before, after = thunk("car"), thunk("cdr")
        setw = _idx(lo, is_setw)
        kinds.setdefault("after" if after else "before" if before else "?", []).append(
            dict(name=name, var=var, init=init, order=lo, rec=rec, before=before, after=after, setw=setw, form=form))
    a = kinds.get("after", [])
    b = kinds.get("before", [])
    if len(a) != 1 or len(b) != 1:
        R.inst("C08.w", "do-wind / one unwinding loop and one rewinding loop", False,
               "do-wind no longer consists of one loop calling the after-thunks ((cdr (car ls))) and one loop calling the "
               "before-thunks ((car (car ls))) of winders entries (found %d / %d): leaving or re-entering nested "
               "dynamic-wind extents through a continuation does not run each thunk once" % (len(a), len(b)), where(do))
        return
    a, b = a[0], b[0]
    R.inst("C08.w", "do-wind / one unwinding loop and one rewinding loop", True, sample=True)
    ok = bool(a["setw"]) and bool(a["rec"]) and a["setw"][0] < a["after"][0] < a["rec"][0] and len(a["after"]) == 1 and \
        sexp.is_form(a["order"][a["setw"][0]][2], "cdr") and a["order"][a["setw"][0]][2][1] == a["var"] and is_getw(a["init"])
    R.inst("C08.w", "do-wind / unwinding: shorten winders, run after-thunk, then go outward; starts at the current winders", ok,
           "do-wind's unwinding loop does not, per extent, first publish the winders list without it, then call its "
           "after-thunk once, then continue with the enclosing extents, starting from (get-tls winders): after-thunks "
           "run in the wrong order, twice, or see a winders list that still contains their own extent",
           where(a["form"]), sample=True)
    ok = bool(b["setw"]) and bool(b["rec"]) and b["rec"][0] < b["before"][0] < b["setw"][0] and len(b["before"]) == 1 and \
        b["order"][b["setw"][0]][2] == b["var"] and b["init"] == p_new
    R.inst("C08.w", "do-wind / rewinding: outermost first, run before-thunk, then publish the list up to it; starts at the target", ok,
           "do-wind's rewinding loop does not, per extent, first re-enter the enclosing extents, then call its "
           "before-thunk once, then publish the winders list ending at it, starting from the target list: on re-entry "
           "of nested dynamic-winds the before-thunks run innermost-first, or a thunk that escapes sees a winders list "
           "that does not match the extents actually entered", where(b["form"]), sample=True)
    do_order = [f for f in sexp.walk(do) if f is a["form"] or f is b["form"]]
    R.inst("C08.w", "do-wind / unwinds before it rewinds", do_order and do_order[0] is a["form"],
           "do-wind runs the before-thunks of the target before the after-thunks of the extents being left", where(do))
    tails = [bd for f in sexp.walk(do) if sexp.is_form(f, "let") and isinstance(f[1], list) for bd in f[1]
             if isinstance(bd, list) and len(bd) == 2 and sexp.is_form(bd[1], "common-tail")]
    ok = bool(tails) and set(map(sexp.show, tails[0][1][1:])) == {p_new, "(get-tls winders)"}
    R.inst("C08.w", "do-wind / stops at the common tail of target and current winders", ok,
           "do-wind no longer computes the common tail of the target list and the current winders list: thunks of "
           "extents shared by both are run although control never leaves them", where(do), sample=True)

    # ---- (2b) the winders lists are compared by structure: steel lists have no identity that survives cons / cdr
    ident_cmp = []
    for owner, d_ in (("common-tail", defs.get("common-tail")), ("do-wind", do)):
        if d_ is None:
            continue
        for f in sexp.walk(d_):
            if (sexp.is_form(f, "eq?") or sexp.is_form(f, "eqv?")) and len(f) == 3:
                ident_cmp.append((owner, f))
    struct_cmp = [f for d_ in (defs.get("common-tail"), do) if d_ is not None for f in sexp.walk(d_) if sexp.is_form(f, "equal?")]
    R.inst("C08.w", "common-tail / do-wind compare winders lists with equal?, never by identity",
           not ident_cmp and len(struct_cmp) >= 3,
           "%s compares winders lists by identity (%s): a steel list has no identity that survives cons / cdr, so two lists "
           "that share a tail are never eq? — common-tail always answers '() and do-wind leaves and re-enters every active "
           "extent, running after / before thunks of extents control never left" % (
               ident_cmp[0][0] if ident_cmp else "the wind machinery", sexp.show(ident_cmp[0][1]) if ident_cmp else "no equal? left"),
           where(ident_cmp[0][1]) if ident_cmp else where(do), sample=True)

    # ---- (3) call/cc wrapper
    cc = defs["call/cc"]
    found = False
    good = False
    for f in sexp.walk(cc):
        if sexp.is_form(f, "let") and isinstance(f[1], list):
            saves = [str(bd[0]) for bd in f[1] if isinstance(bd, list) and len(bd) == 2 and is_getw(bd[1])]
            for sv in saves:
                for lam in sexp.walk(f):
                    lb = sexp.lambda_body(lam)
                    if lb is None or not isinstance(lam[1], list) or len(lam[1]) != 1:
                        continue
                    lo = sexp.seq_order(lb)
                    dwc = _idx(lo, lambda c: c[0] == "do-wind" and len(c) == 2 and c[1] == sv)
                    res = _idx(lo, lambda c: len(c) == 2 and c[1] == lam[1][0] and c[0] != "do-wind" and isinstance(c[0], str))
                    if dwc:
                        found = True
                        good = bool(res) and dwc[0] < res[-1]
    R.inst("C08.w", "call/cc wrapper / winders captured at capture time, do-wind before resuming", found and good,
           "the call/cc wrapper no longer saves (get-tls winders) when the continuation is captured and calls (do-wind save) "
           "before invoking the raw continuation: escaping from or re-entering a dynamic-wind extent through a "
           "continuation runs no thunks", where(cc), sample=True)
    R.floor("C08.w", "dynamic-wind protocol instances", 10, 10)


BULK = r"Vec<T,A>\}::(clear|truncate|drain|retain|retain_mut|split_off|set_len|dedup_by|resize|resize_with)$"
BULK_ALLOW = {
    "vm::threads::spawn_native_thread": "clears the frame stack of the *clone* made by VmCore::make_thread, which closed "
                                        "every mark first (C08.b); the spawning thread keeps its frames",
}


def bulk_discard_rule(F, R):
    R.rule("C08.f", "frames leave SteelThread.stack_frames only one at a time through a pop (covered by C08.a), or in bulk "
                    "(clear / truncate / drain / retain / overwrite of the field) after a loop that pops or closes the marks of "
                    "every frame: each bulk discard is cut off from the function entry by a frame-pop or close-marks call that "
                    "lies on a loop")
    n = 0
    for name, fn in sorted(F.fns.items()):
        if not name.startswith("steel::steel_vm::"):
            continue
        sites = [(i, lib.split_path(b["callee"])[-1]) for i, b in fn.calls()
                 if re.search(BULK, b["callee"]) and b["targs"] and b["targs"][0] == "StackFrame"]
        sites += [(i, "assignment") for i, _, e in fn.events("fld")
                  if e[1] == "SteelThread" and e[2] == "stack_frames" and e[3][0] == "w"]
        if not sites:
            continue
        loops = [c for c in (fn.call_blocks(CLOSE) + frame_pops(fn)) if c in fn.reachable_from(fn.succ(c))]
        for i, what in sites:
            n += 1
            if fn.short() in BULK_ALLOW:
                R.inst("C08.f", "%s / %s of the frame stack (allowlisted)" % (fn.short(), what), True,
                       sample={"reason": BULK_ALLOW[fn.short()]}, nontrivial=False)
                continue
            ok = False
            if loops:
                ok, _ = fn.every_path_passes_from([0], [i], loops)
            R.inst("C08.f", "%s / %s of the frame stack follows a pop/close loop" % (fn.short(), what), ok,
                   "%s discards frames in bulk (%s on SteelThread.stack_frames, line %s) on a path that has not popped them "
                   "one by one or closed their continuation marks: a continuation captured lazily in one of those frames "
                   "stays open with no frame, and invoking it later panics the host ('Failed to find an open continuation "
                   "on the stack')" % (fn.short(), what, fn.blocks[i].get("line", "?")), fn.loc(fn.blocks[i].get("line")),
                   sample=True)
    R.floor("C08.f", "bulk discards of the frame stack", n, 2 if "sync" in (F.meta.get("features") or []) else 1)


def pop_count_rule(F, R):
    R.rule("C08.g", "frames and the frame counter move together: in every function that pops a frame off stack_frames and "
                    "decrements VmCore.pop_count (the number of frames the current dispatch loop still has to return through), "
                    "where a frame is pushed back — the push argument is the value obtained from the pop, as when an error "
                    "handler is run in the frame that installed it — every frame pushed after a pop is followed by an "
                    "increment of pop_count on every path to the return, the next pop or the next push. Otherwise the loop returns one frame early: the handler's value becomes "
                    "the result of the enclosing callback and the pending work after the handler's extent is skipped")
    n = 0
    for name, fn in sorted(F.fns.items()):
        if not name.startswith("steel::steel_vm::"):
            continue
        pops = frame_pops(fn)
        if not pops:
            continue
        decs = [i for i, blk in enumerate(fn.blocks) if not blk.get("c") for e in blk["e"]
                if e[0] == "binop" and e[1].startswith("Sub") and "pop_count" in str(e[5])]
        incs = [i for i, blk in enumerate(fn.blocks) if not blk.get("c") for e in blk["e"]
                if e[0] == "binop" and e[1].startswith("Add") and "pop_count" in str(e[5])]
        if not decs:
            continue
        popd = set()
        for p in pops:
            d = re.match(r"_\d+", fn.blocks[p].get("dest") or "")
            if d:
                popd.add(d.group(0))
        pushes = [(i, b) for i, b in fn.calls() if re.search(r"Vec<T,A>\}::push$", b["callee"]) and b["targs"] and
                  b["targs"][0] == "StackFrame"]
        backs = []
        for i, b in pushes:
            src = set()
            for a in b["args"][1:]:
                for t in lib.TOK.findall(a):
                    for al in lib.alias_sources(fn, t, depth=8):
                        m = re.match(r"^\(?\*?(_\d+)", al)
                        if m:
                            src.add(m.group(1))
            if src & popd:
                backs.append(i)
        if not backs:
            continue
        # every frame pushed after a pop (the push-back, and any other frame pushed on the way) is counted before the next
        # push, the next pop or the return
        after_pop = set()
        for p in pops:
            after_pop |= fn.reachable_from(fn.succ(p))
        order = sorted(j for j, _ in pushes)
        for i, b in pushes:
            if i not in after_pop:
                continue
            # a frame that is put back before it was counted down (the push is reachable from a pop without passing any
            # decrement) was never taken out of the count
            if all(i not in fn.reachable_from(fn.succ(d), avoid=pops) for d in decs):
                continue
            n += 1
            others = [j for j in order if j != i]
            ok = bool(incs) and fn.every_path_passes_from(fn.succ(i), list(fn.returns()) + pops + others, incs)[0]
            R.inst("C08.g", "%s / frame push #%d after a pop is counted" % (fn.short(), order.index(i)), ok,
                   "%s pops a frame (pop_count -= 1), pushes it back to run the handler it carries (line %s) and does not "
                   "increment pop_count again on every path: after the handler returns normally the dispatch loop returns one "
                   "frame too early — inside a callback of a native higher-order procedure the handler's value replaces the "
                   "callback's result and the caller's frame is left on the frame stack" % (fn.short(), b["line"]),
                   fn.loc(b["line"]), sample=True)
    R.floor("C08.g", "frames pushed back after a pop", n, 2)


def pop_count_guard_rule(F, R):
    from . import c07
    R.rule("C08.h", "a loop that pops frames while counting down VmCore.pop_count stops at zero (sibling agreement between the "
                    "frame-popping loops): wherever a frame pop lies on a cycle together with a decrement of pop_count, the "
                    "decrement is dominated, inside the loop, by a test of pop_count (== 0 / != 0 / > 0). pop_count counts the "
                    "frames of the *current* dispatch loop only; a nested run (a callback of a native higher-order procedure) "
                    "shares the frame stack with its callers, so a loop that pops towards a frame of an outer run without the "
                    "test drives the counter below zero (arithmetic-overflow panic in debug builds, a wrapped counter otherwise)")
    n = 0
    for name, fn in sorted(F.fns.items()):
        if not name.startswith("steel::steel_vm::"):
            continue
        pops = [p for p in frame_pops(fn) if p in fn.reachable_from(fn.succ(p))]
        if not pops:
            continue
        decs = [i for i, blk in enumerate(fn.blocks) if not blk.get("c") for e in blk["e"]
                if e[0] == "binop" and e[1].startswith("Sub") and "pop_count" in str(e[5])]
        maps = None
        for d in decs:
            loop = [p for p in pops if d in fn.reachable_from(fn.succ(p)) and p in fn.reachable_from(fn.succ(d))]
            if not loop:
                continue
            n += 1
            if maps is None:
                maps = c07._backward(fn)
            dom = fn.dominators()
            ok = False
            for sb in dom[d]:
                if not any(sb in fn.reachable_from(fn.succ(p)) for p in loop):
                    continue  # before the loop
                blk = fn.blocks[sb]
                if blk["k"] != "switch":
                    continue
                loc = re.match(r"_\d+", blk.get("place", "").strip("()*"))
                if not loc:
                    continue
                org = c07._origins(fn, loc.group(0), maps) | {loc.group(0)}
                if any(e[0] == "mv" and e[1] in org and "pop_count" in e[2] for bb in fn.blocks for e in bb["e"]):
                    ok = True
            R.inst("C08.h", "%s / pop_count is tested before it is counted down in the frame-popping loop" % fn.short(), ok,
                   "%s pops frames in a loop and decrements pop_count for each without testing it: when the target frame "
                   "belongs to an outer dispatch loop — a continuation captured outside a transducer / stream / sort callback "
                   "and invoked from inside it — the counter underflows" % fn.short(), fn.loc(fn.blocks[d].get("line")),
                   sample=True)
    R.floor("C08.h", "frame-popping loops that count pop_count down", n, 3)


def nested_restore_rule(F, R):
    R.rule("C08.i", "a nested run always gives its caller's control state back: in "
                    "VmCore::call_with_instructions_and_reset_state every path from the nested dispatch (the call of vm()) to "
                    "a return passes through the stores that restore VmCore.pop_count, VmCore.ip and VmCore.instructions "
                    "(saved on entry) — on the error paths as well: an error that leaves the run with the nested pop_count "
                    "still in place makes the caller's unwind loop stop before it has looked at the caller's handlers, and a "
                    "frame popped on the way out belongs to the caller")
    fn = F.one(r"^steel::steel_vm::vm::\{impl VmCore\}::call_with_instructions_and_reset_state$")
    vms = fn.call_blocks(r"\{impl VmCore\}::vm$")
    if not vms:
        raise CheckError("anchor lost: call_with_instructions_and_reset_state no longer runs vm()")
    for field in ("pop_count", "ip", "instructions"):
        stores = []
        for i, blk in enumerate(fn.blocks):
            if blk.get("c"):
                continue
            for e in blk["e"]:
                if e[0] == "st" and re.search(r"\(\*_1\)\.%s$" % field, e[1]):
                    stores.append(i)
                if e[0] == "fld" and e[1] == "VmCore" and e[2] == field and e[3][0] == "w":
                    stores.append(i)
        # restoring stores: those not on a cycle with vm() (the loop body also writes ip / instructions while unwinding)
        restoring = [s_ for s_ in stores if not any(v in fn.reachable_from(fn.succ(s_)) for v in vms)]
        ok = bool(restoring) and fn.every_path_passes_from([x for v in vms for x in fn.succ(v)], fn.returns(), restoring)[0]
        R.inst("C08.i", "call_with_instructions_and_reset_state / every exit after vm() restores VmCore.%s" % field, ok,
               "VmCore::call_with_instructions_and_reset_state can return after the nested vm() run without restoring "
               "VmCore.%s: an error raised in a callback of a native higher-order procedure leaves the caller with the "
               "nested run's state, and the enclosing handler is never reached" % field, fn.loc(), sample=True)
