"""C08 — continuations, dynamic-wind, handlers (DESIGN §4 C08).

dynamic-wind / with-handler / reset-shift are Scheme library code and are not analysed.  Decided, Rust side:
  a  frame pop => continuation marks closed while the mark is still attached (typestate),
  b  forking a thread closes every open mark / a spawned thread starts with empty stacks,
  c  handler unwinding shape: operand stack truncated to the frame before the error value is pushed; a handler is
     taken out of its frame (runs at most once per frame).
"""
import re

from . import lib
from .lib import CheckError

POP = r"alloc::vec::\{impl Vec<T,A>\}::pop$"
CLOSE = r"(\{impl VmCore\}::close_continuation_marks|\{impl Continuation\}::close_marks)$"


def frame_pops(fn):
    return [i for i, b in fn.calls() if re.search(POP, b["callee"]) and b["targs"] and b["targs"][0] == "StackFrame"]


def run(F, R, ctx):
    R.rule("C08.a", "every function that pops a StackFrame off SteelThread.stack_frames closes its continuation marks "
                    "(close_continuation_marks / Continuation::close_marks reachable after the pop), and no mutable access "
                    "that can empty StackFrameAttachments.weak_continuation_mark lies on a path between the pop and the close")
    R.rule("C08.b", "VmCore::make_thread closes the marks of every frame and of current_frame; spawn_native_thread clears "
                    "the cloned thread's stack and stack_frames")
    R.rule("C08.c", "both error-unwind loops: the handler is taken out of the frame's attachments, and the operand stack is "
                    "truncated before the error value is pushed")
    poppers = []
    for n, fn in F.fns.items():
        if n.startswith("steel::steel_vm::") and frame_pops(fn):
            poppers.append(fn)
    R.floor("C08.a", "functions popping stack frames", len(poppers), 6)
    for fn in sorted(poppers, key=lambda f: f.name):
        pops = frame_pops(fn)
        closes = fn.call_blocks(CLOSE)
        after = set()
        for p in pops:
            after |= fn.reachable_from(fn.succ(p))
        closes_after = [c for c in closes if c in after]
        R.inst("C08.a", "%s / pop is followed by close" % fn.short(), bool(closes_after),
               "%s pops a frame off the frame stack but never closes its continuation marks: a continuation captured "
               "lazily in that frame stays open and re-entering it later finds no frame (host panic 'Failed to find an "
               "open continuation on the stack')" % fn.short(), fn.loc(), sample=True)
        # mark emptied between pop and close
        muts = [i for i, e in lib.family_events(F, fn, "fld")
                if e[1] == "StackFrameAttachments" and e[2] == "weak_continuation_mark" and e[3][0] in "mw"]
        bad = None
        for m in muts:
            if m in after:
                r = fn.reachable_from([m])
                if any(c in r for c in closes_after):
                    bad = m
        R.inst("C08.a", "%s / mark still attached when closing" % fn.short(), bad is None,
               "%s takes/overwrites StackFrameAttachments.weak_continuation_mark of the popped frame on a path that then "
               "calls close_continuation_marks: the close finds no mark and is a no-op" % fn.short(),
               fn.loc(), sample={"mutable_mark_accesses": len(muts)})
    # frames dropped in a loop: a frame may be skipped without closing only on the no-mark side of a test of its mark
    R.rule("C08.d", "in the error-unwind loops (the frame-dropping loops that look for handlers), every path from "
                    "popping a frame to popping the next one passes through close_continuation_marks, unless it leaves "
                    "through the 'absent' side of a test of that frame's attachments / weak_continuation_mark only (a test "
                    "of anything else, e.g. the handler, does not excuse skipping the close)")
    MARK_FIELDS = {"attachments", "weak_continuation_mark"}
    nloops = 0
    for fn in sorted(poppers, key=lambda f: f.name):
        for p in frame_pops(fn):
            if p not in fn.reachable_from(fn.succ(p)):
                continue  # not in a loop
            if not any(e[1] == "StackFrameAttachments" and e[2] == "handler" for _, e in lib.family_events(F, fn, "fld")):
                continue  # continuation re-entry loops keep frames the target continuation still contains: different rule
            nloops += 1
            df = lib.derivation_fields(F, fn)
            dest = re.match(r"_\d+", fn.blocks[p].get("dest") or "")
            base_fields = set(df.get(dest.group(0), set())) if dest else set()  # how the frame stack itself is reached
            closes = set(fn.call_blocks(CLOSE))
            # BFS from the pop, not crossing closes, not taking the 'absent' edge of pure mark tests
            seen = set()
            stack = list(fn.succ(p))
            hit = False
            while stack:
                b = stack.pop()
                if b in seen or b in closes:
                    continue
                if b == p:
                    hit = True
                    break
                seen.add(b)
                blk = fn.blocks[b]
                succ = fn.succ(b)
                if blk["k"] == "switch":
                    pl = blk.get("place", "")
                    loc = re.match(r"_\d+", pl.strip("(*)"))
                    fl = set(re.findall(r"\.([A-Za-z_][A-Za-z0-9_]*)", pl))
                    if loc:
                        fl |= df.get(loc.group(0), set())
                    fl -= {"0", "1"}
                    fl -= base_fields
                    if fl and fl <= MARK_FIELDS:
                        if blk["on"] == "enum:Option":
                            m = lib.arm_map(fn, b)
                            none_t = m.get("None", m["_"])
                            succ = [s_ for s_ in succ if s_ != none_t]
                        elif blk["on"] == "bool":
                            zero = [t for v, t in blk["targets"] if v == "0"]
                            succ = [s_ for s_ in succ if s_ not in zero]
                stack.extend(succ)
            R.inst("C08.d", "%s / a frame with a mark is not skipped" % fn.short(), not hit,
                   "%s can go from popping one frame to popping the next without calling close_continuation_marks and "
                   "without having found the frame's continuation mark absent (the close is conditional on something "
                   "else, e.g. on the frame having a handler): a continuation captured in a frame that is unwound stays "
                   "open" % fn.short(), fn.loc(fn.blocks[p]["line"]), sample=True)
    R.floor("C08.d", "error-unwind loops", nloops, 2)

    # close_marks itself must upgrade the weak mark and close it
    cm = F.one(r"^steel::steel_vm::vm::\{impl Continuation\}::close_marks$")
    reads = any(e[1] == "StackFrameAttachments" and e[2] == "weak_continuation_mark" for _, e in lib.family_events(F, cm, "fld"))
    R.inst("C08.a", "Continuation::close_marks reads the frame's mark and closes it",
           reads and bool(cm.call_blocks(r"\{impl ContinuationMark\}::close$")) and
           any(re.search(r"::upgrade$", b["callee"]) for _, b in lib.family_calls(F, cm)),
           "Continuation::close_marks no longer upgrades the frame's weak mark and closes it", cm.loc(), sample=True)
    ccm = F.one(r"^steel::steel_vm::vm::\{impl VmCore\}::close_continuation_marks$")
    R.inst("C08.a", "VmCore::close_continuation_marks delegates to Continuation::close_marks",
           bool(ccm.call_blocks(r"\{impl Continuation\}::close_marks$")),
           "VmCore::close_continuation_marks is a no-op", ccm.loc(), sample=True)

    # ---- b
    mt = F.one(r"^steel::steel_vm::vm::\{impl VmCore\}::make_thread$")
    closes = mt.call_blocks(CLOSE)
    rd = set((e[1], e[2]) for _, _, e in mt.events("fld"))
    in_loop = any(c in mt.reachable_from(mt.succ(c)) for c in closes)
    R.inst("C08.b", "make_thread / closes every frame (loop) and current_frame",
           len(closes) >= 2 and in_loop and ("SteelThread", "stack_frames") in rd and ("SteelThread", "current_frame") in rd,
           "VmCore::make_thread no longer closes the continuation marks of all frames and of current_frame before the "
           "cloned thread escapes: a continuation captured before the fork is shared open between two threads",
           mt.loc(), sample={"close_calls": len(closes), "one_in_loop": in_loop})
    sn = F.one(r"^steel::steel_vm::vm::threads::spawn_native_thread$")
    cl = [b["targs"][0] for _, b in sn.calls() if re.search(r"Vec<T,A>\}::clear$", b["callee"]) and b["targs"]]
    R.inst("C08.b", "spawn_native_thread / clone starts with empty stack and frames", "StackFrame" in cl and "SteelVal" in cl,
           "spawn_native_thread no longer clears the cloned thread's operand stack and frame stack (cleared: %s)" % cl,
           sn.loc(), sample=True)

    # ---- c
    for pat in (r"\{impl SteelThread\}::execute$", r"\{impl VmCore\}::call_with_instructions_and_reset_state$"):
        fn = F.one(r"^steel::steel_vm::vm::" + pat)
        pops = frame_pops(fn)
        if not pops:
            raise CheckError("anchor lost: %s no longer pops frames" % fn.name)
        takes = [i for i, e in lib.family_events(F, fn, "fld")
                 if e[1] == "StackFrameAttachments" and e[2] == "handler" and e[3][0] in "mw"]
        R.inst("C08.c", "%s / handler taken out of the frame" % fn.short(), bool(takes),
               "%s no longer takes the handler out of the unwound frame's attachments" % fn.short(), fn.loc(), sample=True)
        pushes = [i for i, b in fn.calls() if re.search(r"Vec<T,A>\}::push$", b["callee"]) and b["targs"] and b["targs"][0] == "SteelVal"]
        truncs = [i for i, b in fn.calls() if re.search(r"Vec<T,A>\}::truncate$", b["callee"]) and b["targs"] and b["targs"][0] == "SteelVal"]
        dom = fn.dominators()
        okp = [p for p in pushes if any(t in dom[p] for t in truncs)]
        # the error value push is the one following into_steelval
        errp = []
        for p in pushes:
            preds_calls = [i for i, b in fn.calls() if re.search(r"into_steelval$", b["callee"]) and i in dom[p]]
            if preds_calls:
                errp.append(p)
        R.inst("C08.c", "%s / stack truncated to the frame before the error is pushed" % fn.short(),
               bool(errp) and all(p in okp for p in errp),
               "%s pushes the error value for the handler without first truncating the operand stack to the unwound "
               "frame's stack pointer" % fn.short(), fn.loc(), sample={"error_pushes": len(errp), "truncates": len(truncs)})
