"""Produce (or reuse) the fact files for /repo's *current working tree*.

Facts are a pure function of the analysed sources, the driver binary and the feature configuration, so
they are cached under /verif/.work/facts/<config>/<hash> keyed by a content hash of exactly those inputs.
Any edit to /repo changes the hash and forces the driver to run again.  The cargo target directory is kept
(dependencies are not workspace members and are never passed through the wrapper) but the fingerprints of
the workspace members are deleted before every driver run so that cargo cannot replay a stale result, and
the run is accepted only if every expected fact file was freshly written.
"""
import fcntl
import hashlib
import json
import os
import re
import shutil
import subprocess
import sys
import time

VERIF = os.path.dirname(os.path.dirname(os.path.abspath(__file__)))
REPO = os.environ.get("STEEL_REPO", "/repo")
WORK = os.path.join(VERIF, ".work")
DRIVER = os.path.join(VERIF, "driver", "target", "release", "steel-facts")
EXPECT = ["steel", "steel_rc", "steel_parser", "steel_gen"]

CONFIGS = {
    # what `cargo test --workspace` / the shipped binary builds: features from [workspace.dependencies]
    "ws": None,
    # the non-sync, non-jit configuration (cfg-split code: FreeList, Heap::mark, Env, with_locked_env)
    "min": [],
}


def workspace_features():
    txt = open(os.path.join(REPO, "Cargo.toml")).read()
    m = re.search(r"steel-core\s*=\s*\{[^}]*features\s*=\s*\[([^\]]*)\]", txt, re.S)
    if not m:
        raise RuntimeError("anchor lost: [workspace.dependencies] steel-core features in /repo/Cargo.toml")
    return re.findall(r'"([^"]+)"', m.group(1))


def tree_hash(config):
    h = hashlib.sha256()
    roots = ["crates/steel-core", "crates/steel-rc", "crates/steel-parser", "crates/steel-gen",
             "crates/steel-derive", "crates/quickscope"]
    files = ["Cargo.toml", "Cargo.lock"]
    for r in roots:
        for dp, dn, fn in os.walk(os.path.join(REPO, r)):
            dn[:] = [d for d in dn if d not in ("target", ".git")]
            for f in fn:
                if f.endswith((".rs", ".toml", ".scm", ".lock")):
                    files.append(os.path.relpath(os.path.join(dp, f), REPO))
    for f in sorted(files):
        p = os.path.join(REPO, f)
        try:
            data = open(p, "rb").read()
        except OSError:
            continue
        h.update(f.encode() + b"\0" + hashlib.sha256(data).digest())
    h.update(hashlib.sha256(open(DRIVER, "rb").read()).digest())
    h.update(config.encode())
    return h.hexdigest()[:24], len(files)


def sysroot():
    return subprocess.check_output(["rustc", "+nightly", "--print", "sysroot"], text=True).strip()


def ensure(config="ws", verbose=True):
    """returns (facts_dir, meta) for the current /repo tree"""
    if not os.path.exists(DRIVER):
        raise RuntimeError("driver not built: run ./setup.sh")
    os.makedirs(WORK, exist_ok=True)
    lock = open(os.path.join(WORK, "facts.lock"), "w")
    fcntl.flock(lock, fcntl.LOCK_EX)
    try:
        key, nfiles = tree_hash(config)
        out = os.path.join(WORK, "facts", config, key)
        meta_p = os.path.join(out, "meta.json")
        if os.path.exists(meta_p):
            meta = json.load(open(meta_p))
            meta["cached"] = True
            return out, meta
        # prune older fact sets of this config (disk)
        base = os.path.join(WORK, "facts", config)
        if os.path.isdir(base):
            for d in os.listdir(base):
                shutil.rmtree(os.path.join(base, d), ignore_errors=True)
        tmp = out + ".tmp"
        shutil.rmtree(tmp, ignore_errors=True)
        os.makedirs(tmp)
        target = os.path.join(WORK, "target-" + config)
        fp = os.path.join(target, "debug", ".fingerprint")
        if os.path.isdir(fp):
            for d in os.listdir(fp):
                if d.startswith("steel"):
                    shutil.rmtree(os.path.join(fp, d), ignore_errors=True)
        feats = workspace_features() if CONFIGS[config] is None else CONFIGS[config]
        env = dict(os.environ)
        env.update({
            "LD_LIBRARY_PATH": os.path.join(sysroot(), "lib"),
            "RUSTFLAGS": "-Zmir-opt-level=0 -Awarnings",
            "RUSTC_WORKSPACE_WRAPPER": DRIVER,
            "STEEL_FACTS_DIR": tmp,
            "STEEL_FACTS_CRATES": ",".join(EXPECT),
            "CARGO_TARGET_DIR": target,
            "CARGO_NET_OFFLINE": "true",
        })
        cmd = ["cargo", "+nightly", "check", "--offline", "-p", "steel-core"]
        if feats:
            cmd += ["--features", " ".join(feats)]
        t0 = time.time()
        if verbose:
            print("[facts] running driver over /repo (%s, features: %s)" % (config, " ".join(feats)), file=sys.stderr)
        p = subprocess.run(cmd, cwd=REPO, env=env, stdout=subprocess.PIPE, stderr=subprocess.STDOUT, text=True)
        if p.returncode != 0:
            sys.stderr.write(p.stdout[-6000:])
            raise RuntimeError("cargo check of /repo failed (the tree does not build): cannot analyse")
        for c in EXPECT:
            if config == "min" and c == "steel_rc":
                continue  # steel-rc is only a dependency under the `biased` feature
            if not os.path.exists(os.path.join(tmp, c + ".json")):
                raise RuntimeError("fact file for crate %s was not written (driver skipped?)" % c)
        meta = {"config": config, "features": feats, "hash": key, "hashed_files": nfiles,
                "driver_wall_s": round(time.time() - t0, 1), "cmd": " ".join(cmd)}
        json.dump(meta, open(os.path.join(tmp, "meta.json"), "w"))
        os.rename(tmp, out)
        meta["cached"] = False
        return out, meta
    finally:
        fcntl.flock(lock, fcntl.LOCK_UN)
        lock.close()


if __name__ == "__main__":
    d, m = ensure(sys.argv[1] if len(sys.argv) > 1 else "ws")
    print(d, m)
