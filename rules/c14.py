"""C14 — modules are instantiated once and expose what they provide (DESIGN §3 C14).

Only the structural clauses below are decided; which names a module graph exposes is a property of name sets computed at
expansion time and is NOT decided.
  a  a required module is compiled (and therefore evaluated) only after the compiled-module table / the file metadata
     table has been consulted for it: every construction of a sub-builder in ModuleBuilder::compile is dominated by a
     branch whose condition is computed from such a lookup,
  b  compiling a module registers it in the compiled-module table (so the next requirer finds it),
  c  a failed compilation restores the module table (same construct as C06.B / C07.b).
"""
import re

from . import lib, c06, c07
from .lib import CheckError

LOOKUP = r"\{impl (Generic)?HashMap<[^}]*\}::(get|get_mut|contains_key)$|\{impl CompiledModuleCache\}::(get|get_mut)$"


def run(F, R, ctx):
    R.rule("C14.a", "instantiated once: in ModuleBuilder::compile every construction of a builder for a required module "
                    "(ModuleBuilder::new_built_in / new_from_path), i.e. every compilation of a dependency, is dominated by a "
                    "branch whose condition is computed from a lookup in the compiled-module table or the file-metadata table "
                    "(cache hit => skip; miss or changed file => compile). Without that test a module required by two "
                    "modules, or by two evaluations, is compiled and its body evaluated again")
    R.rule("C14.b", "ModuleBuilder::compile_module registers the module it compiled in the compiled-module table")
    R.rule("C14.c", "a failed compilation restores the module table (same construct as C06.B)")
    fn = F.one(r"^steel::compiler::modules::\{impl ModuleBuilder\}::compile$")
    subs = [(i, b) for i, b in fn.calls() if re.search(r"\{impl ModuleBuilder\}::(new_built_in|new_from_path)$", b["callee"])]
    R.floor("C14.a", "dependency builders constructed in ModuleBuilder::compile", len(subs), 2)
    maps = c07._backward(fn)
    dom = fn.dominators()
    lookups = {}
    for i, b in fn.calls():
        if re.search(LOOKUP, b["callee"]):
            d = re.match(r"_\d+", b.get("dest") or "")
            tables = set()
            for a in b["args"][:1]:
                for t in lib.TOK.findall(a):
                    for o in c07._origins(fn, t, maps, depth=6) | {t}:
                        for blk in fn.blocks:
                            for e in blk["e"]:
                                if e[0] == "mv" and e[1] == o and re.search(r"\.(compiled_modules|file_metadata)\b", e[2]):
                                    tables.add(re.search(r"\.(compiled_modules|file_metadata)\b", e[2]).group(1))
            if d and (tables or "CompiledModuleCache" in b["callee"]):
                lookups[d.group(0)] = (i, tables or {"compiled_modules"})
    if len(lookups) < 2:
        raise CheckError("anchor lost: lookups of compiled_modules / file_metadata in ModuleBuilder::compile (%d)" % len(lookups))
    for i, b in subs:
        guard = None
        for sb in dom[i]:
            blk = fn.blocks[sb]
            if blk["k"] != "switch":
                continue
            loc = re.match(r"_\d+", blk.get("place", "").strip("()*"))
            if not loc:
                continue
            org = c07._origins(fn, loc.group(0), maps) | {loc.group(0)}
            hit = [lookups[o.split(".")[0]] for o in org if o.split(".")[0] in lookups]
            if hit:
                guard = hit[0]
        R.inst("C14.a", "ModuleBuilder::compile / %s only after the module tables were consulted" % lib.split_path(b["callee"])[-1],
               guard is not None,
               "ModuleBuilder::compile builds (and compiles) a required module (line %s) on a path that has not branched on a "
               "lookup of compiled_modules / file_metadata: a module that is already compiled is compiled again, and its body "
               "is evaluated once more (side effects repeat, its definitions are duplicated)" % b["line"],
               fn.loc(b["line"]), sample={"guard": sorted(guard[1]) if guard else None})
    cm = F.one(r"^steel::compiler::modules::\{impl ModuleBuilder\}::compile_module$")
    ins = [i for i, b in cm.calls() if re.search(r"\{impl (Generic)?HashMap<[^}]*\}::insert$|\{impl CompiledModuleCache\}::insert$", b["callee"])]
    touches = any(e[2] == "compiled_modules" for _, _, e in cm.events("fld"))
    # every successful path: from entry to the return, through the insert unless it left by an error return (`?`)
    rets = cm.returns()
    err_exits = [i for i, b in cm.calls() if re.search(r"FromResidual.*::from_residual$", b["callee"])]
    ok = bool(ins) and touches and cm.every_path_passes_from([0], rets, ins + err_exits)[0]
    R.inst("C14.b", "ModuleBuilder::compile_module / inserts into compiled_modules on every successful path", ok,
           "ModuleBuilder::compile_module can return Ok without inserting the module into the compiled-module table: the "
           "next requirer compiles and evaluates the module again", cm.loc(), sample={"inserts": len(ins)})
    c06.rollback_rule(F, R, "C14.c")
    pruning_rule(F, R)
    identity_rule(F, R)
    exported_macros_rule(F, R)
    filter_reset_rule(F, R)
    R.note("C14: decided are the cache-consultation, registration and rollback clauses only; which names a module graph "
           "exposes (provide / only-in / prefix-in / mangling) is not decided.")
    snapshot_rule(F, R)
    mangled_name_rule(F, R)


def pruning_rule(F, R):
    R.rule("C14.d", "unused-import pruning looks at every macro before it deletes an import: in "
                    "SemanticAnalysis::remove_unused_globals_with_prefix each loop over macros (the global macro map and the "
                    "macro map of every compiled module) collects the references of every macro it iterates over — on every "
                    "path from the iterator's Some edge back to the loop head the macro's expressions (SteelMacro::exprs) are "
                    "visited; no test of the macro (is_mangled, …) skips one. A provided macro whose template is the only user "
                    "of an import would otherwise lose that import and expand to a free identifier")
    fn = F.one(r"\{impl SemanticAnalysis(<'a>)?\}::remove_unused_globals_with_prefix$")
    nexts = [(i, b) for i, b in fn.calls() if re.search(r"Iterator for .*Values<.*\}::next$|Iterator.*::next$", b["callee"])
             and any(re.search(r"(Values|Iter|IntoIter)<[^{]*\bSteelMacro>$", t) for t in b["targs"])]
    exprs = fn.call_blocks(r"\{impl SteelMacro\}::exprs$")
    if not exprs:
        raise CheckError("anchor lost: remove_unused_globals_with_prefix no longer reads SteelMacro::exprs")
    R.floor("C14.d", "loops over macros in the pruning pass", len(nexts), 2)
    for k, (i, b) in enumerate(sorted(nexts)):
        sw = None
        nxt = b.get("ret")
        hops = 0
        while nxt is not None and hops < 4:
            nb = fn.blocks[nxt]
            if nb["k"] == "switch" and nb["on"] == "enum:Option":
                sw = nxt
                break
            if nb["k"] == "goto" and len(nb["s"]) == 1:
                nxt = nb["s"][0]
                hops += 1
                continue
            break
        ok = False
        if sw is not None:
            am = lib.arm_map(fn, sw)
            some = am.get("Some")
            if some is not None:
                ok, _ = fn.every_path_passes_from([some], [i], exprs)
        R.inst("C14.d", "remove_unused_globals_with_prefix / macro loop #%d visits every macro" % k, ok,
               "remove_unused_globals_with_prefix skips some macros when it collects the identifiers that macros refer to "
               "(line %s): an import that is used only inside the template of a provided macro is pruned, and a later "
               "evaluation that expands the macro fails with a free identifier" % b["line"], fn.loc(b["line"]), sample=True)


def identity_rule(F, R):
    R.rule("C14.e", "one file, one module: the paths that key the compiled-module / file-metadata tables are canonical — every "
                    "construction of PathOrBuiltIn::Path (the path a require resolves to) takes its path from "
                    "try_canonicalize / std::fs::canonicalize (or copies an existing one), and try_canonicalize runs "
                    "std::fs::canonicalize on every path to its return. A path that keeps `..`, `./` or a symlink gives the "
                    "same file two cache entries: its body is evaluated twice and the two requirers see different state")
    n = 0
    for name, fn in sorted(F.fns.items()):
        if not name.startswith("steel::compiler::"):
            continue
        for i, _, e in fn.events("agg"):
            if not (e[1] == "PathOrBuiltIn" and e[2] == "Path"):
                continue
            n += 1
            key = "%s / PathOrBuiltIn::Path is built from a canonical path" % fn.short()
            if re.search(r"\{impl Clone for PathOrBuiltIn\}::clone$", name):
                R.inst("C14.e", key + " (copy)", True, sample=True, nontrivial=False)
                continue
            src = set()
            for o in (e[4] if len(e) > 4 else []):
                if o.startswith("_"):
                    src |= lib.alias_sources(fn, o, depth=8)
            prod = [cb["callee"] for _, cb in fn.calls()
                    if cb.get("dest") and re.match(r"_\d+", cb["dest"]) and re.match(r"_\d+", cb["dest"]).group(0) in src]
            ok = any(re.search(r"::try_canonicalize$|^std::fs::canonicalize$", c) for c in prod)
            R.inst("C14.e", key, ok,
                   "%s builds the path of a required module (line %s) from a value that did not come from try_canonicalize / "
                   "std::fs::canonicalize: the module tables are keyed by that path, so two spellings of one file become two "
                   "modules" % (fn.short(), e[3]), fn.loc(e[3]), sample={"producers": [lib.short_name(c) for c in prod][:4]})
    R.floor("C14.e", "constructions of PathOrBuiltIn::Path", n, 3)
    tc = F.one(r"^steel::compiler::modules::try_canonicalize$")
    canon = [i for i, cb in tc.calls() if re.search(r"^std::fs::canonicalize$", cb["callee"])]
    ok = bool(canon) and tc.every_path_passes_from([0], tc.returns(), canon)[0]
    R.inst("C14.e", "try_canonicalize canonicalises on every path", ok,
           "compiler::modules::try_canonicalize can return without calling std::fs::canonicalize: paths taken on that route "
           "(e.g. absolute ones that still contain `..`) are used as module identities unnormalised", tc.loc(), sample=True)


def _raw_sources(fn):
    raw = {}
    for b in fn.blocks:
        for e in b["e"]:
            if e[0] == "mv":
                raw.setdefault(e[1].split(".")[0], []).append(e[2])
    return raw


def _field_provenance(fn, tok, maps, raw, depth=60):
    """field names mentioned by the places a value is computed from"""
    out = set()
    for o in c07._origins(fn, tok, maps, depth=depth):
        for s_ in raw.get(o.split(".")[0], ()):
            out |= set(re.findall(r"\.([a-z_][a-z_0-9]*)", s_))
    return out


PURE_ACCESSOR = r"::(atom_identifier|list|is_empty|len|second_ident|first_ident)$"


def _repeated_accessor_infeasible(fn):
    """targets that cannot be taken because the same pure accessor was already asked about the same value on the only way
    in: `if let Some(x) = e.atom_identifier() { … if let Some(y) = e.atom_identifier() { A } else { B } }` — B is dead"""
    dom = fn.dominators()
    keyed = {}
    for sb, blk in enumerate(fn.blocks):
        if blk["k"] != "switch" or blk["c"] or not blk["on"].startswith(("enum:Option", "bool")):
            continue
        loc = re.match(r"_\d+", blk.get("place", "").strip("()*"))
        if not loc:
            continue
        src = lib.alias_sources(fn, loc.group(0), 3)
        for ci, cb in fn.calls():
            if (cb.get("dest") or "").split(".")[0] in src and re.search(PURE_ACCESSOR, cb["callee"]) and cb["args"]:
                roots = frozenset(x for x in lib.alias_sources(fn, re.match(r"_\d+", cb["args"][0]).group(0), 6)
                                  if not re.match(r"^_\d+$", x)) or frozenset([cb["args"][0]])
                keyed[sb] = (cb["callee"], roots)
    dead = set()
    for s2, k2 in keyed.items():
        for s1, k1 in keyed.items():
            if s1 == s2 or k1 != k2 or s1 not in dom[s2]:
                continue
            b1, b2 = fn.blocks[s1], fn.blocks[s2]
            via = [(v, t) for v, t in b1["targets"] if t == s2 or s2 in fn.reachable_from([t], avoid={s1})]
            other = b1["otherwise"]
            via_other = other is not None and (other == s2 or s2 in fn.reachable_from([other], avoid={s1}))
            if len(via) == 1 and not via_other:
                v = via[0][0]
                for v2, t2 in b2["targets"]:
                    if v2 != v:
                        dead.add(t2)
                if v in [x for x, _ in b2["targets"]] and b2["otherwise"] is not None and fn.blocks[b2["otherwise"]]["k"] != "unreachable":
                    if len(b2["targets"]) == 1:
                        dead.add(b2["otherwise"])
    return dead


def exported_macros_rule(F, R):
    R.rule("C14.f", "only provided macros leave a module: in ModuleManager::find_in_scope_macros (the one place that computes "
                    "which macros of a required module the requirer may use — main program, module-to-module and REPL alike) "
                    "(1) the returned map starts from the module's provide forms (its initialiser is computed from "
                    "CompiledModule.provides / provides_for_syntax); (2) every later insertion of a macro looked up in the "
                    "module's macro table either uses a name that is computed from the provide forms, or — when the name "
                    "comes from the requirer's only-in / rename list (RequireObject.idents_to_import) — is control-dependent "
                    "on a successful membership test (contains_key / remove / get) against the map of provided macros. nc: "
                    "without the test a requirer that names a private macro receives it")
    fn = F.one(r"\{impl ModuleManager\}::find_in_scope_macros$")
    maps = c07._backward(fn)
    raw = _raw_sources(fn)
    dom = fn.dominators()
    ret = lib.alias_sources(fn, "_0", 8)
    ins = [(i, b) for i, b in fn.calls() if re.search(r"HashMap<K,V,S,A>\}::insert$", b["callee"]) and len(b["args"]) >= 3]
    exported = None
    for i, b in ins:
        al = lib.alias_sources(fn, re.match(r"_\d+", b["args"][0]).group(0))
        hit = [x for x in al if re.match(r"^_\d+$", x) and x in ret]
        if hit:
            exported = hit[0]
            break
    if exported is None:
        raise CheckError("anchor lost: find_in_scope_macros no longer inserts into the map it returns")
    # (1) the initialiser
    init = [b for i, b in fn.calls() if (b.get("dest") or "").split(".")[0] == exported]
    prov = set()
    for b in init:
        for a in b["args"]:
            for t in lib.TOK.findall(a):
                prov |= _field_provenance(fn, t, maps, raw)
    R.inst("C14.f", "the map of importable macros starts from the module's provide forms", bool(init) and bool(prov & {"provides", "provides_for_syntax"}),
           "find_in_scope_macros initialises the map it returns from {%s}, not from the module's provide forms: macros the "
           "module does not provide are handed to every requirer" % ", ".join(sorted(prov)) , fn.loc(init[0]["line"] if init else None),
           sample={"initialiser_fields": sorted(prov)})
    # (2) insertions
    # the maps that hold the provided macros: the returned one, and any map its contents were moved / copied into
    # (`let provided = mem::take(&mut in_scope_macros)`)
    provided_maps = {exported}
    for i, b in fn.calls():
        if b.get("dest") and re.search(r"core::mem::(take|replace)$|::clone$", b["callee"]) and b["args"]:
            if exported in {o.split(".")[0] for o in c07._origins(fn, re.match(r"_\d+", b["args"][0]).group(0), maps, depth=6)}:
                provided_maps.add(b["dest"].split(".")[0])
    member = {}
    for i, b in fn.calls():
        if re.search(r"HashMap<K,V,S,A>\}::(contains_key|remove|get)$", b["callee"]):
            al = lib.alias_sources(fn, re.match(r"_\d+", b["args"][0]).group(0))
            if (provided_maps & set(al)) and b.get("dest"):
                member[i] = b["dest"].split(".")[0]
    infeasible = _repeated_accessor_infeasible(fn)
    requested_sites = []
    n = 0
    for i, b in ins:
        al = lib.alias_sources(fn, re.match(r"_\d+", b["args"][0]).group(0))
        if exported not in al:
            continue
        vorg = c07._origins(fn, re.match(r"_\d+", b["args"][2]).group(0), maps, depth=30)
        from_table = [g for g, bb in fn.calls() if re.search(r"::get$", bb["callee"]) and g not in member
                      and (bb.get("dest") or "").split(".")[0] in vorg]
        if not from_table:
            continue
        n += 1
        kprov = set()
        for g in from_table:
            kprov |= _field_provenance(fn, re.match(r"_\d+", fn.blocks[g]["args"][1]).group(0), maps, raw)
        requested = "idents_to_import" in kprov
        provided = bool(kprov & {"provides", "provides_for_syntax"})
        guarded = False
        for g, d in member.items():
            for sb, blk in enumerate(fn.blocks):
                if blk["k"] != "switch" or blk["c"]:
                    continue
                loc = re.match(r"_\d+", blk.get("place", "").strip("()*"))
                if not loc or d not in {o.split(".")[0] for o in c07._origins(fn, loc.group(0), maps, depth=8)} | {loc.group(0)}:
                    continue
                good = [t for t in set(blk["s"]) if t == i or i in fn.reachable_from([t], avoid={sb, g} | infeasible)]
                if len(good) != 1 or len(set(blk["s"])) < 2:
                    continue
                # every feasible path from the table lookup to the insertion goes through the successful side of the test
                if all(i not in fn.reachable_from([ft], avoid={good[0]} | infeasible) for ft in from_table):
                    guarded = True
                # or the test comes first: test and branch both dominate the insertion
                if g in dom[i] and sb in dom[i]:
                    guarded = True
        if requested:
            requested_sites.append(i)
        ok = guarded or (provided and not requested)
        R.inst("C14.f", "find_in_scope_macros / insertion at the %s of a %s name" % (
            "guarded request" if guarded else "loop over the provide forms" if provided else "unguarded use",
            "requested" if requested else "provided" if provided else "computed"), ok,
               "find_in_scope_macros (line %s) puts a macro taken from the module's macro table into the map of importable "
               "macros under a name that %s, and no membership test against the provided macros decides whether it gets "
               "there: a requirer naming a private macro of the module receives it (and its expansion then reaches the "
               "module's private definitions)" % (b["line"], "comes from the requirer's only-in / rename list" if requested else
                                                    "is not computed from the module's provide forms"),
               fn.loc(b["line"]), sample=True)
    # (3) an only-in list restricts: where names are requested, the map of all provided macros is emptied first (its contents
    # moved aside), so that only the requested ones are in it afterwards
    emptiers = [i for i, b in fn.calls() if b["args"] and (
        (re.search(r"core::mem::(take|replace)$", b["callee"]) or re.search(r"HashMap<K,V,S,A>\}::(clear|drain)$", b["callee"]))
        and exported in {o.split(".")[0] for o in c07._origins(fn, re.match(r"_\d+", b["args"][0]).group(0), maps, depth=6)}
        | set(x for x in lib.alias_sources(fn, re.match(r"_\d+", b["args"][0]).group(0)) if re.match(r"^_\d+$", x)))]
    if requested_sites:
        okr = all(any(e in dom[i] for e in emptiers) for i in requested_sites)
        R.inst("C14.f", "find_in_scope_macros / an only-in list leaves only the listed macros importable", okr,
               "find_in_scope_macros adds the requested macros to the map of ALL provided macros without emptying it first: "
               "(require (only-in \"m.scm\" f)) still makes every macro m.scm provides available to the requirer, although "
               "it asked for f only", fn.loc(fn.blocks[requested_sites[0]].get("line")), sample=True)
    R.floor("C14.f", "insertions of module macros into the importable map", n, 2)


def filter_reset_rule(F, R):
    R.rule("C14.g", "the only-in filter of one require does not leak into the next: in every function of compiler::modules that "
                    "loops over a module's / program's require objects and fills a per-require filter map (a HashMap from name to "
                    "optional alias — directly, or through a helper that is handed the map), every turn of the loop passes a "
                    "clear of that map (or a fresh map) before it is filled (sibling agreement between compile_main and "
                    "to_top_level_module). nc: a filter that accumulates lets the names listed for an earlier require select — "
                    "or, absent from a later plain require, exclude — the provides of a later one: the wrong module's value is "
                    "bound, or a provided name is missing")
    FILTER = lambda targs: len(targs) > 1 and targs[0] == "InternedString" and "Option<InternedString>" in targs[1]
    n = 0
    for name, fn in sorted(F.fns.items()):
        if not name.startswith("steel::compiler::modules"):
            continue
        heads = [i for i, b in fn.calls() if re.search(r"Iterator for Iter<T>\}::next$", b["callee"])
                 and any("RequireObject" in t for t in b["targs"])]
        if not heads:
            continue
        nodes = [i for i, b in enumerate(fn.blocks) if not b["c"]]
        comps = lib.sccs(nodes, lambda x: list(fn.succ(x)))
        for h in heads:
            comp = [c for c in comps if h in c and len(c) > 1]
            if not comp:
                continue
            comp = set(comp[0])
            fills = [i for i, b in fn.calls() if i in comp and (
                (re.search(r"HashMap<K,V,S,A>\}::insert$", b["callee"]) and FILTER(b["targs"])) or
                (b["callee"] in F.fns and any("HashMap<InternedString,Option<InternedString>" in t for t in F.fns[b["callee"]].d["in"])))]
            if not fills:
                continue
            n += 1
            clears = {i for i, b in fn.calls() if i in comp and (
                (re.search(r"HashMap<K,V,S,A>\}::clear$", b["callee"]) and FILTER(b["targs"])) or
                (re.search(r"HashMap<K,V,S[^}]*\}::(new|default|with_capacity)$", b["callee"]) and FILTER(b["targs"])))}
            nxt = fn.blocks[h].get("ret")
            reach = fn.reachable_from([nxt] if nxt is not None else [h], avoid=clears | {h})
            leak = [f_ for f_ in fills if f_ in reach]
            R.inst("C14.g", "%s / the per-require filter is reset on every turn of the loop" % fn.short(), bool(clears) and not leak,
                   "%s fills the only-in filter map inside its loop over the require objects (line %s) on a path that does not "
                   "clear it first: the names listed for an earlier require are still in the filter when a later require of the "
                   "same module is processed" % (fn.short(), fn.blocks[leak[0]].get("line") if leak else fn.blocks[fills[0]].get("line")),
                   fn.loc(fn.blocks[(leak or fills)[0]].get("line")), sample=True)
    R.floor("C14.g", "loops over require objects that fill an only-in filter", n, 2)


def snapshot_rule(F, R):
    R.rule("C14.r", "a snapshot that a failed evaluation restores is taken by every evaluation: for every restore routine of "
                    "ModuleManager (a method that overwrites one field with a copy of another: live table <- snapshot field), each "
                    "other function that writes the snapshot field does so on every path from its entry to its return. A snapshot "
                    "skipped on some path (\"nothing will change\") leaves an older one in place, and the next restore — which is "
                    "unconditional — winds the module tables back past modules that were loaded since: they are compiled and "
                    "their bodies evaluated a second time")
    pairs = []
    for n, fn in F.fns.items():
        if "{impl ModuleManager}::" not in n or fn.d["kind"] == "Closure":
            continue
        w = {e[2] for _, _, e in fn.events("fld") if e[1] == "ModuleManager" and e[3][0] == "w"}
        r = {e[2] for _, _, e in fn.events("fld") if e[1] == "ModuleManager" and e[3][0] in "rb"} - w
        calls = [b["callee"] for _, b in fn.calls()]
        if w and r and len(w) == len(r) and len(fn.blocks) <= 6 * len(w) and all(re.search(r"::clone$|::deref", c) for c in calls):
            for snap_ in sorted(r):
                pairs.append((fn, snap_, "/".join(sorted(w))))
    R.floor("C14.r", "restore routines of ModuleManager (live table <- snapshot)", len(pairs), 1)
    n = 0
    for rfn, snap, live in pairs:
        for name, fn in sorted(F.fns.items()):
            if fn is rfn or not name.startswith("steel::") or fn.d["kind"] == "Closure":
                continue
            ws = [i for i, _, e in fn.events("fld") if e[1] == "ModuleManager" and e[2] == snap and e[3][0] == "w"]
            if not ws:
                continue
            n += 1
            ok, wit = fn.every_path_passes(0, fn.returns(), ws) if 0 not in ws else (True, None)
            R.inst("C14.r", "%s takes the snapshot ModuleManager.%s on every path" % (fn.short(), snap), ok,
                   "%s writes the snapshot ModuleManager.%s (restored into .%s by %s) only on some paths: an evaluation that skips "
                   "it and is then rejected is rolled back to the snapshot of an earlier evaluation — modules loaded in between "
                   "lose their metadata entry while they are still in the module table, and the next require of one compiles and "
                   "evaluates it again in the same engine" % (fn.short(), snap, live, rfn.short()), fn.loc(), sample=True)
    R.floor("C14.r", "snapshot sites", n, 1)


def _nearest_root(fn, local):
    """the call destination a local was (transitively) moved from, or the local itself"""
    srcs = lib.alias_sources(fn, local)
    dests = {b["dest"] for _, b in fn.calls()}
    roots = [s for s in srcs if s in dests]
    return roots or [local]


def mangled_name_rule(F, R):
    R.rule("C14.n", "the name a module registers for qualification is the name it defines: in compiler::modules, wherever an "
                    "identifier is put into the `globals` set of names to be module-qualified next to the construction of the "
                    "definition that re-exports a provided value (Define::new), the identifier and the defined name are the same "
                    "value — one derives from the other (after aliases and prefixes were applied), not both from an earlier copy. "
                    "If the original name is registered while the prefixed name is defined, the prefixed definition stays an "
                    "ordinary global and is visible to every program that requires the requiring module")
    n = 0
    for name, fn in sorted(F.fns.items()):
        if not name.startswith("steel::compiler::modules::") or fn.d["kind"] == "Closure":
            continue
        ins = [(i, b) for i, b in fn.calls() if re.search(r"HashSet<T,S(,A)?>\}::insert$", b["callee"]) and
               any(re.search(r"\bglobals\b|^_\d+$", s) for s in lib.alias_sources(fn, b["args"][0])) and
               any("InternedString" in t for t in (b.get("targs") or []))]
        defs = [(i, b) for i, b in fn.calls() if re.search(r"\{impl Define\}::new$", b["callee"])]
        if not ins or not defs:
            continue
        dom = fn.dominators()
        for k, (i, ib) in enumerate(ins):
            # the definition built right after the insert (nearest Define::new dominated by the insert)
            after = [(d, db) for d, db in defs if i in dom.get(d, ())]
            if not after:
                continue
            d, db = min(after, key=lambda t: len(dom[t[0]]))
            n += 1
            r_def = _nearest_root(fn, db["args"][0])
            r_ins = _nearest_root(fn, ib["args"][1])
            ok = any(x in lib.tainted_locals(fn, r_def) for x in lib.TOK.findall(ib["args"][1])) or \
                any(x in lib.tainted_locals(fn, r_ins) for x in lib.TOK.findall(db["args"][0]))
            R.inst("C14.n", "%s / registered name #%d is the defined name" % (fn.short(), k), ok,
                   "%s registers an identifier for module qualification (line %s) that is not the name of the definition it builds "
                   "next (line %s): neither derives from the other. With (require (prefix-in n: \"n.scm\")) inside a module and a "
                   "(contract/out inc …) provide in n.scm, `inc` is registered but `n:inc` is defined — an unqualified global that "
                   "any program requiring the outer module can call" % (fn.short(), ib.get("line"), db.get("line")),
                   fn.loc(ib.get("line")), sample=True)
    R.floor("C14.n", "registered-name / definition pairs", n, 2)
