"""Facts about the JIT that several rule sets share (C02, C07).

* `registry(F)`: the JIT's symbol table, name -> runtime helper function.  Derived from `<JIT as Default>::default`:
  every `FunctionMap::add_func*("name", helper, …)` call (the name is a string constant, the helper the function whose
  address is taken in the same block).
* `fallible(F)`: the helper names whose Rust body (or a callee in `steel_vm::vm::jit`, ≤ 3 levels) stores into
  `VmCore.result` — the way a helper reports a script-level error to the interpreter ("stash and return Void").
* `translator(F)`: methods of `jit2::cgen::FunctionTranslator` (the stack-to-SSA emitter).
* `consts(fn, tok)`: string / variant / integer constants a local may hold (through `kv` events and the alias closure).
"""
import re

from . import lib
from .lib import CheckError

JITMOD = "steel::steel_vm::vm::jit::"


def kvmap(fn):
    kv = {}
    for _, _, e in fn.events("kv"):
        kv.setdefault(e[1], set()).add(e[2])
    return kv


def consts(fn, kv, tok):
    if tok.startswith(("str:", "variant:", "const:")):
        return {tok}
    out = set()
    for a in lib.alias_sources(fn, tok.strip("()*")):
        m = re.match(r"^\(?\*?(_\d+)\)?$", a)
        if m:
            out |= kv.get(m.group(1), set())
    return out


def registry(F):
    f = F.one(r"^steel::jit2::cgen::\{impl Default for JIT\}::default$")
    reg = {}
    kv = kvmap(f)
    for i, b in f.calls():
        if re.search(r"\{impl FunctionMap<'a>\}::add_func|\{impl FunctionMap\}::add_func|FunctionMap.*::add_func", b["callee"]):
            names = set()
            for a in b["args"]:
                names |= {x[4:] for x in consts(f, kv, a) if x.startswith("str:")}
            frs = [e[1] for e in b["e"] if e[0] == "fnref"]
            if len(names) == 1 and frs:
                reg[next(iter(names))] = frs[-1]
    if len(reg) < 80:
        raise CheckError("anchor lost: JIT symbol table (FunctionMap::add_func* in <JIT as Default>::default): %d entries" % len(reg))
    # macro-generated families (call_function_deopt_N, make_list_N, …): registered in a loop under the helper's own
    # identifier, which `<Family>::arity_to_name` returns as a string
    for n, fn in F.fns.items():
        if n.startswith(JITMOD) and n.endswith("::arity_to_name"):
            for _, _, e in fn.events("kv"):
                if e[2].startswith("str:") and (JITMOD + e[2][4:]) in F.fns:
                    reg.setdefault(e[2][4:], JITMOD + e[2][4:])
    return reg


def helper_family(F, root, depth=2):
    """the helper and the functions of the jit module it calls (≤ depth levels)"""
    out, frontier = {root}, [root]
    for _ in range(depth):
        nxt = []
        for n in frontier:
            fn = F.fns.get(n)
            if not fn:
                continue
            for c in F.callees(fn):
                if c.startswith(JITMOD) and c not in out:
                    out.add(c)
                    nxt.append(c)
        frontier = nxt
    return out


def stashes_error(fn):
    return any(e[1] == "VmCore" and e[2] == "result" and e[3][0] in "wm" for _, _, e in fn.events("fld"))


def fallible(F, reg=None):
    reg = reg or registry(F)
    out = {}
    for name, h in reg.items():
        fam = helper_family(F, h, 3)
        st = sorted(n for n in fam if n in F.fns and stashes_error(F.fns[n]))
        if st:
            out[name] = st
    return out


def translator(F):
    tr = [f for n, f in F.fns.items() if "jit2::cgen::{impl FunctionTranslator}" in n]
    if len(tr) < 50:
        raise CheckError("anchor lost: methods of jit2::cgen FunctionTranslator (%d)" % len(tr))
    return tr


def live_translator(F):
    """(live, dead) translator methods: dead = private methods that nothing in jit2 reaches from a live caller"""
    tr = translator(F)
    names = {f.name for f in tr}
    callers = {}
    for n2, f2 in F.fns.items():
        if n2.startswith("steel::jit2::"):
            for c in F.callees(f2):
                if c in names:
                    callers.setdefault(c, set()).add(n2)
    live = {f.name for f in tr if f.d.get("pub") or any(c not in names for c in callers.get(f.name, ()))}
    changed = True
    while changed:
        changed = False
        for f in tr:
            if f.name not in live and any(c in live for c in callers.get(f.name, ())):
                live.add(f.name)
                changed = True
    return [f for f in tr if f.name in live], [f for f in tr if f.name not in live]


EMIT = r"FunctionTranslator\}::call_function_returns_value(_args|_args_no_context)?$"


def _names_in_body(F, callee, reg):
    fn = F.fns.get(callee)
    out = set()
    if fn:
        for _, _, e in fn.events("kv"):
            if e[2].startswith("str:") and e[2][4:] in reg:
                out.add(e[2][4:])
    return out


_CALLERS = {}


def _callers(F):
    key = id(F)
    if key not in _CALLERS:
        m = {}
        for f2 in live_translator(F)[0]:
            for i, b in f2.calls():
                m.setdefault(b["callee"], []).append((f2, i, b))
        _CALLERS.clear()
        _CALLERS[key] = m
    return _CALLERS[key]


def resolve_variants(F, fn, tok, at_block, enum_short, depth=3):
    """variants of a field-less enum that a value may hold at a block: constants; the arms of a `match` on that value that
    dominate the block; for a parameter, what the callers pass. None = unknown."""
    kv = kvmap(fn)
    pref = "variant:%s::" % enum_short
    out = {x[len(pref):] for x in consts(fn, kv, tok) if x.startswith(pref)}
    if out:
        return out
    aliases = set()
    for a in lib.alias_sources(fn, tok.strip("()*")):
        m = re.match(r"^\(?\*?(_\d+)\)?$", a)
        if m:
            aliases.add(m.group(1))
    dom = fn.dominators()
    for sb in lib.enum_switches(fn, enum_short):
        pl = re.match(r"_\d+", fn.blocks[sb]["place"].strip("()*"))
        if not pl:
            continue
        src = {pl.group(0)}
        for a in lib.alias_sources(fn, pl.group(0)):
            m = re.match(r"^\(?\*?(_\d+)\)?$", a)
            if m:
                src.add(m.group(1))
        if not (src & aliases):
            continue
        am = lib.arm_map(fn, sb)
        vs = {v for v, t in am.items() if v != "_" and t in dom[at_block] and t != am.get("_")}
        if vs:
            out |= vs
    if out:
        return out
    nparams = len(fn.d.get("in") or [])
    res = set()
    for loc in aliases:
        k = int(loc[1:])
        if 1 <= k <= nparams and depth > 0:
            for f2, i, b in _callers(F).get(fn.name, []):
                if k - 1 < len(b["args"]):
                    r = resolve_variants(F, f2, b["args"][k - 1], i, enum_short, depth - 1)
                    if r is None:
                        return None
                    res |= r
    return res or None


def _table_names(F, callee, variants, reg):
    """registered names a name-table function (match on an OpCode → &'static str) returns for the given opcodes"""
    fn = F.fns.get(callee)
    if not fn:
        return set()
    sws = lib.enum_switches(fn, "OpCode")
    if not sws:
        # a wrapper around the real table (op_to_name_payload -> try_op_to_name_payload)
        inner = [c for c in F.callees(fn, expand_unresolved=False)
                 if c in F.fns and c != callee and (F.fns[c].d.get("in") or [""])[0] == "OpCode"]
        if inner:
            out = set()
            for c in inner:
                out |= _table_names(F, c, variants, reg)
            return out
    if not sws or variants is None:
        return _names_in_body(F, callee, reg)
    out = set()
    am = lib.arm_map(fn, sws[0])
    for v in variants:
        t = am.get(v, am.get("_"))
        if t is None:
            continue
        for b in fn.reachable_from([t], avoid=set(sws)):
            for e in fn.blocks[b]["e"]:
                if e[0] == "kv" and e[2].startswith("str:") and e[2][4:] in reg:
                    out.add(e[2][4:])
    return out


def resolve_names(F, fn, tok, reg, depth=3, at_block=None):
    """the helper names a `&str` value may denote: constants; the names a called name-table function returns (per opcode
    when the opcode argument can be resolved); for a parameter, what the callers pass (≤ depth levels)"""
    kv = kvmap(fn)
    out = {x[4:] for x in consts(fn, kv, tok) if x.startswith("str:")}
    nparams = len(fn.d.get("in") or [])
    dests = {}
    for i, b in fn.calls():
        d = re.match(r"_\d+", b.get("dest") or "")
        if d:
            dests[d.group(0)] = (i, b)
    for a in lib.alias_sources(fn, tok.strip("()*")):
        m = re.match(r"^\(?\*?(_\d+)\)?( as \w+)?(\.\d+)*$", a)
        if not m:
            continue
        loc = m.group(1)
        if loc in dests and dests[loc][1]["callee"].startswith("steel::"):
            ci, cb = dests[loc]
            callee = F.fns.get(cb["callee"])
            if callee and callee.d.get("in") and callee.d["in"][0] == "OpCode" and cb["args"]:
                vs = resolve_variants(F, fn, cb["args"][0], ci, "OpCode", depth)
                out |= _table_names(F, cb["callee"], vs, reg)
            else:
                out |= _names_in_body(F, cb["callee"], reg)
        elif loc in dests and re.search(r"(Option<T>|Result<T,E>)\}::(unwrap|expect|unwrap_or|unwrap_or_default)$",
                                        dests[loc][1]["callee"]) and dests[loc][1]["args"] and depth > 0:
            out |= resolve_names(F, fn, dests[loc][1]["args"][0], reg, depth - 1)
        k = int(loc[1:])
        if 1 <= k <= nparams and depth > 0:
            for f2, i, b in _callers(F).get(fn.name, []):
                if k - 1 < len(b["args"]):
                    out |= resolve_names(F, f2, b["args"][k - 1], reg, depth - 1)
    return out


def emissions(fn, F=None, reg=None):
    """(block, helper names) for every helper call emitted in a translator method; with F/reg the name is resolved through
    parameters and name tables, otherwise only constants"""
    kv = kvmap(fn)
    out = []
    for i, b in fn.calls():
        if re.search(EMIT, b["callee"]) and len(b["args"]) >= 2:
            if F is not None:
                names = resolve_names(F, fn, b["args"][1], reg)
            else:
                names = {x[4:] for x in consts(fn, kv, b["args"][1]) if x.startswith("str:")}
            out.append((i, names))
    return out


CHECK = r"FunctionTranslator\}::(check_deopt|check_deopt_working|_check_deopt_new)$"
PANIC = r"core::panicking::|core::result::unwrap_failed|core::option::(unwrap|expect)_failed|std::rt::begin_panic"


def emitted_names(F, reg):
    """helper names that the translator can emit: string constants of its methods and of op_to_name_payload"""
    names = set()
    fns = list(translator(F)) + F.find(r"^steel::jit2::cgen::(try_)?op_to_name_payload$")
    for fn in fns:
        for _, _, e in fn.events("kv"):
            if e[2].startswith("str:") and e[2][4:] in reg:
                names.add(e[2][4:])
        for _, b in fn.calls():
            for a in b["args"]:
                if a.startswith("str:") and a[4:] in reg:
                    names.add(a[4:])
    return names


def dynamic_names(F, reg):
    f = F.find(r"^steel::jit2::cgen::(try_)?op_to_name_payload$")
    out = set()
    for fn in f:
        for _, _, e in fn.events("kv"):
            if e[2].startswith("str:") and e[2][4:] in reg:
                out.add(e[2][4:])
    return out


def helper_panic_rule(F, R, rid):
    R.rule(rid, "a JIT runtime helper never turns a script-level error into a host panic: in every helper the translator can "
                "emit (and the jit-module functions it calls, ≤ 3 levels), the Err outcome of a value-level operation (a function "
                "of SteelVal arguments only that returns Result<SteelVal, SteelErr>: a native primitive — type error, "
                "division by zero, index out of range — or a VmCore method returning Result<_, SteelErr>, e.g. installing a "
                "callee's frame, which raises the arity and stack-overflow errors) is not "
                "unwrapped/expected, and the non-Ok side of a test of that Result does not lead to a panic "
                "(unreachable!/panic!/assert)")
    reg = registry(F)
    # every helper registered in the JIT's symbol table can be called from generated code (the names emitted through the
    # per-arity name families are computed at translation time), so all of them are checked
    em = set(reg)
    R.floor(rid, "registered JIT helpers", len(em), 150)
    n = 0
    for name in sorted(em):
        fam = helper_family(F, reg[name], 3)
        bad = []
        for fname in sorted(fam):
            fn = F.fns.get(fname)
            if not fn:
                continue
            prods = {}
            for i, b in fn.calls():
                c = F.fns.get(b["callee"])
                out = c.d["out"] if c else ""
                d = re.match(r"_\d+", b.get("dest") or "")
                ins = c.d.get("in") if c else None
                value_level = bool(ins) and all(re.match(r"^&?(mut )?\[?SteelVal\]?$", x) for x in ins)
                if d and out.startswith("Result<SteelVal") and b["callee"].startswith("steel::") and value_level and \
                        not re.search(r"into_steelval$|IntoSteelVal", b["callee"]):
                    prods[d.group(0)] = (i, b)
                # interpreter operations that fail on script errors (installing a callee's frame raises the arity and the
                # stack-overflow errors): any VmCore method returning Result<_, SteelErr>
                elif d and out.startswith("Result<") and "SteelErr" in out and re.search(r"\{impl VmCore\}::", b["callee"]):
                    prods[d.group(0)] = (i, b)
            if not prods:
                continue
            for i, b in fn.calls():
                if re.search(r"Result<T,E>\}::(unwrap|expect)$", b["callee"]) and b["args"]:
                    src = {m.group(1) for a in lib.alias_sources(fn, b["args"][0].strip("()*"))
                           for m in [re.match(r"^\(?\*?(_\d+)\)?$", a)] if m}
                    hit = [prods[x] for x in src if x in prods]
                    if hit:
                        bad.append("%s unwraps the result of %s (line %s)" % (lib.short_name(fname), lib.short_name(hit[0][1]["callee"]), b["line"]))
            for sb in lib.enum_switches(fn, "Result"):
                blk = fn.blocks[sb]
                loc = re.match(r"_\d+", blk["place"].strip("()*"))
                if not loc:
                    continue
                src = {m.group(1) for a in lib.alias_sources(fn, loc.group(0))
                       for m in [re.match(r"^\(?\*?(_\d+)\)?$", a)] if m} | {loc.group(0)}
                hit = [prods[x] for x in src if x in prods]
                if not hit:
                    continue
                am = lib.arm_map(fn, sb)
                okt = am.get("Ok")
                errt = am.get("Err", am.get("_"))
                if errt is None or errt == okt:
                    continue
                region = fn.reachable_from([errt], avoid=[okt] if okt is not None else [])
                # blocks also reachable from the Ok side are past the join
                okreg = fn.reachable_from([okt]) if okt is not None else set()
                pan = [x for x in region - okreg if fn.blocks[x]["k"] == "call" and re.search(PANIC, fn.blocks[x]["callee"])]
                if pan:
                    bad.append("%s panics when %s returns Err (line %s)" % (
                        lib.short_name(fname), lib.short_name(hit[0][1]["callee"]), fn.blocks[pan[0]].get("line")))
        n += 1
        R.inst(rid, "JIT helper %s hands a primitive's error to the interpreter" % name, not bad,
               "JIT helper '%s': %s — a script error (wrong argument type, division by zero) inside a JIT-compiled "
               "function aborts the host process where the interpreter returns an error value" % (name, "; ".join(bad)),
               F.fns[reg[name]].loc() if reg[name] in F.fns else "", sample=(n % 10 == 0))


DEOPT_ALLOW = {
    "FunctionTranslator::eof_object": "calls the generic primitive-call helper with the one-argument predicate eof-object?, "
                                      "which has no error outcome (the source says so at the site)",
}


def deopt_rule(F, R, rid):
    R.rule(rid, "JIT-compiled code does not keep running after a helper has failed: every emission of a fallible helper (one "
                "whose Rust body, or a jit-module callee ≤ 3 levels, stores into VmCore.result — 'stash the error, leave "
                "native mode, return void') is followed by a deopt check (check_deopt: test is_native, return) on every path "
                "before the next helper is emitted; emissions whose helper name is computed (op_to_name_payload) count as "
                "fallible when any name that function can return is; methods that may return with an unchecked emission "
                "pending are treated as emissions in their callers (fixpoint)")
    reg = registry(F)
    fal = set(fallible(F, reg))
    dyn = dynamic_names(F, reg)
    dyn_fal = sorted(dyn & fal)
    tr = translator(F)
    byname = {f.name: f for f in tr}
    checks = set()
    for f in tr:
        cb = f.call_blocks(CHECK)
        if cb and f.every_path_passes_from([0], f.returns(), cb)[0]:
            checks.add(f.name)
    if not any(re.search(r"::check_deopt$", n) for n in byname):
        raise CheckError("anchor lost: FunctionTranslator::check_deopt")
    # translator methods nobody reaches (left-over code) are not part of the emitter
    tr, dead = live_translator(F)
    byname = {f.name: f for f in tr}
    if dead:
        R.note("%s: translator methods without a live caller (not analysed): %s" % (rid, ", ".join(sorted(f.short() for f in dead))))
    emcache = {f.name: emissions(f, F, reg) for f in tr}
    unresolved = [(f.short(), f.blocks[i].get("line")) for f in tr for i, nm in emcache[f.name] if not nm]
    if unresolved:
        raise CheckError("could not resolve the helper name of %d emission(s): %s" % (len(unresolved), unresolved[:4]))
    pending = {}
    direct = {}
    changed = True
    rounds = 0
    while changed and rounds < 20:
        changed = False
        rounds += 1
        for f in tr:
            if re.search(CHECK, f.name):
                continue
            ems = []
            for i, names in emcache[f.name]:
                nf = names & fal
                if nf:
                    ems.append((i, nf, True))
            for i, b in f.calls():
                if pending.get(b["callee"]):
                    ems.append((i, set(pending[b["callee"]]), False))
            cps = set(f.call_blocks(CHECK)) | {i for i, b in f.calls() if b["callee"] in checks}
            allem = {i for i, _ in emcache[f.name]} | {i for i, b in f.calls() if pending.get(b["callee"])}
            for i, names, is_direct in ems:
                reach = f.reachable_from(f.succ(i), avoid=cps)
                if is_direct and [e for e in allem if e in reach]:
                    direct.setdefault((f.name, i), set()).update(names)
                if set(f.returns()) & reach:
                    old = pending.get(f.name, set())
                    if not names <= old:
                        pending[f.name] = old | names
                        changed = True
    # a direct emission is also unchecked when its method returns with it pending and some caller goes on emitting
    for f in tr:
        if re.search(CHECK, f.name):
            continue
        for i, names in emcache[f.name]:
            nf = names & fal
            if not nf:
                continue
            cps = set(f.call_blocks(CHECK)) | {j for j, b in f.calls() if b["callee"] in checks}
            reach = f.reachable_from(f.succ(i), avoid=cps)
            if set(f.returns()) & reach and f.name in pending:
                direct.setdefault((f.name, i), set()).update(nf)
    n = 0
    for f in sorted(tr, key=lambda x: x.name):
        for i, names in emcache[f.name]:
            nf = names & fal
            if not nf:
                continue
            n += 1
            key_names = sorted(nf)
            bad = (f.name, i) in direct
            if bad and f.short() in DEOPT_ALLOW:
                R.inst(rid, "%s / emission of %s (allowlisted)" % (f.short(), "|".join(key_names)), True,
                       sample={"reason": DEOPT_ALLOW[f.short()]}, nontrivial=False)
                continue
            R.inst(rid, "%s / emission of %s is followed by a deopt check" % (f.short(), "|".join(key_names)), not bad,
                   "%s emits the fallible helper %s (line %s) and goes on emitting code without a deopt check: when the "
                   "helper fails at run time (e.g. car of an empty list) the compiled function keeps executing with a void "
                   "result — later side effects (vector-set!, set-box!, …) happen although the interpreter would have "
                   "stopped, and the next call helper trips debug_assert!(ctx.is_native)" % (
                       f.short(), "|".join(key_names), f.blocks[i].get("line")), f.loc(f.blocks[i].get("line")),
                   sample=(n % 5 == 0))
    R.floor(rid, "emissions of fallible JIT helpers", n, 15)
    R.note("%s: fallible helpers (store into VmCore.result): %s" % (rid, ", ".join(sorted(fal))))


def name_table_gate_rule(F, R, rid):
    R.rule(rid, "the translator never meets an (opcode, argument count) it has no handler for: the opcodes whose entries in the "
                "JIT's name table (op_to_name_payload) depend on the payload — the argument count taken from the instruction "
                "stream — while the lookup panics for a missing entry, are all covered by a gate that consults the same table "
                "and runs in compile_bytecode before JIT::compile (table/gate agreement); otherwise compiling a function that "
                "contains e.g. (< a b c) aborts the host")
    tabs = F.find(r"^steel::jit2::cgen::(try_)?op_to_name_payload$")
    if not tabs:
        raise CheckError("anchor lost: jit2::cgen::op_to_name_payload")
    table = max(tabs, key=lambda f: len(f.blocks))
    sws = lib.enum_switches(table, "OpCode")
    if not sws:
        raise CheckError("anchor lost: op_to_name_payload does not match on the opcode")
    am = lib.arm_map(table, sws[0])
    specific = set()
    for v, t in am.items():
        if v == "_":
            continue
        b = t
        for _ in range(6):
            blk = table.blocks[b]
            if blk["k"] == "goto" and len(blk["s"]) == 1:
                b = blk["s"][0]
                continue
            break
        blk = table.blocks[b]
        if blk["k"] == "switch" and not blk["on"].startswith("enum:") and blk["on"] != "bool":
            specific.add(v)
    R.floor(rid, "opcodes with argument-count specific handlers", len(specific), 6)
    # can the lookup used by the translator panic?
    lookup = F.one(r"^steel::jit2::cgen::op_to_name_payload$")
    fam = [lookup] + [F.fns[c] for c in F.callees(lookup) if c in F.fns and c.startswith("steel::jit2::")]
    panics = any(re.search(PANIC, b["callee"]) for f in fam for _, b in f.calls())
    if not panics:
        R.inst(rid, "the handler lookup has a non-panicking outcome for a missing entry", True, sample=True)
        return
    # the gate: reached from compile_bytecode, calls the table, before JIT::compile
    cb = F.one(r"^steel::jit2::cgen::compile_bytecode$")
    comp = cb.call_blocks(r"\{impl JIT\}::compile$")
    if not comp:
        raise CheckError("anchor lost: compile_bytecode no longer calls JIT::compile")
    gate_ops = set()
    tabnames = {f.name for f in tabs}
    seen = set()
    frontier = [(cb.name, 0)]
    gates = []
    while frontier:
        n, d = frontier.pop()
        if n in seen or d > 3:
            continue
        seen.add(n)
        f = F.fns.get(n)
        if not f or not n.startswith("steel::jit2::") or "FunctionTranslator" in n or "{impl JIT}::compile" in n:
            continue
        calls_tab = [i for i, b in f.calls() if b["callee"] in tabnames]
        if calls_tab and n != cb.name:
            gates.append((f, calls_tab))
        for c in F.callees(f, expand_unresolved=False):
            frontier.append((c, d + 1))
    for f, calls_tab in gates:
        for sb in lib.enum_switches(f, "OpCode"):
            for v, t in lib.arm_map(f, sb).items():
                if v != "_" and any(c in f.reachable_from([t]) for c in calls_tab):
                    gate_ops.add(v)
    R.inst(rid, "compile_bytecode gates translation on the name table", bool(gates),
           "compile_bytecode translates whatever bytecode it is given, and the translator's handler lookup panics for an "
           "(opcode, argument count) without an entry: a script function using such a call form aborts the host when it is "
           "JIT-compiled", cb.loc(), sample={"gate": [g.short() for g, _ in gates]})
    # ---- the per-arity helper families (Call…Definitions::arity_to_name(n) -> Option<&str>): a translator method that
    # unwraps the lookup for a count taken from the instruction stream relies on the gate having consulted the same family
    gate_fams = set()
    for f, _ in gates + [(cb, [])]:
        for _, b in f.calls():
            m = re.search(r"\{impl (\w+)\}::arity_to_name$", b["callee"])
            if m:
                gate_fams.add(m.group(1))
    live, _dead = live_translator(F)
    nfam = 0
    for f in live:
        kv = kvmap(f)
        for i, b in f.calls():
            m = re.search(r"\{impl (\w+)\}::arity_to_name$", b["callee"])
            if not m or not b["args"]:
                continue
            d = re.match(r"_\d+", b.get("dest") or "")
            if not d:
                continue
            unwrapped = False
            for j, b2 in f.calls():
                if re.search(r"\{impl Option<T>\}::(unwrap|expect)$", b2["callee"]) and b2["args"]:
                    for t in lib.TOK.findall(b2["args"][0]):
                        if d.group(0) in (lib.alias_sources(f, t, depth=4) | {t}):
                            unwrapped = True
            if not unwrapped:
                continue
            cs = consts(f, kv, b["args"][0])
            if any(x.startswith("const:") for x in cs):
                continue
            # a parameter whose every caller passes a constant is not taken from the instruction stream
            arg_is_param_const = False
            pm = re.match(r"^\(?\*?_(\d+)\)?$", b["args"][0])
            if pm and 1 <= int(pm.group(1)) <= len(f.d.get("in") or []):
                k = int(pm.group(1))
                cl = _callers(F).get(f.name, [])
                if cl and all(k - 1 < len(cb2["args"]) and any(x.startswith("const:") for x in consts(f2, kvmap(f2), cb2["args"][k - 1]))
                              for f2, _, cb2 in cl):
                    arg_is_param_const = True
            if arg_is_param_const:
                continue
            # a method all of whose call sites sit behind a compile-time false condition (`&& false`) is not emitted
            from . import shared as _shared
            cl = _callers(F).get(f.name, [])
            if cl and all(ci not in _shared.live_blocks(f2) for f2, ci, _ in cl):
                continue
            nfam += 1
            R.inst(rid, "%s unwraps %s::arity_to_name(count): the gate consults the same family" % (f.short(), m.group(1)),
                   m.group(1) in gate_fams,
                   "%s unwraps %s::arity_to_name for an argument count taken from the instruction stream (line %s), but the gate "
                   "in compile_bytecode does not ask that family: a function whose bytecode carries a count without a helper (e.g. "
                   "a self tail call with 11 arguments in module code) aborts the host when it is JIT-compiled; with "
                   "STEEL_JIT=false it runs" % (f.short(), m.group(1), b.get("line")), f.loc(b.get("line")), sample=True)
    for v in sorted(specific):
        R.inst(rid, "opcode %s: argument counts without a handler are rejected before translation" % v,
               v in gate_ops or not gates and False,
               "the JIT's name table has handlers for %s only for some argument counts and the lookup panics otherwise, but "
               "the gate in compile_bytecode does not check %s: (define (f a b c) (%s a b c)) aborts the host when f is "
               "JIT-compiled" % (v, v, v.lower()), table.loc(), sample=False)


def branch_facts_rule(F, R, rid):
    R.rule(rid, "what the translator learns inside one arm of an `if` does not leak: every fact table of FunctionTranslator — a "
                "HashMap field whose values are Properties or InferredType, i.e. what later selects unchecked or type-specialised "
                "handlers — is saved (cloned) in translate_if_else_value before the then-arm is translated, and written back "
                "between the two arm translations and again after the else-arm (sibling agreement with shadow_stack / "
                "let_var_stack). Otherwise a fact established on one path (car succeeded => non-empty list) licenses an "
                "unchecked handler on a path where it does not hold: undefined behaviour")
    adt = F.adt("FunctionTranslator")
    tables = []
    for v in adt["variants"]:
        for f in v["fields"]:
            if re.search(r"HashMap<", f["ty"]) and re.search(r"\b(Properties|InferredType)\b", f["ty"]):
                tables.append(f["name"])
    if len(tables) < 2:
        raise CheckError("anchor lost: fact tables of FunctionTranslator (%s)" % tables)
    fn = F.one(r"\{impl FunctionTranslator\}::translate_if_else_value$")
    arms = sorted(fn.call_blocks(r"\{impl FunctionTranslator\}::stack_to_ssa$"))
    if len(arms) < 2:
        raise CheckError("anchor lost: translate_if_else_value no longer translates two arms")
    first, second = arms[0], arms[1]
    dom = fn.dominators()
    for t in sorted(tables):
        reads = [i for i, _, e in fn.events("fld") if e[1] == "FunctionTranslator" and e[2] == t and e[3][0] in "rb"]
        writes = [i for i, _, e in fn.events("fld") if e[1] == "FunctionTranslator" and e[2] == t and e[3][0] in "wd"]
        saved = any(r in dom[first] for r in reads)
        between = any(first in dom[w] and w in dom[second] for w in writes)
        after = any(second in dom[w] for w in writes)
        R.inst(rid, "FunctionTranslator.%s is branch-local (saved, restored for the else arm and after the join)" % t,
               saved and between and after,
               "translate_if_else_value does not save FunctionTranslator.%s before the then-arm and restore it %s: facts "
               "recorded while translating one arm (e.g. `this register holds a non-empty list` after a car) are still "
               "believed on the other arm / after the join, where an unchecked handler is then emitted — "
               "(define (f v flag) (if flag (car v) 0) (car v)) with v = 5 reaches unreachable_unchecked" % (
                   t, "before the else-arm" if not between else "after the else-arm" if not after else "(not saved)"),
               fn.loc(), sample={"saved": saved, "between": between, "after": after})


def assigned_local_rule(F, R, rid):
    R.rule(rid, "a local that is assigned loses its facts: the translator's arm for SETLOCAL removes the local's entry from "
                "every fact table (HashMap fields of FunctionTranslator with Properties / InferredType values) — otherwise "
                "`(car v) (set! v 5) (car v)` emits the unchecked car for the new value")
    adt = F.adt("FunctionTranslator")
    tables = [f["name"] for v in adt["variants"] for f in v["fields"]
              if re.search(r"HashMap<", f["ty"]) and re.search(r"\b(Properties|InferredType)\b", f["ty"])]
    best = None
    for n, fn in F.fns.items():
        if "jit2::cgen::{impl FunctionTranslator}::stack_to_ssa" in n and not n.endswith("}"):
            for sb in lib.enum_switches(fn, "OpCode"):
                k = len(fn.blocks[sb]["targets"])
                if best is None or k > best[0]:
                    best = (k, fn, sb)
    if best is None:
        raise CheckError("anchor lost: translator opcode match")
    _, tr, sb = best
    am = lib.arm_map(tr, sb)
    if "SETLOCAL" not in am or am["SETLOCAL"] == am.get("_"):
        R.inst(rid, "translator has an arm for SETLOCAL", True, sample={"note": "no SETLOCAL arm: assigned locals are not compiled"},
               nontrivial=False)
        return
    region = tr.reachable_from([am["SETLOCAL"]], avoid=set(tr.dominators()[sb]))
    for t in sorted(tables):
        touched = [b for b in region for e in tr.blocks[b]["e"] if e[0] == "fld" and e[1] == "FunctionTranslator" and e[2] == t
                   and e[3][0] in "mw"]
        removes = [b for b in region if tr.blocks[b]["k"] == "call" and re.search(r"HashMap<K,V,S,A>\}::remove$", tr.blocks[b]["callee"])]
        ok = bool(touched) and len(removes) >= 1 and any(
            any(r in tr.reachable_from([x]) for r in removes) for x in touched)
        R.inst(rid, "SETLOCAL arm forgets FunctionTranslator.%s of the assigned local" % t, ok,
               "the translator's SETLOCAL arm does not remove the assigned local from FunctionTranslator.%s: a fact about the "
               "old value (non-empty list, int) is applied to the new one, and an unchecked / type-specialised handler is "
               "emitted for it" % t, tr.loc(), sample=True)


def _error_kinds(F, fnname, depth, seen=None):
    """ErrorKind variants constructed by a function, the closures it builds and its steel_vm callees (≤ depth levels)"""
    seen = seen if seen is not None else set()
    out = set()
    if fnname in seen or fnname not in F.fns:
        return out
    seen.add(fnname)
    fn = F.fns[fnname]
    for _, e in lib.family_events(F, fn, "kv"):
        if e[2].startswith("variant:ErrorKind::"):
            out.add(e[2].split("::")[-1])
    if depth > 0:
        for c in F.callees(fn, expand_unresolved=False):
            if c.startswith("steel::steel_vm::"):
                out |= _error_kinds(F, c, depth - 1, seen)
    return out


def tier_error_agreement_rule(F, R, rid):
    R.rule(rid, "the native tier raises what the interpreter raises for the same instruction: for every opcode whose "
                "interpreter arm itself (its own blocks in VmCore::vm, up to the next dispatch) constructs an error of kind K "
                "— an arity, type or syntax error decided right there, not inside a shared callee — and whose translator arm "
                "(FunctionTranslator::stack_to_ssa, with the translator methods it calls, two levels) emits registered runtime "
                "helpers, some of those helpers (with their steel_vm callees, three levels) constructs kind K as well. A "
                "helper that lost the check lets compiled code carry on where the interpreter stops with an error "
                "(sibling agreement; opcodes without a resolvable helper are not judged)")
    reg = registry(F)
    vm = F.one(r"^steel::steel_vm::vm::\{impl VmCore(<'a>)?\}::vm$")
    sws = lib.enum_switches(vm, "OpCode")
    if not sws:
        raise CheckError("anchor lost: VmCore::vm no longer dispatches on OpCode")
    sb = max(sws, key=lambda b: len(vm.blocks[b]["targets"]))
    am = lib.arm_map(vm, sb)
    dom = vm.dominators()
    heads = set(t for u in vm.normal_blocks() for t in vm.succ(u) if t in dom.get(u, ()))
    tg = set(am.values())
    inline = {}
    for v, t in am.items():
        if v == "_":
            continue
        ks = set()
        for i in vm.reachable_from([t], avoid=heads | {sb} | (tg - {t})):
            for e in vm.blocks[i]["e"]:
                if e[0] == "kv" and e[2].startswith("variant:ErrorKind::"):
                    ks.add(e[2].split("::")[-1])
        if ks:
            inline[v] = ks
    tr = F.one(r"jit2::cgen::\{impl FunctionTranslator\}::stack_to_ssa$")
    sws2 = lib.enum_switches(tr, "OpCode")
    if not sws2:
        raise CheckError("anchor lost: FunctionTranslator::stack_to_ssa no longer dispatches on OpCode")
    sb2 = max(sws2, key=lambda b: len(tr.blocks[b]["targets"]))
    am2 = lib.arm_map(tr, sb2)
    tg2 = set(am2.values())
    tables = F.find(r"^steel::jit2::cgen::op_to_name_payload$")
    skip = re.compile(r"::(stack_to_ssa|call_function_returns_value\w*|check_deopt\w*|_check_deopt\w*)$")
    judged = 0
    for v, ks in sorted(inline.items()):
        t = am2.get(v)
        names = set()
        for tb in tables:
            names |= _table_names(F, tb.name, {v}, reg)
        if t is not None and t != am2.get("_"):
            for i in tr.reachable_from([t], avoid={sb2} | (tg2 - {t})):
                b = tr.blocks[i]
                for e in b["e"]:
                    if e[0] == "kv" and e[2].startswith("str:") and e[2][4:] in reg:
                        names.add(e[2][4:])
                if b["k"] == "call" and "FunctionTranslator" in b["callee"] and b["callee"] in F.fns and not skip.search(b["callee"]):
                    names |= _names_in_body(F, b["callee"], reg)
                    for _, b2 in F.fns[b["callee"]].calls():
                        if "FunctionTranslator" in b2["callee"] and b2["callee"] in F.fns and not skip.search(b2["callee"]):
                            names |= _names_in_body(F, b2["callee"], reg)
        if not names:
            R.inst(rid, "%s / no registered helper resolved for this opcode (not judged)" % v, True, nontrivial=False)
            continue
        judged += 1
        jk = set()
        for n in names:
            jk |= _error_kinds(F, reg[n], 3)
        missing = sorted(ks - jk)
        R.inst(rid, "%s / helpers %s can raise %s like the interpreter arm" % (v, "/".join(sorted(names)[:3]), "/".join(sorted(ks))),
               not missing,
               "the interpreter's %s arm raises %s itself, but none of the runtime helpers the translator emits for %s (%s) "
               "constructs that error: with the JIT on the instruction goes on where the interpreter reports an error "
               "(e.g. a self tail call with the wrong number of arguments re-enters the frame with a misaligned stack)" % (
                   v, "/".join(missing), v, ", ".join(sorted(names))),
               F.fns[reg[sorted(names)[0]]].loc() if reg[sorted(names)[0]] in F.fns else tr.loc(), sample=True)
    R.floor(rid, "opcodes with an inline interpreter check and a resolvable native helper", judged, 3)
