"""C17 — a running script can always be interrupted (DESIGN §4 C17).

Decided clauses: (a) every cycle of the interpreter's dispatch loop polls the pause/interrupt flag and propagates the
error, (b) native (JIT) loop back-edges poll, (c) the safepoint wait does not swallow an interrupt, (d) an interrupt
raises, (e) ThreadStateController::interrupt publishes both the flag and the state.
Not decided: the bound on steps; schedules in which a concurrent stop/resume overwrites the interrupt state.
"""
import re

from . import lib, shared
from .lib import CheckError

POLL = r"\{impl VmCore\}::safepoint_or_interrupt$"


def native_backedge_rule(F, R, rid, why):
    """C16.b / C17.b: every FunctionTranslator routine that emits a branch to the native loop header
    (FunctionTranslator.fake_entry_block) must be accompanied by a polling helper."""
    emitters = []
    _, callers = F.graph()
    for n, fn in F.fns.items():
        if not re.search(r"^steel::jit2::cgen::\{impl FunctionTranslator\}::", n):
            continue
        reads = any(e[1] == "FunctionTranslator" and e[2] == "fake_entry_block" for _, _, e in fn.events("fld"))
        br = fn.call_blocks(r"InstBuilder::(brif|jump|br_table)$") or fn.call_blocks(r"::(brif|jump)$")
        if reads and br and callers.get(n):  # dead emitters (no caller) emit nothing
            emitters.append(fn)
    R.floor(rid, "native back-edge emitters", len(emitters), 2)
    # helpers callable from native code that reach the poll
    helpers = [n for n, f in F.fns.items() if n.startswith("steel::steel_vm::vm::jit::") and "C" in f.d.get("abi", "")]
    R.floor(rid, "extern C JIT helpers", len(helpers), 100)
    pollers = [h for h in helpers if F.reaches(h, POLL, maxdepth=3,
                                               stop=lambda n: n.endswith("{impl VmCore}::vm"))]
    for fn in emitters:
        tree = F.reach([fn.name], stop=lambda n: not n.startswith("steel::jit2::"))
        named = [t for t in tree if re.search(r"(safepoint|interrupt|poll)", lib.split_path(t)[-1], re.I)]
        ok = bool(pollers) and bool(named)
        R.inst(rid, "%s / native back-edge without poll" % fn.short(), ok,
               "%s emits a native branch back to the loop header (FunctionTranslator.fake_entry_block) but no helper "
               "reachable from generated code calls VmCore::safepoint_or_interrupt (%d of %d extern helpers reach it) and "
               "the emitter emits no poll: %s" % (fn.short(), len(pollers), len(helpers), why), fn.loc(),
               sample={"pollers": len(pollers)})


def run(F, R, ctx):
    _run(F, R, ctx)
    interrupt_sticky_rule(F, R)


def _run(F, R, ctx):
    R.rule("C17.a", "in VmCore::vm the call to safepoint_or_interrupt lies on every cycle through the opcode dispatch and "
                    "dominates it, and its Err is propagated to a return")
    R.rule("C17.b", "every native loop back-edge emitter is accompanied by a polling helper (same construct as C16.b)")
    R.rule("C17.c", "the waits in enter_safepoint/enter_safepoint_once break out when the state is Interrupted before parking")
    R.rule("C17.d", "safepoint_or_interrupt: reads the paused flag, and its ThreadState::Interrupted arm constructs an error "
                    "and returns it without parking")
    R.rule("C17.e", "ThreadStateController::interrupt stores paused=true and state=Interrupted; resume clears both")
    vm, sb = shared.vm_dispatch(F)
    polls = vm.call_blocks(POLL)
    R.inst("C17.a", "VmCore::vm / polls safepoint_or_interrupt", bool(polls),
           "VmCore::vm never calls safepoint_or_interrupt: an interpreted loop cannot be interrupted or paused", vm.loc(), sample=True)
    if polls:
        dom = vm.dominators()
        R.inst("C17.a", "VmCore::vm / poll dominates the dispatch", any(p in dom[sb] for p in polls),
               "the interrupt poll does not dominate the opcode dispatch switch", vm.loc(vm.blocks[sb]["line"]), sample=True)
        cyc = vm.reachable_from(vm.succ(sb), avoid=set(polls))
        R.inst("C17.a", "VmCore::vm / every dispatch cycle passes through the poll", sb not in cyc,
               "there is a cycle through the opcode dispatch of VmCore::vm that does not call safepoint_or_interrupt: "
               "a program looping on that path ignores interrupts and never reaches a safepoint", vm.loc(vm.blocks[sb]["line"]),
               sample=True)
        ok = False
        for p in polls:
            # error exit: from the poll's return block a return is reachable without going through the dispatch
            r = vm.reachable_from(vm.succ(p), avoid={sb})
            br = [b for b in r if vm.blocks[b]["k"] == "call" and re.search(r"Try.*::branch$|::branch$", vm.blocks[b]["callee"])]
            ok = ok or (bool(set(vm.returns()) & r) and bool(br))
        R.inst("C17.a", "VmCore::vm / poll result propagated (?)", ok,
               "the Result of safepoint_or_interrupt is not propagated to a return of VmCore::vm", vm.loc(), sample=True)
    native_backedge_rule(F, R, "C17.b", "a compiled loop cannot be interrupted")

    # ---- c
    for nm in ("enter_safepoint", "enter_safepoint_once"):
        fn = F.one(r"^steel::steel_vm::vm::\{impl SteelThread\}::%s$" % nm)
        ok, _ = lib.leaves_wait_on_interrupt(F, fn)
        R.inst("C17.c", "SteelThread::%s / wait loop exits on Interrupted" % nm, ok,
               "the wait loop of SteelThread::%s no longer tests ThreadState::Interrupted before parking: a thread that is "
               "interrupted while it waits at a safepoint sleeps until somebody resumes it" % nm, fn.loc(), sample=True)
    # the poll's own parking wait: a thread parked for somebody else's stop-the-world is resumed with the pause flag still
    # raised when an interrupt is pending (resume_from_safepoint), so its wait must leave on Interrupted as well
    sp_ = F.one(r"^steel::steel_vm::vm::" + POLL)
    helpers_ = lib.park_helpers(F)
    waits_ = [helpers_[b_["callee"]] for _, b_ in sp_.calls() if b_["callee"] in helpers_]
    if sp_.call_blocks(r"std::thread::(functions::)?park$"):
        waits_.append(sp_)
    for h_ in {w.name: w for w in waits_}.values():
        ok_, _ = lib.leaves_wait_on_interrupt(F, h_)
        R.inst("C17.c", "%s / the poll's parking wait leaves on Interrupted" % h_.short(), ok_,
               "%s parks while the pause flag is raised and never looks at the thread state: a thread that is parked at the "
               "instruction poll for another thread's stop-the-world when the interrupt arrives is resumed with the flag still "
               "raised (for the interrupt), finds it raised, and parks again for good — the evaluation is never stopped (an "
               "engine looping next to a thread that assigns globals: the watchdog's interrupt is lost within a few runs)" % h_.short(),
               h_.loc(), sample=True)
    R.inst("C17.c", "the instruction poll parks through a wait this rule can see", bool(waits_),
           "safepoint_or_interrupt no longer parks (directly or through a helper that parks in a loop): anchor changed", sp_.loc(),
           nontrivial=False)
    # ---- d
    sp = F.one(r"^steel::steel_vm::vm::" + POLL)
    reads_paused = any(e[1] == "ThreadStateController" and e[2] == "paused" for _, _, e in sp.events("fld"))
    R.inst("C17.d", "safepoint_or_interrupt / reads the paused flag", reads_paused,
           "safepoint_or_interrupt no longer reads ThreadStateController.paused", sp.loc(), sample=True)
    sws = lib.enum_switches(sp, "ThreadState")
    ok = bool(sws)
    for sw in sws:
        m = lib.arm_map(sp, sw)
        it = m.get("Interrupted")
        if it is None:
            ok = False
            continue
        arm = lib.arm_reach(sp, sw, it)
        mk_err = any(sp.blocks[b]["k"] == "call" and re.search(r"\{impl SteelErr\}::new$", sp.blocks[b]["callee"]) for b in arm)
        parks = any(sp.blocks[b]["k"] == "call" and re.search(r"park", sp.blocks[b]["callee"]) for b in arm)
        same_as_running = it == m.get("Running", -1)
        ok = ok and mk_err and not parks and not same_as_running
    R.inst("C17.d", "safepoint_or_interrupt / Interrupted arm raises", ok,
           "the ThreadState::Interrupted arm of safepoint_or_interrupt does not construct and return an error (or parks)",
           sp.loc(), sample=True)
    # ---- e
    for nm, want_state in (("interrupt", "Interrupted"), ("resume", "Running")):
        fn = F.one(r"^steel::steel_vm::vm::\{impl ThreadStateController\}::%s$" % nm)
        st_flag = any(re.search(r"Atomic(Bool|<bool>)\}::store$", b["callee"]) for _, b in fn.calls())
        st_state = any(re.search(r"AtomicCell<T>\}::store$", b["callee"]) for _, b in fn.calls())
        agg = [e[2] for _, _, e in fn.events("agg") if e[1] == "ThreadState"]
        flagval = [b["args"] for _, b in fn.calls() if re.search(r"Atomic(Bool|<bool>)\}::store$", b["callee"])]
        want_flag = "const:1" if nm == "interrupt" else "const:0"
        okf = any(want_flag in a for a in flagval)
        if nm == "interrupt":
            # the state is published before the flag: a thread leaving a safepoint parks when it finds the flag raised and the
            # state not (yet) Interrupted, and nobody unparks a thread that is to be interrupted
            fl = [i for i, b in fn.calls() if re.search(r"Atomic(Bool|<bool>)\}::store$", b["callee"])]
            stt = [i for i, b in fn.calls() if re.search(r"AtomicCell<T>\}::store$", b["callee"])]
            order_ok = bool(fl) and bool(stt) and all(any(f_ in fn.reachable_from(fn.succ(s_)) for s_ in stt) for f_ in fl) and \
                not any(s_ in fn.reachable_from(fn.succ(f_)) for s_ in stt for f_ in fl)
            R.inst("C17.e", "ThreadStateController::interrupt publishes the state before the pause flag", order_ok,
                   "ThreadStateController::interrupt raises the pause flag before it stores ThreadState::Interrupted: a thread "
                   "leaving a safepoint between the two stores sees `paused` with a state that is not Interrupted, parks, and is "
                   "never unparked — the interrupt is lost and the evaluation hangs (observed about once in ten runs)",
                   fn.loc(), sample=True)
        R.inst("C17.e", "ThreadStateController::%s publishes paused=%s and state=%s" % (nm, want_flag[-1], want_state),
               st_flag and st_state and okf and want_state in agg,
               "ThreadStateController::%s no longer stores both the paused flag (%s) and ThreadState::%s" % (nm, want_flag, want_state),
               fn.loc(), sample={"flag_args": flagval, "states": agg})


RESUME_CALLERS = {
    "InterruptHandler::run_with_timeout": "the host's watchdog acknowledging the interrupt after the evaluation returned",
    "vm::threads::thread_resume": "the thread-resume primitive: an explicit request by the program",
}


def _excludes_interrupted(f, cas_calls):
    """the compare_exchange is not reachable from the edge on which the loaded state equals ThreadState::Interrupted: either
    an `==`/`!=` against the constant Interrupted whose 'equal' edge avoids it, or a match on ThreadState whose Interrupted
    arm avoids it"""
    cas_blocks = {i for i, b in f.calls() if any(b is c for c in cas_calls)}
    loads = {i for i, b in f.calls() if re.search(r"AtomicCell<T>\}::load$", b["callee"])}
    # locals holding the constant Interrupted
    consts = set()
    for b in f.blocks:
        for e in b["e"]:
            if e[0] == "kv" and str(e[2]) == "variant:ThreadState::Interrupted":
                consts.add(e[1])
    for i, b in f.calls():
        m = re.search(r"PartialEq<ThreadState> for ThreadState\}::(eq|ne)$", b["callee"])
        if not m:
            continue
        srcs = set()
        for a in b["args"]:
            for t_ in lib.TOK.findall(a):
                srcs |= {x for s_ in lib.alias_sources(f, t_, depth=4) for x in lib.TOK.findall(s_)} | {t_}
        if not (srcs & consts):
            continue
        t, fl = lib.bool_branch(f, i)
        eq_edge = t if m.group(1) == "eq" else fl
        if eq_edge is None:
            continue
        reach = f.reachable_from([eq_edge], avoid=loads)
        if not (reach & cas_blocks):
            return True
    for sb in lib.enum_switches(f, "ThreadState"):
        am = lib.arm_map(f, sb)
        if "Interrupted" in am and am["Interrupted"] != am.get("_"):
            reach = f.reachable_from([am["Interrupted"]], avoid=loads)
            if not (reach & cas_blocks):
                return True
    return False


def interrupt_sticky_rule(F, R):
    R.rule("C17.f", "a pending interrupt request is cleared only by an explicit resume: (1) ThreadStateController::resume — the "
                    "one operation that unconditionally stores Running — is called only by the host watchdog and the "
                    "thread-resume primitive, never by the stop-the-world protocol or by the VM's own poll; (2) every other "
                    "method of ThreadStateController that stores a state other than Interrupted (pause_for_safepoint, the undo "
                    "of it) does so by compare_exchange that is not reachable from the edge on which the loaded state equals Interrupted (an == / match against that constant), not by a plain store; "
                    "suspend is exempt (a program's own request). Otherwise an interrupt that arrives while the thread — or "
                    "any other thread — is defining or assigning a global is overwritten before it is seen")
    callers = []
    for n, fn in sorted(F.fns.items()):
        if not n.startswith("steel::"):
            continue
        for i, b in fn.calls():
            if re.search(r"\{impl ThreadStateController\}::resume$", b["callee"]):
                callers.append((fn, b))
    R.floor("C17.f", "callers of ThreadStateController::resume", len(callers), 2)
    seen = set()
    for fn, b in callers:
        key = fn.short()
        if key in seen:
            continue
        seen.add(key)
        ok = key in RESUME_CALLERS
        R.inst("C17.f", "%s may clear an interrupt (resume)" % key, ok,
               "%s calls ThreadStateController::resume (line %s), which stores Running unconditionally: an interrupt request "
               "that has not been delivered (or whose error a handler has caught) is discarded — a loop that assigns a global, "
               "or a supervisor that catches errors, can no longer be stopped by the host" % (key, b["line"]),
               fn.loc(b["line"]), sample={"reason": RESUME_CALLERS.get(key)})
    meths = [f for n, f in F.fns.items() if "{impl ThreadStateController}::" in n]
    n = 0
    for f in sorted(meths, key=lambda x: x.name):
        nm = f.short().split("::")[-1]
        if nm in ("resume", "interrupt", "suspend"):
            continue
        stores = [b for _, b in f.calls() if re.search(r"AtomicCell<T>\}::store$", b["callee"]) and b["targs"] and
                  "ThreadState" in b["targs"][0]]
        cas = [b for _, b in f.calls() if re.search(r"AtomicCell<T>\}::compare_exchange$", b["callee"]) and b["targs"] and
               "ThreadState" in b["targs"][0]]
        if not stores and not cas:
            continue
        n += 1
        loads = [b for _, b in f.calls() if re.search(r"AtomicCell<T>\}::load$", b["callee"]) and b["targs"] and
                 "ThreadState" in b["targs"][0]]
        cmp_int = bool(loads) and _excludes_interrupted(f, cas)
        R.inst("C17.f", "ThreadStateController::%s preserves a pending interrupt" % nm, not stores and bool(cas) and cmp_int,
               "ThreadStateController::%s stores a thread state unconditionally (AtomicCell::store) instead of exchanging it "
               "from a value it has checked against Interrupted: an interrupt requested just before is overwritten" % nm,
               f.loc(), sample={"plain_stores": len(stores), "compare_exchanges": len(cas)})
    R.floor("C17.f", "state-changing controller methods besides resume/interrupt/suspend", n, 1)
