"""Type-level model of 'can own a heap handle' (DESIGN §3 HANDLE(T))."""
import re

from . import lib

SEEDS = ("steel::values::closed::HeapRef", "steel::rvals::SteelVal")
DYN_SEEDS = ("dyn steel::rvals::CustomType",)


def owning(field):
    # weak references do not keep their target alive
    return "Weak" not in field["ty"]


def handle_bearing(F):
    hb = set(SEEDS)
    changed = True
    while changed:
        changed = False
        for n, a in F.adts.items():
            if n in hb or not n.startswith("steel"):
                continue
            for v in a["variants"]:
                for f in v["fields"]:
                    if owning(f) and any(m in hb or m in DYN_SEEDS for m in f["mentions"]):
                        hb.add(n)
                        changed = True
                        break
                if n in hb:
                    break
    for s in SEEDS:
        if s not in F.adts:
            raise lib.CheckError("anchor lost: type %s" % s)
    return hb


def hb_fields(F, adt, hb):
    """[(variant, field, type, [handle-bearing mentions])] of adt that can own a handle"""
    out = []
    for v in adt["variants"]:
        for f in v["fields"]:
            if not owning(f):
                continue
            ms = [m for m in f["mentions"] if m in hb or m in DYN_SEEDS]
            if ms:
                out.append((v["name"], f["name"], f["ty"], ms))
    return out


def adts_in_type(F, tystr):
    """steel ADTs named in a short type string"""
    out = []
    for ident in re.findall(r"[A-Za-z_][A-Za-z0-9_]*", tystr):
        for a in F.adts_short.get(ident, []):
            if a["name"].startswith("steel") and a not in out:
                out.append(a)
    return out


def fields_read(F, fn, depth=2, _seen=None):
    """set of (AdtShort, field) read anywhere in fn or in steel callees up to `depth` levels"""
    out = set()
    seen = _seen if _seen is not None else set()
    if fn.name in seen:
        return out
    seen.add(fn.name)
    for i, j, e in fn.events("fld", cleanup=True):
        out.add((e[1].split("::")[0], e[2]))
    if depth > 0:
        for c in F.callees(fn, expand_unresolved=False):
            # derived/structural impls touch every field without tracing anything: not evidence of a visit
            if re.search(r"\{impl (Clone|Debug|Drop|PartialEq|Eq|Hash|Default|Display|PartialOrd|Ord)\b", c):
                continue
            if c in F.fns and c.startswith("steel"):
                out |= fields_read(F, F.fns[c], depth - 1, seen)
    return out


def reader_blocks(F, fn, adt_short, field, depth=2):
    """blocks of fn in which (adt.field) is read: directly, inside a closure built there, or by a steel callee"""
    out = set()
    for i, e in lib.family_events(F, fn, "fld", cleanup=False):
        if e[1].split("::")[0] == adt_short and e[2] == field:
            out.add(i)
    for i, b in lib.family_calls(F, fn):
        c = b["callee"]
        if c in F.fns and c.startswith("steel") and not re.search(
                r"\{impl (Clone|Debug|Drop|PartialEq|Eq|Hash|Default|Display|PartialOrd|Ord)\b", c):
            if (adt_short, field) in fields_read(F, F.fns[c], depth - 1):
                out.add(i)
    return out
