"""C10 — exact arithmetic (DESIGN §4 C10).

Decided clause: no silently overflowing machine arithmetic on script integers.  Every operation on a signed machine
integer that can overflow, inside the numeric surface reachable from scripts, must be in a checked form or be
discharged by a recognised guard idiom.  Values (what the checked fallbacks compute) are not decided.
"""
import re

from . import lib, shared
from .lib import CheckError

SIGNED = ("isize", "i32", "i64", "i128", "Ratio<i32>")
SURFACE = re.compile(r"^steel::(primitives::numbers::|steel_vm::(vm|primitives|const_evaluation)::|rvals::\{impl Partial)")
RAW_BINOPS = {"Add", "Sub", "Mul", "Div", "Rem", "Shl", "Shr", "AddWithOverflow", "SubWithOverflow", "MulWithOverflow",
              "AddUnchecked", "SubUnchecked", "MulUnchecked", "ShlUnchecked", "ShrUnchecked"}
# methods on signed machine integers that can overflow / panic / wrap (by method name)
DIVLIKE = {"div", "rem", "div_floor", "mod_floor", "div_mod_floor", "div_euclid", "rem_euclid", "div_rem_euclid",
           "div_rem", "div_ceil"}
OVERFLOWING = {"abs", "neg", "shl", "shr", "pow", "add", "sub", "mul", "add_assign", "sub_assign", "mul_assign",
               "wrapping_add", "wrapping_sub", "wrapping_mul", "wrapping_neg", "wrapping_abs", "wrapping_pow",
               "wrapping_shl", "wrapping_shr", "saturating_add", "saturating_sub", "saturating_mul", "saturating_pow",
               "unchecked_add", "unchecked_sub", "unchecked_mul", "unchecked_shl", "unchecked_shr", "unchecked_neg",
               "isqrt", "sum", "product", "next_power_of_two", "shl_assign", "shr_assign",
               "floor", "ceil", "round", "fract", "recip", "inv"} | DIVLIKE
SAFE_PREFIX = ("checked_", "overflowing_", "is_", "to_", "from_", "try_", "leading_", "trailing_", "count_", "rotate_",
               "bit", "partial_")
SAFE_EXACT = {"not", "signum", "cmp", "eq", "ne", "lt", "le", "gt", "ge", "unsigned_abs", "clone", "min", "max", "zero",
              "one", "fmt", "abs_diff", "swap_bytes", "numer", "denom", "hash", "default", "new", "new_raw", "reduced",
              "clamp",
              # numer / denom with denom >= 1 (Ratio invariant): cannot overflow
              "div_by_denominator", "trunc"}
MIN_BITS = {"isize": "9223372036854775808", "i64": "9223372036854775808", "i32": "2147483648"}
NEG1_BITS = {"isize": "18446744073709551615", "i64": "18446744073709551615", "i32": "4294967295"}

# loop/bookkeeping counters that are not script integers: (function regex, reason)
ALLOW = [
    (r"^steel::steel_vm::vm::eval_program$", "i32 `depth` counter of nested closures in the bytecode being linked"),
]


def has_min_neg1_guard(fn, ty):
    vals = set()
    for b in fn.blocks:
        if b["k"] == "switch" and b["on"] == ty:
            for v, _ in b["targets"]:
                vals.add(v)
    return MIN_BITS.get(ty) in vals and NEG1_BITS.get(ty) in vals


def divisor_is_denominator(fn, arg):
    """the divisor operand is the result of Ratio::denom (always >= 1 for a normalised ratio)"""
    al = lib.alias_sources(fn, arg)
    for _, b in fn.calls():
        if b["dest"] in al and re.search(r"\{impl Ratio<T>\}::denom$", b["callee"]):
            return True
    return False


def sites(F, reach):
    out = []
    for n, fn in F.fns.items():
        if not SURFACE.search(n) or n not in reach or "::jit2::" in n:
            continue
        for i, j, e in fn.events():
            if e[0] == "binop" and e[2] in SIGNED and e[1] in RAW_BINOPS:
                out.append((fn, e[1].replace("WithOverflow", ""), e[2], e[3], "binop %s (%s, %s)" % (e[1], e[5], e[6])))
            elif e[0] == "unop" and e[2] in SIGNED:
                out.append((fn, "neg", e[2], e[3], "unary minus"))
        for i, b in fn.calls():
            c = b["callee"]
            ta = b["targs"]
            m = re.search(r"^core::num::\{impl (isize|i32|i64|i128)\}::(\w+)$", c)
            if m:
                out.append((fn, m.group(2), m.group(1), b["line"], "call %s::%s" % (m.group(1), m.group(2))))
                continue
            if ta and ta[0].lstrip("&") in SIGNED and re.match(r"^(num_|core::ops::arith|core::ops::bit|core::num|core::iter::traits::accum)", c):
                meth = lib.split_path(c)[-1]
                desc = "call %s" % lib.short_name(c)
                if meth in DIVLIKE and len(b["args"]) == 2 and divisor_is_denominator(fn, b["args"][1]):
                    meth = "div_by_denominator"
                out.append((fn, meth, ta[0].lstrip("&"), b["line"], desc))
    return out


def run(F, R, ctx):
    _run(F, R, ctx)
    float_cast_rule(F, R)
    both_operands_rule(F, R)
    same_field_rule(F, R)
    overflow_arm_rule(F, R)
    exact_comparison_rule(F, R)


def _run(F, R, ctx):
    R.rule("C10.a", "in the script-reachable numeric surface (primitives::numbers, VM arithmetic arms and helpers, "
                    "const evaluation, numeric comparison) every overflow-capable operation on a signed machine integer "
                    "is a checked_*/overflowing_* form, or a division guarded by an explicit (MIN, -1) test in the same "
                    "function, or allowlisted as a non-script counter")
    R.rule("C10.c", "the checked fast paths that promote to big integers are still present: add/sub/mul/neg/expt on "
                    "fixnums call checked_add/checked_sub/checked_mul/checked_neg/checked_pow")
    reach = shared.script_reach(F)
    ss = sites(F, reach)
    R.floor("C10.a", "signed-integer operation sites in the numeric surface", len(ss), 25)
    seen = {}
    for fn, meth, ty, line, desc in ss:
        safe = meth.startswith(SAFE_PREFIX) or meth in SAFE_EXACT
        key = "%s / %s on %s" % (fn.short(), meth, ty)
        if key in seen:
            continue
        if safe:
            ok, why = True, "checked/total form"
        elif any(re.search(rx, fn.name) for rx, _ in ALLOW):
            ok, why = True, "allowlisted: " + [r for rx, r in ALLOW if re.search(rx, fn.name)][0]
        elif meth in DIVLIKE or meth in ("Div", "Rem"):
            ok = has_min_neg1_guard(fn, ty)
            why = "division guarded by explicit (MIN,-1) arm" if ok else "no (MIN,-1) guard in the function"
        elif meth in OVERFLOWING or meth in ("Add", "Sub", "Mul", "Shl", "Shr"):
            ok, why = False, "raw overflow-capable operation"
        else:
            ok, why = True, "not overflow-capable"
        seen[key] = ok
        R.inst("C10.a", key, ok,
               "%s: %s on a %s that comes from a script integer can overflow (host panic in debug builds, silent wrap "
               "in release): %s" % (fn.short(), desc, ty, why), fn.loc(line),
               sample={"op": desc, "verdict": why}, nontrivial=not safe or meth.startswith("checked"))
    canonical_rule(F, R)
    # C10.c presence of promotions
    want = [
        (r"^steel::primitives::numbers::add_two$", r"checked_add$"),
        (r"^steel::primitives::numbers::multiply_two$", r"checked_mul$"),
        (r"^steel::primitives::numbers::negate$", r"checked_neg$"),
        (r"^steel::primitives::numbers::expt", r"checked_pow$"),
    ]
    for frx, crx in want:
        fns = F.some(frx)
        ok = any(f.call_blocks(crx) for f in fns)
        promo = any(f.call_blocks(r"(BigInt|BigRational|Ratio<T>)") or f.call_blocks(r"num_bigint::") for f in fns)
        R.inst("C10.c", "%s uses %s with a big-number fallback" % (lib.short_name(fns[0].name), crx.strip("$")), ok and promo,
               "%s no longer performs its fixnum fast path through %s with promotion to num_bigint on overflow" % (
                   fns[0].short(), crx.strip("$")), fns[0].loc(), sample=True)


# ------------------------------------------------------------------ canonical form of exact integers
CANON_ALLOW = {
    "steel::primitives::numbers::bitwise_not": "!x of a big integer x is in fixnum range only if x is (x -> -x-1 is a bijection of the fixnum range), so the result of the BigNum arm never fits a fixnum",
}


def canonical_rule(F, R):
    R.rule("C10.d", "canonical form: SteelVal::BigNum is constructed directly only (i) in the canonicalising conversion "
                    "<BigInt as IntoSteelVal>::into_steelval / Clone, (ii) from an existing BigNum payload passed through "
                    "unchanged, (iii) on the overflow (None/Err) branch of a checked_* / try_from / to_isize test or under a "
                    "range comparison; everything else must go through into_steelval, which demotes results that fit a "
                    "fixnum (number equality treats a fixnum and a bignum as different)")
    n = 0
    for name, fn in sorted(F.fns.items()):
        if not name.startswith("steel::") or "::jit2::" in name:
            continue
        sites = [(i, e) for i, _, e in fn.events("agg") if e[1] == "SteelVal" and e[2] == "BigNum"]
        if not sites:
            continue
        dom = None
        for i, e in sites:
            n += 1
            key = "%s / constructs SteelVal::BigNum" % fn.short()
            if re.search(r"\{impl IntoSteelVal for BigInt\}::into_steelval$|\{impl Clone for SteelVal\}::clone$", name):
                R.inst("C10.d", key + " (canonicalising converter / clone)", True, sample=True, nontrivial=False)
                continue
            if name in CANON_ALLOW:
                R.inst("C10.d", key + " (allowlisted)", True, sample={"reason": CANON_ALLOW[name]}, nontrivial=False)
                continue
            ok, why = False, ""
            ops = e[4] if len(e) > 4 else []
            for o in ops:
                if o.startswith("_"):
                    srcs = lib.alias_sources(fn, o, depth=8)
                    t = lib.tainted_locals(fn, [])  # placeholder to keep API symmetrical
                    if any(" as BigNum" in s_ for s_ in srcs):
                        ok, why = True, "passes an existing BigNum payload through"
            if not ok:
                # clone of an existing payload: Gc::clone(&payload)
                for o in ops:
                    if o.startswith("_"):
                        for _, cb in fn.calls():
                            if cb["dest"] == o and re.search(r"\{impl Clone for Gc<T>\}::clone$", cb["callee"]):
                                if any(" as BigNum" in s_ for a in cb["args"] for s_ in lib.alias_sources(fn, a, depth=8)):
                                    ok, why = True, "clones an existing BigNum payload"
            if not ok:
                if dom is None:
                    dom = fn.dominators()
                for d in dom.get(i, ()):
                    blk = fn.blocks[d]
                    if blk["k"] != "switch":
                        continue
                    if blk["on"] in ("enum:Option", "enum:Result"):
                        pl = blk.get("place", "")
                        loc = re.match(r"_\d+", pl.strip("(*)"))
                        srcs = lib.alias_sources(fn, loc.group(0), depth=6) if loc else set()
                        prod = [cb for _, cb in fn.calls() if cb["dest"] in srcs and
                                re.search(r"::(checked_\w+|try_from|try_into|to_isize|to_i64)$", cb["callee"])]
                        if prod:
                            m = lib.arm_map(fn, d)
                            good = m.get("Some", m.get("Ok"))
                            others = [t for v, t in m.items() if t != good]
                            # the construction must be on the non-success side
                            if good is not None and i not in fn.reachable_from([good], avoid={d}) or \
                                    any(i in fn.reachable_from([t], avoid={d}) and i not in fn.reachable_from([good], avoid={d}) for t in others):
                                ok, why = True, "overflow branch of %s" % lib.split_path(prod[0]["callee"])[-1]
                    elif blk["on"] == "bool" and any(ev[0] == "binop" and ev[1] in ("Gt", "Ge", "Lt", "Le") for ev in blk["e"]):
                        ok, why = True, "under a range comparison"
            R.inst("C10.d", key, ok,
                   "%s builds SteelVal::BigNum directly (line %s) from a computed big integer without going through "
                   "into_steelval: if the result fits a fixnum it is left in non-canonical form, and = / equal? / hash "
                   "treat it as different from the same number as a fixnum" % (fn.short(), e[3]), fn.loc(e[3]),
                   sample={"verdict": why})
    R.floor("C10.d", "direct BigNum constructions", n, 10)
    # rationals: the same discipline, with a closed set of constructors
    nr = 0
    conv = {"Rational": r"\{impl IntoSteelVal for Ratio<i32>\}::into_steelval$",
            "BigRational": r"\{impl IntoSteelVal for Ratio<BigInt>\}::into_steelval$"}
    seen_conv = set()
    for name, fn in sorted(F.fns.items()):
        if not name.startswith("steel::"):
            continue
        for i, _, e in fn.events("agg"):
            if e[1] != "SteelVal" or e[2] not in conv:
                continue
            nr += 1
            key = "%s / constructs SteelVal::%s" % (fn.short(), e[2])
            if re.search(r"\{impl Clone for SteelVal\}::clone$|::from_serializable_value$", name):
                R.inst("C10.d", key + " (copy of an existing value)", True, sample=True, nontrivial=False)
                continue
            if not re.search(conv[e[2]], name):
                R.inst("C10.d", key, False,
                       "%s builds SteelVal::%s directly (line %s) instead of going through into_steelval: a ratio whose "
                       "denominator is 1 stays a rational (integer?/exact-integer? false, = and equal? against the same "
                       "integer false), and a big ratio that fits 32 bits stays in the big representation (equal?/hash differ "
                       "from the small one)" % (fn.short(), e[2], e[3]), fn.loc(e[3]))
                continue
            seen_conv.add(e[2])
            dom = fn.dominators()
            isint = fn.call_blocks(r"::is_integer$")
            falses = [lib.bool_branch(fn, b)[1] for b in isint]
            ok = bool(isint) and any(f is not None and f in dom.get(i, ()) for f in falses)
            why = "" if ok else "is not on the is_integer()==false edge"
            if ok and e[2] == "BigRational":
                fits = fn.call_blocks(r"::to_i32$")
                sw = [d for d in dom.get(i, ()) if fn.blocks[d]["k"] == "switch" and fn.blocks[d]["on"] == "enum:Option"]
                small = fn.call_blocks(conv["Rational"])
                if len(fits) < 2 or not sw or not small:
                    ok, why = False, "is not the fallback of a to_i32() test of numerator and denominator (which demotes to Rational32)"
            R.inst("C10.d", key + " (canonicalising converter)", ok,
                   "%s: the construction of SteelVal::%s %s — integral or small ratios are no longer demoted, so the same "
                   "number exists in two representations that =, equal? and hash distinguish" % (fn.short(), e[2], why),
                   fn.loc(e[3]), sample=True)
    for v in conv:
        if v not in seen_conv:
            raise CheckError("C10.d: converter constructing SteelVal::%s not found" % v)
    R.floor("C10.d", "direct Rational/BigRational constructions", nr, 5)


def float_cast_rule(F, R):
    from . import c07
    R.rule("C10.f", "a float is turned into a machine integer (`as isize/i64/i32`, which saturates silently) in script-reachable "
                    "code only under a range test of that float: the cast is dominated by a branch whose condition is an "
                    "ordering comparison (<, <=, >, >=) computed from the float itself, or the float is the square root of a "
                    "machine integer (bounded by construction). Otherwise `exact`, parity and integer/float equality give "
                    "answers for |x| >= 2^63 that are not the exact ones")
    reach = shared.script_reach(F)
    n = 0
    for name, fn in sorted(F.fns.items()):
        if name not in reach or not name.startswith("steel::") or "::jit2::" in name:
            continue
        casts = [(i, e) for i, _, e in fn.events("cast") if e[1] == "FloatToInt" and not e[5] and
                 re.match(r"i(size|64|32|128)$", e[3])]
        if not casts:
            continue
        maps = c07._backward(fn)
        dom = fn.dominators()
        cmp_ops = {}
        for blk2 in fn.blocks:
            for e in blk2["e"]:
                if e[0] == "der" and len(e) >= 5 and e[3] in ("Lt", "Le", "Gt", "Ge"):
                    cmp_ops.setdefault(e[1], set()).update(lib.TOK.findall(lib._norm(e[2])))
        for i, e in casts:
            n += 1
            toks = lib.TOK.findall(e[6])
            org = set()
            for t in toks:
                org |= c07._origins(fn, t, maps)
            roots = {o for o in org if not (maps[0].get(o) or maps[1].get(o))}
            small = any(re.search(r"f64::\{impl f64\}::sqrt$|::sqrt$", maps[2][o.split(".")[0]]["callee"])
                        for o in org if o.split(".")[0] in maps[2])
            guarded = small
            if not guarded:
                for sb in dom[i]:
                    blk = fn.blocks[sb]
                    if blk["k"] != "switch" or blk["on"] != "bool":
                        continue
                    loc = re.match(r"_\d+", blk.get("place", "").strip("()*"))
                    if not loc:
                        continue
                    conds = [loc.group(0)] + [x for x in c07._origins(fn, loc.group(0), maps) if x in cmp_ops]
                    for c_ in conds:
                        for t in cmp_ops.get(c_, ()):
                            co = c07._origins(fn, t, maps)
                            # the comparison looks at the float itself, not at its fractional part etc.
                            through_call = any(o.split(".")[0] in maps[2] and
                                               re.search(r"::(fract|is_nan|is_finite|is_infinite)$", maps[2][o.split(".")[0]]["callee"])
                                               for o in co)
                            if (co & roots) and not through_call:
                                guarded = True
                    if guarded:
                        break
            R.inst("C10.f", "%s / f64 -> %s cast is range-checked" % (fn.short(), e[3]), guarded,
                   "%s casts a float to %s (line %s) without first comparing the float with the integer range: `as` saturates, "
                   "so for |x| >= 2^63 the result is MAX/MIN instead of the exact integer — e.g. (exact 1e19) => "
                   "9223372036854775807, (even? 1e19) => #false, (= 9223372036854775807 9223372036854775808.0) => #true" % (
                       fn.short(), e[3], e[4]), fn.loc(e[4]), sample=True)
    R.floor("C10.f", "float-to-integer casts in script-reachable code", n, 5)


NUM_KINDS = ["IntV", "NumV", "Rational", "BigNum", "BigRational"]


def both_operands_rule(F, R):
    from . import pairmatch
    R.rule("C10.p", "binary numeric operations look at both operands: in every script-reachable function of the numeric surface "
                    "that matches on a pair of number kinds and produces a number (not a truth value), each arm — for each "
                    "pair of kinds it serves — extracts the payload of the left AND of the right operand (on the decision path "
                    "or in the arm body). An arm that never reads one operand's value (`(IntV(l), BigNum(_)) => …`) computes "
                    "a result that cannot depend on it, which is wrong for quotient/remainder/+/−/×/… on some operand")
    reach = shared.script_reach(F)
    n = 0
    nf = 0

    def uses(fn, tup, blocks):
        use = {"0": False, "1": False}
        for b in blocks:
            for ev in fn.blocks[b]["e"]:
                if ev[0] == "mv" and " as " in ev[2]:
                    loc = re.match(r"^\(*\**\(?(_\d+)", ev[2])
                    if not loc:
                        continue
                    srcs = {ev[2]} | set(lib.alias_sources(fn, loc.group(1), depth=3))
                    for side in "01":
                        if any(re.search(re.escape(tup) + r"\." + side + r"\b", x) for x in srcs):
                            use[side] = True
        return use

    for name, fn in sorted(F.fns.items()):
        if not re.match(r"steel::(primitives::numbers|steel_vm::primitives|steel_vm::vm)::", name) or name not in reach:
            continue
        if fn.d["out"] == "bool" or any(e[1] == "SteelVal" and e[2] == "BoolV" for _, _, e in fn.events("agg")):
            continue  # comparisons: mixed exact kinds are decided by the canonical-form invariant alone
        pms = pairmatch.pair_matches(fn)
        if not pms:
            continue
        nf += 1
        for pm in pms:
            arms, fall = pm.arms(NUM_KINDS)
            entries = set(arms)
            for e, pairs in sorted(arms.items()):
                region = fn.reachable_from([e], avoid=entries - {e})
                for (l, r) in pairs:
                    path = []
                    pm.arm(l, r, path)
                    use = uses(fn, pm.tup, set(path) | region)
                    n += 1
                    R.inst("C10.p", "%s / (%s, %s) arm reads both operands" % (fn.short(), l, r), use["0"] and use["1"],
                           "%s: the arm taken for (%s, %s) never extracts the %s operand's payload: its result cannot depend "
                           "on that operand's value (e.g. quotient of a fixnum by a bignum answered 0 without looking at the "
                           "bignum is wrong for -2^63 / 2^63)" % (
                               fn.short(), l, r, "left" if not use["0"] else "right"),
                           fn.loc(fn.blocks[e].get("line")), sample=(n % 25 == 0))
    R.floor("C10.p", "pair-of-kinds arms in numeric operations", n, 150)
    R.floor("C10.p", "numeric functions matching on a pair of kinds", nf, 10)


CMP_CALLEE = re.compile(r"(::eq|::ne|::partial_cmp|::cmp|::lt|::le|::gt|::ge|_equality|::total_cmp)$")


def same_field_rule(F, R):
    R.rule("C10.x", "componentwise comparison pairs like with like: wherever a comparison (eq / ne / partial_cmp / cmp / "
                    "*_equality) is applied to two values that are fields of two different instances of the same record type "
                    "(x.re against y.…), both are the same field — comparing x.im with y.re makes (= 1+2i 1+2i) false and "
                    "(= 2+2i 2+3i) true. Checked over all of the crate's functions; fields are read from the projections that "
                    "produce the two operands")
    def field_origin(fn, tok, depth=6):
        """(record type, field, base local) if the operand is (a reference to / a copy of) a field projection"""
        seen, st = set(), [(tok, 0)]
        while st:
            x, d = st.pop()
            if x in seen or d > depth:
                continue
            seen.add(x)
            for b in fn.blocks:
                if b["c"]:
                    continue
                for e in b["e"]:
                    if e[0] != "mv" or e[1].split(".")[0] != x.split(".")[0]:
                        continue
                    m_ = re.match(r"^\(?\*?\(?\*?(_\d+)\)?\)?(?:\.0)?\.([a-z_][a-z0-9_]*)$", e[2])
                    if m_:
                        adt = [ev[1] for ev in b["e"] if ev[0] == "fld" and ev[2] == m_.group(2)]
                        if adt:
                            return adt[0], m_.group(2), m_.group(1)
                    for y in lib.TOK.findall(e[2]):
                        st.append((y, d + 1))
        return None
    n = 0
    for name, fn in sorted(F.fns.items()):
        if not name.startswith("steel::") or "::jit2::" in name:
            continue
        for i, cb in fn.calls():
            if len(cb["args"]) != 2 or not CMP_CALLEE.search(cb["callee"]):
                continue
            toks = [lib.TOK.findall(a) for a in cb["args"]]
            if not toks[0] or not toks[1]:
                continue
            a = field_origin(fn, toks[0][0])
            b = field_origin(fn, toks[1][0])
            if not a or not b or a[0] != b[0] or a[2] == b[2]:
                continue
            n += 1
            R.inst("C10.x", "%s / %s.%s is compared with the same field of the other operand (line %s)" % (fn.short(), a[0], a[1], cb["line"]),
                   a[1] == b[1],
                   "%s compares %s.%s of one operand with %s.%s of the other (%s, line %s): two equal values whose fields differ "
                   "from each other compare unequal, and unequal ones can compare equal" % (
                       fn.short(), a[0], a[1], b[0], b[1], lib.short_name(cb["callee"]), cb["line"]), fn.loc(cb["line"]),
                   sample=(n % 5 == 0))
    R.floor("C10.x", "field-against-field comparisons of two instances of one record type", n, 3)



def overflow_arm_rule(F, R):
    R.rule("C10.o", "the overflow exit of a checked operation computes its answer: wherever the numeric surface matches on the "
                    "Option returned by checked_add / checked_sub / checked_mul / checked_neg / checked_abs / … on machine "
                    "integers, the code that runs only on the None edge (the blocks dominated by it) performs a computation "
                    "on the operands again — a conversion to a wider representation, big-integer / rational / float "
                    "arithmetic — or raises an error. A None edge that answers with a constant (an ordering, a boolean, a "
                    "saturated value) gives the same answer for every operand pair that overflows, which is wrong for about "
                    "half of them")
    reach = shared.script_reach(F)
    n = 0
    for name, fn in sorted(F.fns.items()):
        if not SURFACE.search(name) or name not in reach or "::jit2::" in name:
            continue
        dom = None
        for i, cb in fn.calls():
            m_ = re.search(r"::()(checked_\w+)$", cb["callee"])
            if not m_ or not re.match(r"^(core::num|num_traits|num_integer|num_bigint|core::ops)", cb["callee"]):
                continue
            d = re.match(r"_\d+", cb.get("dest") or "")
            if not d:
                continue
            sw = None
            for j, b in enumerate(fn.blocks):
                if b["k"] == "switch" and b["on"] == "enum:Option" and not b["c"]:
                    loc = re.match(r"_\d+", b["place"].strip("()*"))
                    if loc and (loc.group(0) == d.group(0) or d.group(0) in
                                {x for s_ in lib.alias_sources(fn, loc.group(0), depth=4) for x in lib.TOK.findall(s_)}):
                        sw = j
                        break
            if sw is None:
                # handed to a combinator: `x.checked_abs().map_or_else(|| …, |v| …)` / unwrap_or_else — the closure that runs
                # for None is the overflow exit; ok_or_else / map / `?` propagate the None and answer nothing themselves
                comb = [cb2 for _, cb2 in fn.calls() if cb2["args"] and lib.TOK.findall(cb2["args"][0])[:1] == [d.group(0)]
                        and re.search(r"\{impl Option<T>\}::(map_or_else|unwrap_or_else|or_else|map_or|unwrap_or)$", cb2["callee"])]
                for cb2 in comb:
                    n += 1
                    cl = [t for t in cb2["targs"] if t.startswith("{closure@")]
                    none_fn = F.fns.get(cl[0][len("{closure@"):-1]) if cl else None
                    if cb2["callee"].endswith(("map_or", "unwrap_or")):
                        computes = not str(cb2["args"][1]).startswith("const")
                    else:
                        computes = none_fn is not None and any(
                            not re.search(r"::(clone|deref|drop|fmt|new_const|new_v1)$|^core::fmt::|^core::panicking", b3["callee"])
                            for _, b3 in none_fn.calls())
                    R.inst("C10.o", "%s / None closure of %s (line %s) computes or raises" % (fn.short(), m_.group(2), cb["line"]), bool(computes),
                           "%s: when %s overflows (line %s) the default handed to %s answers without computing anything: the same "
                           "constant for every overflowing operand" % (fn.short(), m_.group(2), cb["line"], lib.split_path(cb2["callee"])[-1]),
                           fn.loc(cb["line"]))
                continue
            am = lib.arm_map(fn, sw)
            none = am.get("None", am.get("_"))
            some = am.get("Some")
            if none is None or none == some:
                continue
            if dom is None:
                dom = fn.dominators()
            only = [x for x in fn.reachable_from([none], avoid=[some] if some is not None else []) if none in dom.get(x, ())]
            calls = [fn.blocks[x]["callee"] for x in only if fn.blocks[x]["k"] == "call"]
            computes = [c for c in calls if not re.search(r"::(clone|deref|drop|fmt|new_const|new_v1)$|^core::fmt::|^core::panicking", c)]
            n += 1
            R.inst("C10.o", "%s / None edge of %s (line %s) computes or raises" % (fn.short(), m_.group(2), cb["line"]), bool(computes),
                   "%s: when %s overflows (line %s) the code answers without computing anything (no call on the None edge): the "
                   "same constant for every overflowing operand pair — e.g. comparing a large negative fixnum with a ratio "
                   "answers 'greater'" % (fn.short(), m_.group(2), cb["line"]), fn.loc(cb["line"]),
                   sample={"calls_on_none_edge": [lib.split_path(c)[-1] for c in computes][:5]} if n % 4 == 0 else None)
    R.floor("C10.o", "matched checked operations in the numeric surface", n, 12 if "jit2" in (F.meta.get("features") or []) else 8)


def exact_comparison_rule(F, R):
    R.rule("C10.y", "comparing an exact number with a double does not round the exact one: in <SteelVal as PartialOrd>::partial_cmp "
                    "and in `=` (number_equality), and in the helpers of steel::rvals they call (one level), an integer-to-float "
                    "cast or a to_f64() conversion is dominated by a branch on a comparison (the range in which the conversion is "
                    "exact). nc: rounding the exact operand first makes `<`, `=` and `>` all false for one pair — "
                    "(< 9007199254740993 9007199254740992.0), (= …), (> …) — and (= 1/3 0.3333333333333333) true")
    roots = F.find(r"\{impl PartialOrd(<SteelVal>)? for SteelVal\}::partial_cmp$") + F.find(r"^steel::rvals::number_equality$")
    if len(roots) < 2:
        raise CheckError("anchor lost: SteelVal's partial_cmp / number_equality")
    fns = {f.name: f for f in roots}
    for f in roots:
        for _, b in f.calls():
            c = F.fns.get(b["callee"])
            if c is not None and c.name.startswith("steel::rvals::") and len(c.blocks) < 80:
                fns[c.name] = c
                for _, b2 in c.calls():
                    c2 = F.fns.get(b2["callee"])
                    if c2 is not None and c2.name.startswith("steel::rvals::") and len(c2.blocks) < 80:
                        fns[c2.name] = c2
    n = 0
    for name, fn in sorted(fns.items()):
        dom = fn.dominators()
        sites = [(i, "`as f64` (line %s)" % e[4]) for i, _, e in fn.events("cast") if e[1] == "IntToFloat"]
        sites += [(i, "to_f64() (line %s)" % b["line"]) for i, b in fn.calls() if re.search(r"ToPrimitive[^}]*\}::to_f64$|::to_f64$", b["callee"])]
        for i, what in sites:
            n += 1
            guarded = False
            for sb in dom[i]:
                blk = fn.blocks[sb]
                if sb != i and blk["k"] == "switch" and blk["on"] == "bool":
                    sides = [t for t in set(blk["s"]) if t == i or i in fn.reachable_from([t], avoid={sb})]
                    if len(sides) == 1:
                        guarded = True
            R.inst("C10.y", "%s / %s only where the conversion is exact" % (fn.short(), what.split(" (")[0]), guarded,
                   "%s converts an exact operand to a double with %s before comparing it with a double, without a range test: "
                   "the conversion rounds large integers and most rationals, so the comparison is not the comparison of the "
                   "two values" % (fn.short(), what), fn.loc(), sample=True)
    # the same clause wherever the numeric code compares floats: an integer of 64 bits or more that reaches one side of a float
    # comparison through an `as f64` cast (and the other side is neither a constant nor the same value converted back: the
    # integrality test `x as isize as f64 == x`)
    m = 0
    reach_y = shared.script_reach(F)
    for name, fn in sorted(F.fns.items()):
        if not re.search(r"^steel::(primitives::numbers|rvals|steel_vm::vm)(::|$)", name) or name in fns or name not in reach_y:
            continue
        fc = [(i, e) for i, _, e in fn.events("fcmp")]
        if not fc:
            continue
        m += 1
        casts = [(i, e) for i, _, e in fn.events("cast") if e[1] == "IntToFloat" and re.search(r"^(isize|i64|usize|u64|i128|u128)$", e[2])]
        f2i = [x for _, _, e in fn.events("cast") if e[1] == "FloatToInt" for x in lib.TOK.findall(str(e[6]))]
        back = lib.tainted_locals(fn, f2i) if f2i else set()
        dom = fn.dominators()
        for ci, ce in casts:
            ops = lib.TOK.findall(str(ce[6]))
            if not ops or any(x in back for x in ops):
                continue
            T = lib.tainted_locals(fn, ops)
            for i, e in fc:
                a_, b_ = str(e[5]), str(e[6])
                ta = any(x in T for x in lib.TOK.findall(a_))
                tb = any(x in T for x in lib.TOK.findall(b_))
                if not (ta ^ tb) or a_.startswith("const") or b_.startswith("const"):
                    continue
                guarded = False
                for sb in dom[ci]:
                    blk = fn.blocks[sb]
                    if sb != ci and blk["k"] == "switch" and blk["on"] == "bool":
                        sides = [t for t in set(blk["s"]) if t == ci or ci in fn.reachable_from([t], avoid={sb})]
                        if len(sides) == 1:
                            guarded = True
                R.inst("C10.y", "%s / an integer reaches a float comparison through `as f64` only where the conversion is exact" % fn.short(),
                       guarded,
                       "%s converts a machine integer with `as f64` (line %s) and compares the result with a double (line %s) without "
                       "a range test: above 2^53 the conversion rounds, so an exact integer and a double that differ compare equal — "
                       "(= 9007199254740993 9007199254740992.0) answers #true on this path while `<`, (apply = …), the constant "
                       "folder and the other tier answer #false" % (fn.short(), ce[4], e[3]), fn.loc(e[3]), sample=True)
    R.floor("C10.y", "functions of the numeric code that compare floats (population examined)", m, 10)
    R.inst("C10.y", "mixed exact / inexact comparison functions examined", len(fns) >= 2, "", "", sample={"functions": sorted(lib.short_name(x) for x in fns), "conversions": n})
