"""`match (a, b) { (KindA(x), KindB(y)) => … }` over two SteelVals, as compiled to MIR: a tree of switches on the two
fields of one tuple local.  `pair_matches(fn)` finds such tuples; `PairMatch.arm(lv, rv)` simulates the decision tree for a
pair of kinds and returns the entry block of the arm taken; `arms(kinds)` groups kind pairs by arm."""
import re

from . import lib


class PairMatch:
    def __init__(self, fn, tup, side_of):
        self.fn = fn
        self.tup = tup
        self.side_of = side_of          # switch block -> "0" / "1"
        dom = fn.dominators()
        sw = set(side_of)
        tops = [s for s in sw if not any(o != s and o in dom[s] for o in sw)]
        self.top = min(tops)

    def arm(self, lv, rv, path=None):
        fn = self.fn
        b = self.top
        for _ in range(96):
            if path is not None:
                path.append(b)
            blk = fn.blocks[b]
            if blk["k"] == "goto" and len(blk["s"]) == 1:
                b = blk["s"][0]
                continue
            if b in self.side_of:
                v = lv if self.side_of[b] == "0" else rv
                t = [x for n_, x in blk["targets"] if n_ == v]
                b = t[0] if t else blk["otherwise"]
                continue
            return b
        return b

    def arms(self, kinds):
        fall = self.arm("Void", "Void") if "Void" not in kinds else None
        out = {}
        for l in kinds:
            for r in kinds:
                e = self.arm(l, r)
                if e != fall:
                    out.setdefault(e, []).append((l, r))
        return out, fall


def pair_matches(fn, enum_short="SteelVal"):
    sws = lib.enum_switches(fn, enum_short)
    groups = {}
    for s in sws:
        pl = fn.blocks[s]["place"]
        loc = re.match(r"_\d+", pl.strip("()*"))
        if not loc:
            continue
        cands = {pl.strip("()*")} | set(lib.alias_sources(fn, loc.group(0), depth=3))
        for a in cands:
            m = re.match(r"^\(?\*?\(?(_\d+)\.(0|1)\)?\)?$", a.strip())
            if m:
                groups.setdefault(m.group(1), {})[s] = m.group(2)
                break
    out = []
    for tup, side_of in groups.items():
        if set(side_of.values()) == {"0", "1"}:
            out.append(PairMatch(fn, tup, side_of))
    return out
