"""C07 — no input crashes the host; errors leave the engine usable (DESIGN §4 C07).

Whole-program panic freedom is not claimable (hundreds of unwrap/index sites).  Decided clauses:
  a  SteelThread::execute clears the operand stack on its success exit and on its final error exit,
  b  failed program builds are rolled back (shared with C06.B),
  c  arity guards: in every native primitive (fn(&[SteelVal]) / fn(&mut [SteelVal]) / fn(&mut VmCore,&[SteelVal])) each
     constant index into the argument slice is dominated by a test of the slice length (or a split_first/first Some-arm),
  e  no unfinished-code macro (todo!/unimplemented!) directly in a native primitive's body or on an emittable opcode arm.
"""
import re

from . import lib, shared, c01, c06, c08, jitmodel
from .lib import CheckError


def natives(F):
    out = []
    for n, fn in F.fns.items():
        if not n.startswith("steel::"):
            continue
        ins, o = fn.d["in"], fn.d["out"]
        if ins == ["&[SteelVal]"] and o.startswith("Result<SteelVal"):
            out.append((fn, "_1"))
        elif ins == ["&mut [SteelVal]"] and o.startswith("Result<SteelVal"):
            out.append((fn, "_1"))
        elif len(ins) == 2 and ins[0] == "&mut VmCore" and ins[1] in ("&[SteelVal]", "&mut [SteelVal]") and o.startswith("Option<Result<SteelVal"):
            out.append((fn, "_2"))
    return out


def arg_indexing(fn, arg, assert_block):
    """does the bounds assert guard an index into the argument slice? looks at the places used right after it"""
    ok_t = fn.blocks[assert_block].get("ok")
    blocks = [assert_block] + ([ok_t] if ok_t is not None else [])
    for b in blocks:
        for e in fn.blocks[b]["e"]:
            if e[0] == "mv":
                m = re.match(r"^\(\*(_\d+)\)\[", e[2])
                if m and arg in lib.alias_sources(fn, m.group(1)):
                    return True
        blk = fn.blocks[b]
        if blk["k"] == "call":
            for a in blk["args"]:
                m = re.match(r"^\(\*(_\d+)\)\[", a)
                if m and arg in lib.alias_sources(fn, m.group(1)):
                    return True
        if blk["k"] == "switch":
            m = re.match(r"^\(?\(\*(_\d+)\)\[", blk.get("place", ""))
            if m and arg in lib.alias_sources(fn, m.group(1)):
                return True
    return False


def run(F, R, ctx):
    R.rule("C07.a", "SteelThread::execute: from the Ok edge of the interpreter's result, and from the exhausted unwind loop "
                    "on the Err edge, every path to the return clears SteelThread.stack")
    R.rule("C07.b", "failed program builds are rolled back (same construct as C06.B)")
    R.rule("C07.c", "every bounds-checked constant index into a native primitive's argument slice is dominated by a branch "
                    "on the slice length (len() compared) or by the Some arm of split_first/split_last/first/get")
    R.rule("C07.e", "no todo!/unimplemented! directly in the body of a native primitive")
    # ---- a
    ex = F.one(r"^steel::steel_vm::vm::\{impl SteelThread\}::execute$")
    vmcalls = ex.call_blocks(r"\{impl VmCore\}::vm$")
    clears = [i for i, b in ex.calls() if re.search(r"Vec<T,A>\}::clear$", b["callee"]) and b["targs"] and b["targs"][0] == "SteelVal"]
    if not vmcalls:
        raise CheckError("anchor lost: SteelThread::execute no longer calls VmCore::vm")
    sws = [s for s in lib.enum_switches(ex, "Result") if s in ex.reachable_from([x for v in vmcalls for x in ex.succ(v)])]
    ok_edge = None
    for s in sws:
        m = lib.arm_map(ex, s)
        if "Ok" in m or "Err" in m:
            ok_edge = (s, m)
            break
    if ok_edge is None:
        raise CheckError("anchor lost: SteelThread::execute does not match on the interpreter's Result")
    s, m = ok_edge
    ok_t = m.get("Ok", m["_"])
    good, w = ex.every_path_passes_from([ok_t], ex.returns(), clears) if ok_t != m.get("Err") else (False, None)
    # the Ok arm must not loop back into the Err handling
    R.inst("C07.a", "SteelThread::execute / success exit clears the operand stack", bool(clears) and good,
           "SteelThread::execute can return Ok without clearing SteelThread.stack: values of the finished evaluation stay "
           "on the operand stack and shift every stack offset of the next evaluation on this engine", ex.loc(), sample=True)
    pops = [i for i, b in ex.calls() if re.search(r"Vec<T,A>\}::pop$", b["callee"]) and b["targs"] and b["targs"][0] == "StackFrame"]
    okp = bool(pops)
    for p in pops:
        sw = None
        nxt = ex.blocks[p].get("ret")
        for _ in range(3):
            if nxt is None:
                break
            if ex.blocks[nxt]["k"] == "switch" and ex.blocks[nxt]["on"] == "enum:Option":
                sw = nxt
                break
            nxt = ex.blocks[nxt]["s"][0] if ex.blocks[nxt]["s"] else None
        if sw is None:
            okp = False
            continue
        mm = lib.arm_map(ex, sw)
        none_t = mm.get("None", mm["_"])
        g, w = ex.every_path_passes_from([none_t], ex.returns(), clears)
        okp = okp and g
    R.inst("C07.a", "SteelThread::execute / final error exit clears the operand stack", okp,
           "SteelThread::execute can return the error after unwinding all frames without clearing SteelThread.stack: the "
           "engine is left with the failed evaluation's operands", ex.loc(), sample=True)
    # ---- b
    c06.rollback_rule(F, R, "C07.b")
    # the continuation-mark typestate rules of C08 each guard a host panic ("Failed to find an open continuation on the
    # stack" when a continuation left open by a discarded frame is invoked by a later evaluation): part of C07 as well
    c08.reinstate_rule(F, R)
    c08.bulk_discard_rule(F, R)
    if "jit2" in (F.meta.get("features") or []):
        jitmodel.helper_panic_rule(F, R, "C07.j")
    # ---- c
    nat = natives(F)
    R.floor("C07.c", "native primitives", len(nat), 400)
    n_idx = 0
    for fn, arg in nat:
        asserts = [i for i, b in enumerate(fn.blocks) if b["k"] == "assert" and b["what"] == "bounds" and not b["c"]]
        asserts = [a for a in asserts if arg_indexing(fn, arg, a)]
        if not asserts:
            continue
        lens = set()
        for i, b in fn.calls():
            if re.search(r"slice::\{impl \[T\]\}::len$", b["callee"]) and arg in lib.alias_sources(fn, b["args"][0]):
                lens.add(b["dest"])
        guards = []
        for i, b in enumerate(fn.blocks):
            if b["k"] == "switch":
                for e in b["e"]:
                    if e[0] == "binop" and e[2] == "usize" and e[1] in ("Ne", "Eq", "Lt", "Le", "Gt", "Ge"):
                        if any(x in lens or (lens & lib.alias_sources(fn, x)) for x in (e[5], e[6]) if x.startswith("_")):
                            guards.append(i)
                if b["on"] == "usize" and (b["place"] in lens or lens & lib.alias_sources(fn, b["place"])):
                    guards.append(i)  # match args.len() { 1 => .., 2 => .. }
        for i, b in fn.calls():
            if re.search(r"slice::\{impl \[T\]\}::(split_first|split_first_mut|split_last|split_last_mut|first|first_mut|last|get|get_mut|is_empty|split_at_checked|first_chunk)$", b["callee"]) \
                    and arg in lib.alias_sources(fn, b["args"][0]):
                guards.append(i)
        dom = fn.dominators()
        for a in asserts:
            n_idx += 1
            ok = any(g in dom.get(a, ()) for g in guards)
            R.inst("C07.c", "%s / args index at line %s is arity-guarded" % (fn.short(), ""), ok,
                   "%s indexes its argument slice (line %s) on a path with no preceding test of args.len(): a script call "
                   "with too few arguments panics inside the native frame and aborts the host instead of raising an arity "
                   "error" % (fn.short(), fn.blocks[a]["line"]), fn.loc(fn.blocks[a]["line"]),
                   sample={"line": fn.blocks[a]["line"]} if n_idx <= 3 else None)
    R.floor("C07.c", "guarded argument indexings", n_idx, 300)
    # ---- e
    n = 0
    for fn, arg in nat:
        for i, b in fn.calls():
            if "panicking" in b["callee"] and re.search(r"\b(todo|unimplemented)\b", b.get("mac", "")) and not fn.blocks[i]["c"]:
                n += 1
                # only unconditional (entry-dominating) unfinished bodies are host-crash-on-call
                R.inst("C07.e", "%s / %s!()" % (fn.short(), b["mac"].split(">")[0]), False,
                       "the native primitive %s contains %s!(): calling it aborts the host" % (fn.short(), b["mac"]),
                       fn.loc(b["line"]))
    R.inst("C07.e", "native primitives without unfinished-code macros", True, sample={"natives": len(nat), "unfinished": n},
           nontrivial=True)
