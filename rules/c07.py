"""C07 — no input crashes the host; errors leave the engine usable (DESIGN §4 C07).

Whole-program panic freedom is not claimable (hundreds of unwrap/index sites).  Decided clauses:
  a  SteelThread::execute clears the operand stack on its success exit and on its final error exit,
  b  failed program builds are rolled back (shared with C06.B),
  c  arity guards: in every native primitive (fn(&[SteelVal]) / fn(&mut [SteelVal]) / fn(&mut VmCore,&[SteelVal])) each
     constant index into the argument slice is dominated by a test of the slice length (or a split_first/first Some-arm),
  e  no unfinished-code macro (todo!/unimplemented!) directly in a native primitive's body or on an emittable opcode arm.
"""
import re

from . import lib, shared, c01, c06, c08, jitmodel
from .lib import CheckError


def natives(F):
    out = []
    for n, fn in F.fns.items():
        if not n.startswith("steel::"):
            continue
        ins, o = fn.d["in"], fn.d["out"]
        if ins == ["&[SteelVal]"] and o.startswith("Result<SteelVal"):
            out.append((fn, "_1"))
        elif ins == ["&mut [SteelVal]"] and o.startswith("Result<SteelVal"):
            out.append((fn, "_1"))
        elif len(ins) == 2 and ins[0] == "&mut VmCore" and ins[1] in ("&[SteelVal]", "&mut [SteelVal]") and o.startswith("Option<Result<SteelVal"):
            out.append((fn, "_2"))
    return out


def arg_indexing(fn, arg, assert_block):
    """does the bounds assert guard an index into the argument slice? looks at the places used right after it"""
    ok_t = fn.blocks[assert_block].get("ok")
    blocks = [assert_block] + ([ok_t] if ok_t is not None else [])
    for b in blocks:
        for e in fn.blocks[b]["e"]:
            if e[0] == "mv":
                m = re.match(r"^\(\*(_\d+)\)\[", e[2])
                if m and arg in lib.alias_sources(fn, m.group(1)):
                    return True
        blk = fn.blocks[b]
        if blk["k"] == "call":
            for a in blk["args"]:
                m = re.match(r"^\(\*(_\d+)\)\[", a)
                if m and arg in lib.alias_sources(fn, m.group(1)):
                    return True
        if blk["k"] == "switch":
            m = re.match(r"^\(?\(\*(_\d+)\)\[", blk.get("place", ""))
            if m and arg in lib.alias_sources(fn, m.group(1)):
                return True
    return False


def run(F, R, ctx):
    R.rule("C07.a", "SteelThread::execute: from the Ok edge of the interpreter's result, and from the exhausted unwind loop "
                    "on the Err edge, every path to the return clears SteelThread.stack")
    R.rule("C07.b", "failed program builds are rolled back (same construct as C06.B)")
    R.rule("C07.c", "every bounds-checked constant index into a native primitive's argument slice is dominated by a branch "
                    "on the slice length (len() compared) or by the Some arm of split_first/split_last/first/get")
    R.rule("C07.e", "no todo!/unimplemented! directly in the body of a native primitive")
    # ---- a
    ex = F.one(r"^steel::steel_vm::vm::\{impl SteelThread\}::execute$")
    vmcalls = ex.call_blocks(r"\{impl VmCore\}::vm$")
    clears = [i for i, b in ex.calls() if re.search(r"Vec<T,A>\}::clear$", b["callee"]) and b["targs"] and b["targs"][0] == "SteelVal"]
    if not vmcalls:
        raise CheckError("anchor lost: SteelThread::execute no longer calls VmCore::vm")
    sws = [s for s in lib.enum_switches(ex, "Result") if s in ex.reachable_from([x for v in vmcalls for x in ex.succ(v)])]
    ok_edge = None
    for s in sws:
        m = lib.arm_map(ex, s)
        if "Ok" in m or "Err" in m:
            ok_edge = (s, m)
            break
    if ok_edge is None:
        raise CheckError("anchor lost: SteelThread::execute does not match on the interpreter's Result")
    s, m = ok_edge
    ok_t = m.get("Ok", m["_"])
    good, w = ex.every_path_passes_from([ok_t], ex.returns(), clears) if ok_t != m.get("Err") else (False, None)
    # the Ok arm must not loop back into the Err handling
    R.inst("C07.a", "SteelThread::execute / success exit clears the operand stack", bool(clears) and good,
           "SteelThread::execute can return Ok without clearing SteelThread.stack: values of the finished evaluation stay "
           "on the operand stack and shift every stack offset of the next evaluation on this engine", ex.loc(), sample=True)
    pops = [i for i, b in ex.calls() if re.search(r"Vec<T,A>\}::pop$", b["callee"]) and b["targs"] and b["targs"][0] == "StackFrame"]
    okp = bool(pops)
    for p in pops:
        sw = None
        nxt = ex.blocks[p].get("ret")
        for _ in range(3):
            if nxt is None:
                break
            if ex.blocks[nxt]["k"] == "switch" and ex.blocks[nxt]["on"] == "enum:Option":
                sw = nxt
                break
            nxt = ex.blocks[nxt]["s"][0] if ex.blocks[nxt]["s"] else None
        if sw is None:
            okp = False
            continue
        mm = lib.arm_map(ex, sw)
        none_t = mm.get("None", mm["_"])
        g, w = ex.every_path_passes_from([none_t], ex.returns(), clears)
        okp = okp and g
    R.inst("C07.a", "SteelThread::execute / final error exit clears the operand stack", okp,
           "SteelThread::execute can return the error after unwinding all frames without clearing SteelThread.stack: the "
           "engine is left with the failed evaluation's operands", ex.loc(), sample=True)
    # ---- b
    c06.rollback_rule(F, R, "C07.b")
    # the continuation-mark typestate rules of C08 each guard a host panic ("Failed to find an open continuation on the
    # stack" when a continuation left open by a discarded frame is invoked by a later evaluation): part of C07 as well
    c08.reinstate_rule(F, R)
    c08.bulk_discard_rule(F, R)
    if "jit2" in (F.meta.get("features") or []):
        jitmodel.helper_panic_rule(F, R, "C07.j")
        jitmodel.name_table_gate_rule(F, R, "C02.n")
        jitmodel.branch_facts_rule(F, R, "C02.f")
        jitmodel.assigned_local_rule(F, R, "C02.k")
    slice_guard_rule(F, R)
    bounds_strictness_rule(F, R)
    arg_conversion_rule(F, R)
    select_rule(F, R)
    native_entry_arity_rule(F, R)
    lookahead_cursor_rule(F, R)
    # ---- c
    nat = natives(F)
    R.floor("C07.c", "native primitives", len(nat), 400)
    n_idx = 0
    for fn, arg in nat:
        asserts = [i for i, b in enumerate(fn.blocks) if b["k"] == "assert" and b["what"] == "bounds" and not b["c"]]
        asserts = [a for a in asserts if arg_indexing(fn, arg, a)]
        if not asserts:
            continue
        lens = set()
        for i, b in fn.calls():
            if re.search(r"slice::\{impl \[T\]\}::len$", b["callee"]) and arg in lib.alias_sources(fn, b["args"][0]):
                lens.add(b["dest"])
        guards = []
        for i, b in enumerate(fn.blocks):
            if b["k"] == "switch":
                for e in b["e"]:
                    if e[0] == "binop" and e[2] == "usize" and e[1] in ("Ne", "Eq", "Lt", "Le", "Gt", "Ge"):
                        if any(x in lens or (lens & lib.alias_sources(fn, x)) for x in (e[5], e[6]) if x.startswith("_")):
                            guards.append(i)
                if b["on"] == "usize" and (b["place"] in lens or lens & lib.alias_sources(fn, b["place"])):
                    guards.append(i)  # match args.len() { 1 => .., 2 => .. }
        for i, b in fn.calls():
            if re.search(r"slice::\{impl \[T\]\}::(split_first|split_first_mut|split_last|split_last_mut|first|first_mut|last|get|get_mut|is_empty|split_at_checked|first_chunk)$", b["callee"]) \
                    and arg in lib.alias_sources(fn, b["args"][0]):
                guards.append(i)
        dom = fn.dominators()
        for a in asserts:
            n_idx += 1
            ok = any(g in dom.get(a, ()) for g in guards)
            R.inst("C07.c", "%s / args index at line %s is arity-guarded" % (fn.short(), ""), ok,
                   "%s indexes its argument slice (line %s) on a path with no preceding test of args.len(): a script call "
                   "with too few arguments panics inside the native frame and aborts the host instead of raising an arity "
                   "error" % (fn.short(), fn.blocks[a]["line"]), fn.loc(fn.blocks[a]["line"]),
                   sample={"line": fn.blocks[a]["line"]} if n_idx <= 3 else None)
    R.floor("C07.c", "guarded argument indexings", n_idx, 300)
    # ---- e
    n = 0
    for fn, arg in nat:
        for i, b in fn.calls():
            if "panicking" in b["callee"] and re.search(r"\b(todo|unimplemented)\b", b.get("mac", "")) and not fn.blocks[i]["c"]:
                n += 1
                # only unconditional (entry-dominating) unfinished bodies are host-crash-on-call
                R.inst("C07.e", "%s / %s!()" % (fn.short(), b["mac"].split(">")[0]), False,
                       "the native primitive %s contains %s!(): calling it aborts the host" % (fn.short(), b["mac"]),
                       fn.loc(b["line"]))
    R.inst("C07.e", "native primitives without unfinished-code macros", True, sample={"natives": len(nat), "unfinished": n},
           nontrivial=True)
    global_slot_index_rule(F, R)
    lexer_const_index_rule(F, R)


IDX_RX = (r"\{impl Index(Mut)?<I> for (Vec<T,A>|\[T\]|str|String)\}::index(_mut)?$|\{impl \[T\]\}::(swap|split_at|split_at_mut)$|"
          r"Vec<T,A>\}::(remove|insert|swap_remove|split_off)$|\{impl String\}::(insert|remove|split_off|replace_range|insert_str)$|"
          # the persistent vector behind immutable vectors (steel-imbl) and SmallVec: the methods that assert on their position
          r"(?:steel_imbl|imbl|im|im_rc)::vector::\{impl (?:Generic)?Vector<[^>]*>\}::(set|update|insert|remove|split_off|split_at|take|slice)$|"
          r"\{impl Index(Mut)?<usize> for (?:Generic)?Vector<[^>]*>\}::index(_mut)?$|smallvec::\{impl Index(Mut)?<I> for SmallVec<A>\}::index(_mut)?$")

# positions that name an *element* (must be < len); the others name a cut point (<= len is fine)
ELEM_RX = r"::index(_mut)?$|::(set|update|remove|swap|swap_remove)$"
_FLIP = {"Lt": "Gt", "Le": "Ge", "Gt": "Lt", "Ge": "Le", "Eq": "Eq", "Ne": "Ne"}
_NEG = {"Lt": "Ge", "Le": "Gt", "Gt": "Le", "Ge": "Lt", "Eq": "Ne", "Ne": "Eq"}


def _relation_on_the_way(fn, sb, i, op, pos_side):
    """the comparison `pos <op'> len` that holds on the edge of bool switch sb leading to block i (None: both edges lead there)"""
    blk = fn.blocks[sb]
    f = [t for v, t in blk["targets"] if v == "0"]
    f = f[0] if f else None
    t = blk["otherwise"]
    rt = t == i or i in fn.reachable_from([t], avoid={sb})
    rf = f is not None and (f == i or i in fn.reachable_from([f], avoid={sb}))
    if rt == rf:
        return None
    if pos_side == 1:
        op = _FLIP[op]
    if not rt:
        op = _NEG[op]
    return op


SLICE_ALLOW = {
    "steel_vm::vm::breakpoint": "debugging aid (#%breakpoint): prints the local slots named by the *instructions* of the "
                                "running function (compiler-produced payloads), not by an argument value",
}


def _backward(fn):
    mv, der = {}, {}
    for b in fn.blocks:
        for e in b["e"]:
            if e[0] == "mv":
                mv.setdefault(e[1], set()).update(lib.TOK.findall(lib._norm(e[2])))
            elif e[0] == "der":
                der.setdefault(e[1], set()).update(lib.TOK.findall(lib._norm(e[2])))
    calls = {}
    for i, b in fn.calls():
        d = re.match(r"_\d+", b.get("dest") or "")
        if d:
            calls[d.group(0)] = b
    return mv, der, calls


def _origins(fn, tok, maps, depth=12):
    """locals and call results a value is computed from (through moves, arithmetic, casts and *pure* conversions)"""
    mv, der, calls = maps
    seen, st = set(), [(tok, 0)]
    while st:
        x, d = st.pop()
        if x in seen or d > depth:
            continue
        seen.add(x)
        base = x.split(".")[0]
        for m in (mv, der):
            for k in (x, base):
                for y in m.get(k, ()):
                    st.append((y, d + 1))
            if base == x:
                for k, v in m.items():
                    if k.startswith(x + "."):
                        for y in v:
                            st.append((y, d + 1))
        if base in calls:
            for a in calls[base]["args"]:
                for y in lib.TOK.findall(lib._norm(a)):
                    st.append((y, d + 1))
    return seen


def slice_guard_rule(F, R):
    R.rule("C07.s", "a native primitive that indexes or slices a byte vector / vector / string payload with a position computed "
                    "from its arguments first compares that position with the payload's length: each such index site (in the "
                    "typed function a #[function] wrapper calls, one level) is dominated by a branch whose condition is computed "
                    "from both the index (for a range: its end) and a len() of a collection — or the range comes from a "
                    "validating helper that returns Result — so an out-of-range position is an error value, not a host panic")
    inner = {}
    for fn, arg in natives(F):
        inner[fn.name] = fn
        for c in F.callees(fn, expand_unresolved=False):
            f2 = F.fns.get(c)
            if f2 and re.match(r"steel::(primitives|steel_vm::primitives|values|rvals)::", c) and \
                    not re.search(r"::err_thunk$|\{impl ", c):
                inner[c] = f2
    n = 0
    for name, fn in sorted(inner.items()):
        nparams = len(fn.d["in"])
        seeds = ["_%d" % k for k in range(1, nparams + 1)]
        ts = None
        maps = None
        for i, b in fn.calls():
            if not re.search(IDX_RX, b["callee"]) or len(b["args"]) < 2:
                continue
            if ts is None:
                ts = lib.tainted_locals(fn, seeds)
                maps = _backward(fn)
            idx_toks = [t for a in b["args"][1:] for t in lib.TOK.findall(a)]
            if not any(t in ts for t in idx_toks):
                continue
            n += 1
            if fn.short() in SLICE_ALLOW:
                R.inst("C07.s", "%s / %s (allowlisted)" % (fn.short(), lib.split_path(b["callee"])[-1]), True,
                       sample={"reason": SLICE_ALLOW[fn.short()]}, nontrivial=False)
                continue
            is_range = bool(b["targs"]) and any("Range" in t for t in b["targs"])
            # the position to be guarded: for a range its end (field 1; RangeFrom/RangeTo: field 0), else the index
            pos = set()
            for t in idx_toks:
                if is_range:
                    pos |= {t + ".1"} if any(k.startswith(t + ".1") for k in maps[0]) else {t + ".0", t}
                else:
                    pos.add(t)
            org = set()
            for p_ in pos:
                org |= _origins(fn, p_, maps)
            # a range produced by a validating helper
            helper = [maps[2][o.split(".")[0]] for o in org if o.split(".")[0] in maps[2]
                      and maps[2][o.split(".")[0]]["callee"].startswith("steel::")
                      and (F.fns.get(maps[2][o.split(".")[0]]["callee"]).d["out"].startswith("Result<")
                           if maps[2][o.split(".")[0]]["callee"] in F.fns else False)
                      and re.search(r"Range|\(usize,usize\)", F.fns[maps[2][o.split(".")[0]]["callee"]].d["out"])]
            dom = fn.dominators()
            lens = {d for d, c in maps[2].items() if re.search(r"::len$|::length$|::len_utf8$|chars_count|::count$", c["callee"])}
            guarded = bool(helper)
            len_org = set()
            for l_ in lens:
                len_org |= _origins(fn, l_, maps) | {l_}
            distinguishing = org - len_org          # what the position depends on and no length does
            relations = []
            mvonly = (maps[0], {}, {})
            if not guarded:
                cmp_ops, cmp_opname = {}, {}
                for blk2 in fn.blocks:
                    for e in blk2["e"]:
                        if e[0] == "der" and len(e) >= 5 and e[3] in ("Lt", "Le", "Gt", "Ge", "Eq", "Ne"):
                            cmp_ops.setdefault(e[1], {}).setdefault(e[4], set()).update(lib.TOK.findall(lib._norm(e[2])))
                            cmp_opname[e[1]] = e[3]
                for sb in dom[i]:
                    blk = fn.blocks[sb]
                    if blk["k"] != "switch" or blk["on"] != "bool":
                        continue
                    loc = re.match(r"_\d+", blk.get("place", "").strip("()*"))
                    if not loc:
                        continue
                    conds = [loc.group(0)] + [x for x in _origins(fn, loc.group(0), maps) if x in cmp_ops]
                    for c_ in conds:
                        ops = cmp_ops.get(c_)
                        if not ops or len(ops) < 1:
                            continue
                        sides = []
                        for k_ in (0, 1):
                            so = set()
                            for t in ops.get(k_, ()):
                                so |= _origins(fn, t, maps)
                            sides.append(so)
                        for a_, b_ in ((0, 1), (1, 0)):
                            pure_len = bool(sides[a_] & lens) and not (sides[a_] & distinguishing)
                            on_pos = bool(sides[b_] & distinguishing)
                            if pure_len and on_pos:
                                guarded = True
                                # strictness, judged only when both sides are the plain values (no arithmetic in between)
                                direct_pos = set()
                                for t in ops.get(b_, ()):
                                    direct_pos |= _origins(fn, t, mvonly)
                                direct_len = set()
                                for t in ops.get(a_, ()):
                                    direct_len |= _origins(fn, t, mvonly)
                                idx_direct = set()
                                for p_ in pos:
                                    idx_direct |= _origins(fn, p_, mvonly)
                                if direct_pos & idx_direct and direct_len & lens:
                                    opname = cmp_opname.get(c_)
                                    rel = _relation_on_the_way(fn, sb, i, opname, b_) if opname else None
                                    relations.append(rel)
                # checked access idioms: the index went through `get`/`checked_*`/`min`
                if not guarded and any(re.search(r"::(min|clamp|get|checked_sub)$", maps[2][o.split(".")[0]]["callee"])
                                       for o in org if o.split(".")[0] in maps[2]):
                    guarded = True
            R.inst("C07.s", "%s / %s with an argument-derived position is length-checked" % (
                fn.short(), lib.split_path(b["callee"])[-1]), guarded,
                   "%s indexes a payload with a position computed from its arguments (line %s) and no dominating branch "
                   "compares that position with the payload's length: an out-of-range argument is a bounds-check panic inside "
                   "the native frame (the host aborts) instead of an error value" % (fn.short(), b["line"]),
                   fn.loc(b["line"]), sample=True)
            # a position that is a SUM of two argument-derived values: bounding each addend does not bound the sum — the sum
            # itself (the result of the addition) has to be what a dominating comparison looks at
            if guarded:
                sums = []
                for blk2 in fn.blocks:
                    for e in blk2["e"]:
                        if e[0] == "binop" and e[1] in ("Add", "AddWithOverflow", "AddUnchecked") and e[2] == "usize" and \
                                str(e[5]).startswith("_") and str(e[6]).startswith("_"):
                            a_, b2_ = lib.TOK.findall(e[5]), lib.TOK.findall(e[6])
                            if a_ and b2_ and all(any(t in ts for t in (_origins(fn, x, maps) | {x})) for x in (a_[0], b2_[0])):
                                sums.append((e[5], e[6], e[3]))
                # which of them feed the position
                feeding = []
                for blk2 in fn.blocks:
                    for e in blk2["e"]:
                        if e[0] == "der" and len(e) >= 5 and e[3] in ("Add", "AddWithOverflow", "AddUnchecked") and e[1].split(".")[0] in {o.split(".")[0] for o in org}:
                            opnds = [x for x in lib.TOK.findall(lib._norm(e[2]))]
                            if any((sa.startswith(opnds[0]) or sb_.startswith(opnds[0])) for sa, sb_, _ in sums if opnds):
                                feeding.append(e[1].split(".")[0])
                if feeding:
                    covered = False
                    cmp_locals = {}
                    for blk2 in fn.blocks:
                        for e in blk2["e"]:
                            if e[0] == "der" and len(e) >= 5 and e[3] in ("Lt", "Le", "Gt", "Ge"):
                                cmp_locals.setdefault(e[1], set()).update(lib.TOK.findall(lib._norm(e[2])))
                    for sb in dom[i]:
                        blk = fn.blocks[sb]
                        if blk["k"] == "switch" and blk["on"] == "bool":
                            loc = re.match(r"_\d+", blk.get("place", "").strip("()*"))
                            if loc:
                                for c_ in [loc.group(0)] + [x for x in _origins(fn, loc.group(0), maps) if x in cmp_locals]:
                                    for t in cmp_locals.get(c_, ()):
                                        if {o.split(".")[0] for o in _origins(fn, t, maps)} & set(feeding) or t.split(".")[0] in feeding:
                                            covered = True
                        if blk["k"] == "assert":
                            pass
                    if not covered and any(re.search(r"::(min|clamp|get|checked_add|saturating_sub)$", maps[2][o.split(".")[0]]["callee"])
                                           for o in org if o.split(".")[0] in maps[2]):
                        covered = True
                    R.inst("C07.s", "%s / %s: a position that is a sum of argument-derived values is compared as a sum" % (
                        fn.short(), lib.split_path(b["callee"])[-1]), covered,
                           "%s indexes a payload at a position that adds two values computed from its arguments (line %s); each "
                           "addend is bounded on its own, but no dominating comparison looks at the sum: start + count can run "
                           "past the end although start and count are each in range — a bounds panic inside the native frame" % (
                               fn.short(), b["line"]), fn.loc(b["line"]), sample=True)
            if guarded and relations:
                elem = bool(re.search(ELEM_RX, b["callee"])) and not is_range
                good = {"Lt"} if elem else {"Lt", "Le"}
                ok = any(r in good for r in relations) or any(r is None for r in relations)
                R.inst("C07.s", "%s / %s: the comparison admits only positions the operation accepts" % (
                    fn.short(), lib.split_path(b["callee"])[-1]), ok,
                       "%s compares the position with the length before %s (line %s), but on the way to the operation the "
                       "comparison only establishes `position %s length` — %s: a position equal to (or beyond) the length "
                       "reaches an operation that asserts on it, a bounds panic inside the native frame instead of an error "
                       "value" % (fn.short(), lib.split_path(b["callee"])[-1], b["line"],
                                  "/".join(sorted({"Lt": "<", "Le": "<=", "Gt": ">", "Ge": ">=", "Eq": "==", "Ne": "!="}[r]
                                                  for r in relations if r)),
                                  "an element position must be strictly below the length" if elem else
                                  "a cut position must not exceed the length"),
                       fn.loc(b["line"]), sample=True)
    R.floor("C07.s", "argument-derived index/slice sites in native primitives", n, 8)


CONVERSIONS = r"\{impl (AsRefSteelVal|AsRefMutSteelVal|FromSteelVal|PrimitiveAsRef|PrimitiveAsRefMut)\b[^}]*\}::\w+$|\{impl TryFrom<&?SteelVal> for|as_underlying_type$"


def arg_conversion_rule(F, R):
    R.rule("C07.u", "a native primitive never unwraps the conversion of one of its arguments: in every native primitive (and the "
                    "typed function its wrapper calls, one level), a Result<_, SteelErr> that comes from converting an "
                    "argument-derived value (AsRefSteelVal::as_ref, AsRefMutSteelVal::as_mut_ref, FromSteelVal::from_steelval, "
                    "…) is propagated or matched, not passed to unwrap/expect — a wrong argument type is a TypeMismatch error, "
                    "not a host abort")
    inner = {}
    for fn, arg in natives(F):
        inner[fn.name] = (fn, [arg])
        for c in F.callees(fn, expand_unresolved=False):
            f2 = F.fns.get(c)
            if f2 and re.match(r"steel::(primitives|steel_vm|values|rvals)::", c) and \
                    not re.search(r"::err_thunk$|\{impl ", c) and c not in inner:
                inner[c] = (f2, ["_%d" % k for k in range(1, len(f2.d["in"]) + 1)])
    n = 0
    sites = 0
    for name, (fn, seeds) in sorted(inner.items()):
        uw = [(i, b) for i, b in fn.calls() if re.search(r"Result<T,E>\}::(unwrap|expect)$", b["callee"]) and
              len(b["targs"]) > 1 and b["targs"][1] == "SteelErr"]
        if not uw:
            continue
        ts = lib.tainted_locals(fn, seeds)
        dests = {}
        for j, c in fn.calls():
            d = re.match(r"_\d+", c.get("dest") or "")
            if d:
                dests[d.group(0)] = c
        for i, b in uw:
            toks = lib.TOK.findall(b["args"][0]) if b["args"] else []
            if not any(t in ts for t in toks):
                continue
            prod = None
            for a in lib.alias_sources(fn, toks[0]):
                m = re.match(r"^\(?\*?(_\d+)\)?$", a)
                if m and m.group(1) in dests:
                    prod = dests[m.group(1)]
            sites += 1
            is_conv = bool(prod) and bool(re.search(CONVERSIONS, prod["callee"])) and \
                any(t in ts for a in prod["args"] for t in lib.TOK.findall(a))
            R.inst("C07.u", "%s / unwrap at site of %s" % (fn.short(), lib.short_name(prod["callee"]) if prod else "?"),
                   not is_conv,
                   "%s unwraps the result of %s applied to an argument (line %s): calling the primitive with a value of another "
                   "type panics inside the native frame and aborts the host" % (
                       fn.short(), lib.short_name(prod["callee"]) if prod else "?", b["line"]), fn.loc(b["line"]),
                   sample=True)
    R.floor("C07.u", "unwraps of argument-derived Result<_, SteelErr> in native primitives", sites, 3)


def select_rule(F, R):
    R.rule("C07.x", "waiting on a crossbeam Select built from the argument list happens only when the list is not empty: every "
                    "call of Select::{ready, select, ready_timeout, select_timeout, …} in a native primitive is dominated by a "
                    "branch on the emptiness / length of the argument slice (crossbeam panics on an empty selection)")
    n = 0
    for fn, arg in natives(F):
        waits = [(i, b) for i, b in fn.calls() if re.search(r"crossbeam_channel::select::\{impl Select[^}]*\}::(ready|select|try_ready|try_select)\w*$", b["callee"])]
        if not waits:
            continue
        dom = fn.dominators()
        maps = _backward(fn)
        for i, b in waits:
            n += 1
            ok = False
            for sb in dom[i]:
                blk = fn.blocks[sb]
                if blk["k"] != "switch":
                    continue
                loc = re.match(r"_\d+", blk.get("place", "").strip("()*"))
                if not loc:
                    continue
                org = _origins(fn, loc.group(0), maps)
                if any(o.split(".")[0] in maps[2] and re.search(r"\{impl \[T\]\}::(is_empty|len)$", maps[2][o.split(".")[0]]["callee"])
                       for o in org):
                    ok = True
            R.inst("C07.x", "%s / Select wait is guarded by a non-empty test" % fn.short(), ok,
                   "%s waits on a crossbeam Select built from its arguments without first testing that there is at least one: "
                   "called with no receiver it panics inside the native frame ('no operations have been added to Select')" %
                   fn.short(), fn.loc(b["line"]), sample=True)
    R.floor("C07.x", "Select waits in native primitives", n, 1)


def native_entry_arity_rule(F, R):
    R.rule("C07.q", "native code enters a closure's body only after the argument count was checked: in every VmCore function "
                    "that pushes a frame and runs closure.body_exp() (call_with_instructions_and_reset_state), every path to "
                    "that call passes adjust_stack_for_multi_arity (which raises the arity error). Where the check sits under "
                    "a const-generic switch (`if M`), every call site instantiating the unchecked value is dominated — in its "
                    "own function, or for a closure in the function that builds it — by a branch computed from "
                    "ByteCodeLambda.arity. Otherwise a callback with the wrong number of parameters reads operand-stack "
                    "slots that were never pushed (host panic) instead of raising an error")
    enter_rx = r"\{impl VmCore\}::call_with_instructions_and_reset_state$"
    adj_rx = r"\{impl VmCore\}::adjust_stack_for_multi_arity$"
    entries = []
    for n, fn in sorted(F.fns.items()):
        if not re.match(r"steel::steel_vm::", n):
            continue
        tgt = []
        for i, cb in fn.calls():
            if re.search(enter_rx, cb["callee"]):
                src = set()
                for a in cb["args"][1:]:
                    for t_ in lib.TOK.findall(a):
                        src |= lib.alias_sources(fn, t_, depth=8)
                prod = [c2["callee"] for _, c2 in fn.calls() if c2.get("dest") and re.match(r"_\d+", c2["dest"]) and
                        re.match(r"_\d+", c2["dest"]).group(0) in src]
                if any(re.search(r"\{impl ByteCodeLambda\}::body_exp$", c) for c in prod):
                    tgt.append(i)
        if tgt:
            entries.append((fn, tgt))
    R.floor("C07.q", "native entries into closure bodies", len(entries), 4)
    callers = F.graph()[1]
    for fn, tgt in entries:
        via = fn.call_blocks(adj_rx)
        ok, _ = fn.every_path_passes_from([0], tgt, via) if via else (False, None)
        if ok:
            R.inst("C07.q", "%s / arity adjusted on every path to the body" % fn.short(), True, sample=True)
            continue
        # a const-generic switch that decides whether the check runs?
        csw = [i for i, b in enumerate(fn.blocks) if b["k"] == "switch" and not b["c"] and b.get("cv") == "?" and b["on"] == "bool"]
        checked_value = None
        for sb in csw:
            zero = [t for v, t in fn.blocks[sb]["targets"] if v == "0"]
            other = fn.blocks[sb]["otherwise"]
            if zero and via:
                r0 = fn.reachable_from([zero[0]], avoid=set(via))
                r1 = fn.reachable_from([other], avoid=set(via))
                skip0 = any(t in r0 for t in tgt)
                skip1 = any(t in r1 for t in tgt)
                if skip0 and not skip1:
                    checked_value = "true"
                elif skip1 and not skip0:
                    checked_value = "false"
        if checked_value is None:
            R.inst("C07.q", "%s / arity adjusted on every path to the body" % fn.short(), False,
                   "%s runs a closure's body on a path that did not pass adjust_stack_for_multi_arity: a callback with the wrong "
                   "number of parameters is entered with the operand stack it does not match" % fn.short(), fn.loc())
            continue
        R.inst("C07.q", "%s / arity adjusted when instantiated with %s" % (fn.short(), checked_value), True,
               sample={"const_switch": True}, nontrivial=False)
        for c in sorted(callers.get(fn.name, ())):
            cf = F.fns.get(c)
            if cf is None:
                continue
            for i, cb in cf.calls():
                if cb["callee"] != fn.name:
                    continue
                cargs = [t for t in cb.get("targs", []) if t.startswith("const:")]
                key = "%s calls %s::<%s>" % (cf.short(), lib.split_path(fn.name)[-1], ",".join(x[6:] for x in cargs))
                if cargs and all(x == "const:" + checked_value for x in cargs):
                    R.inst("C07.q", key + " (checked instantiation)", True, sample=True)
                    continue
                # unchecked (or forwarded) instantiation: needs a dominating branch on ByteCodeLambda.arity
                guarded = False
                host, at = cf, i
                for _ in range(3):
                    dom = host.dominators()
                    maps = _backward(host)
                    for d in dom.get(at, ()):
                        blk = host.blocks[d]
                        if blk["k"] != "switch":
                            continue
                        loc = re.match(r"_\d+", blk.get("place", "").strip("()*"))
                        if not loc:
                            continue
                        org = _origins(host, loc.group(0), maps)
                        ar = set()
                        for b_ in host.blocks:
                            if any(e[0] == "fld" and e[1] == "ByteCodeLambda" and e[2] == "arity" for e in b_["e"]):
                                for e in b_["e"]:
                                    if e[0] == "mv" and re.search(r"\.arity\b", e[2]):
                                        ar.add(e[1].split(".")[0])
                        if any(o.split(".")[0] in ar for o in org):
                            guarded = True
                    if guarded or "::{closure#" not in host.name:
                        break
                    parent = F.fns.get(host.name.rsplit("::{closure#", 1)[0])
                    if parent is None:
                        break
                    at_blocks = [bi for bi, b_ in enumerate(parent.blocks) for e in b_["e"] if e[0] == "closure_at" and e[2] == host.name]
                    if not at_blocks:
                        break
                    host, at = parent, at_blocks[0]
                R.inst("C07.q", key, guarded,
                       "%s enters a closure's body through %s instantiated without the arity check (line %s) and no branch on "
                       "ByteCodeLambda.arity dominates the call (or the construction of the closure making it): a callback "
                       "with the wrong number of parameters indexes operand-stack slots that were never pushed — host panic "
                       "instead of an arity error" % (cf.short(), lib.split_path(fn.name)[-1], cb["line"]), cf.loc(cb["line"]))


def lookahead_cursor_rule(F, R):
    R.rule("C07.k", "the look-ahead cursor of an input port never underflows (guard-idiom census over Peekable, the buffer behind "
                    "peek-char / read-char / read-byte on file, pipe and bytevector ports): every subtraction from "
                    "Peekable.idx takes away (a) a constant under a dominating comparison of idx with it, (b) the result of "
                    "min(_, idx), or (c) the length std reports for the invalid UTF-8 sequence found in peek[..idx] "
                    "(Utf8Error::error_len's Some payload, nothing else) — a quantity not bounded by idx (the buffer's "
                    "capacity, a default for the None case) makes peek-char panic on a stream that ends inside a multi-byte "
                    "character")
    n = 0
    for name, fn in sorted(F.fns.items()):
        if not re.match(r"steel::values::port::\{impl Peekable<R>\}::", name):
            continue
        maps = None
        for i, j, e in fn.events("binop"):
            if e[1] not in ("Sub", "SubWithOverflow") or e[2] != "usize" or not re.search(r"\.idx\)?$", str(e[5])):
                continue
            n += 1
            sub = str(e[6])
            key = "%s / idx -= %s (line %s)" % (fn.short(), "constant" if sub.startswith("const:") else "a computed length", e[3])
            if sub.startswith("const:"):
                dom = fn.dominators()
                def _tests_idx(blk):
                    idx_locals = {ev[1] for ev in blk["e"] if ev[0] == "mv" and re.search(r"\.idx\)?$", str(ev[2]))}
                    return any(ev[0] == "binop" and ev[1] in ("Gt", "Ge", "Lt", "Le", "Ne", "Eq") and
                               (re.search(r"\.idx", str(ev[5]) + str(ev[6])) or str(ev[5]) in idx_locals or str(ev[6]) in idx_locals)
                               for ev in blk["e"])
                ok = any(fn.blocks[d]["k"] == "switch" and _tests_idx(fn.blocks[d]) for d in dom.get(i, ()))
                why = "constant without a dominating test of idx"
            else:
                if maps is None:
                    maps = _backward(fn)
                toks = lib.TOK.findall(sub)
                org = set()
                for t_ in toks:
                    org |= _origins(fn, t_, maps)
                calls = [maps[2][o.split(".")[0]]["callee"] for o in org if o.split(".")[0] in maps[2]]
                is_min = any(re.search(r"::min$", c) for c in calls)
                is_errlen = any(re.search(r"Utf8Error\}::error_len$", c) for c in calls)
                other = [c for c in calls if re.search(r"::(unwrap_or|unwrap_or_else|unwrap_or_default|len|max|capacity)$", c)]
                ok = is_min or (is_errlen and not other)
                why = "computed from %s" % ", ".join(sorted(set(lib.split_path(c)[-1] for c in calls))[:5])
            R.inst("C07.k", key, ok,
                   "%s subtracts from the look-ahead cursor a quantity that is not bounded by it (%s, line %s): when the stream "
                   "ends inside a multi-byte UTF-8 sequence the cursor holds 1–3 and the subtraction underflows — peek-char "
                   "panics (aborts under the JIT) instead of yielding the replacement character" % (fn.short(), why, e[3]),
                   fn.loc(e[3]), sample=True)
    R.floor("C07.k", "subtractions from Peekable.idx", n, 3)


def bounds_strictness_rule(F, R):
    R.rule("C07.t", "wherever the repository compares a position with a length and then uses the position (contradiction rule, all "
                    "of steel-core, not only native primitives): for every element access (slice / Vec / persistent-vector / "
                    "SmallVec index, set, remove, swap; MIR bounds checks included) that is dominated by a branch on a comparison "
                    "between the plain position and a plain len(), the relation that holds on the edge leading to the access is "
                    "`position < length` (cut positions — insert, split, take — may equal the length): a test written `>` "
                    "instead of `>=` lets the one-past-the-end position through to an operation that panics")
    n = 0
    for name, fn in sorted(F.fns.items()):
        if not name.startswith("steel::"):
            continue
        sites = []
        for i, b in enumerate(fn.blocks):
            if b["c"]:
                continue
            if b["k"] == "call" and re.search(IDX_RX, b["callee"]) and len(b["args"]) >= 2:
                if b["targs"] and any("Range" in t for t in b["targs"]):
                    continue
                sites.append((i, [t for a in b["args"][1:2] for t in lib.TOK.findall(a)],
                              bool(re.search(ELEM_RX, b["callee"])), lib.split_path(b["callee"])[-1]))
            elif b["k"] == "assert" and b.get("what") == "bounds":
                idx = [e[2] for e in b["e"] if e[0] == "der" and len(e) >= 5 and e[3] == "Lt" and e[4] == 0]
                sites.append((i, [t for a in idx for t in lib.TOK.findall(a)], True, "[]"))
        if not sites:
            continue
        maps = _backward(fn)
        mvonly = (maps[0], {}, {})
        lens = {d for d, c in maps[2].items() if re.search(r"::len$|::length$", c["callee"])}
        cmp_ops, cmp_opname = {}, {}
        for blk2 in fn.blocks:
            for e in blk2["e"]:
                if e[0] == "der" and len(e) >= 5:
                    if e[3] == "PtrMetadata":
                        lens.add(e[1])
                    elif e[3] in ("Lt", "Le", "Gt", "Ge"):
                        cmp_ops.setdefault(e[1], {}).setdefault(e[4], set()).update(lib.TOK.findall(lib._norm(e[2])))
                        cmp_opname[e[1]] = e[3]
        if not cmp_ops:
            continue
        dom = fn.dominators()
        for i, toks, elem, what in sites:
            if not toks:
                continue
            idx_direct = set()
            for t in toks:
                idx_direct |= _origins(fn, t, mvonly)
            rels = []
            for sb in dom[i]:
                blk = fn.blocks[sb]
                if sb == i or blk["k"] != "switch" or blk["on"] != "bool":
                    continue
                loc = re.match(r"_\d+", blk.get("place", "").strip("()*"))
                if not loc:
                    continue
                for c_ in [loc.group(0)] + [x for x in _origins(fn, loc.group(0), mvonly) if x in cmp_ops]:
                    ops = cmp_ops.get(c_)
                    if not ops:
                        continue
                    for a_, b_ in ((0, 1), (1, 0)):
                        dl, dp = set(), set()
                        for t in ops.get(a_, ()):
                            dl |= _origins(fn, t, mvonly)
                        for t in ops.get(b_, ()):
                            dp |= _origins(fn, t, mvonly)
                        if dl & lens and dp & idx_direct and not (dp & lens):
                            rels.append(_relation_on_the_way(fn, sb, i, cmp_opname[c_], b_))
            if not rels:
                continue
            n += 1
            good = {"Lt"} if elem else {"Lt", "Le"}
            ok = any(r in good or r is None for r in rels)
            sym = {"Lt": "<", "Le": "<=", "Gt": ">", "Ge": ">=", None: "?"}
            R.inst("C07.t", "%s / %s: the bounds comparison admits only positions the access accepts" % (fn.short(), what), ok,
                   "%s tests the position against a length and then performs `%s` (line %s) on the edge where only `position %s "
                   "length` is known: the position one past the end reaches an access that panics" % (
                       fn.short(), what, fn.blocks[i].get("line"), "/".join(sorted(sym[r] for r in rels))),
                   fn.loc(fn.blocks[i].get("line")), sample=n <= 3)
    R.floor("C07.t", "accesses dominated by a plain position/length comparison", n, 12)


def global_slot_index_rule(F, R):
    R.rule("C07.g", "the global table is not indexed with an unchecked slot number: in steel::env every indexing of the table "
                    "of global values (Index / IndexMut, or unwrap of get / get_mut) by a position that derives from a `usize` "
                    "parameter is dominated by an ordering comparison of that position (with the table's length), or goes through "
                    "`get` with a handled None. A slot number is handed out when a definition is compiled and the table only grows "
                    "when it is executed: code of the same piece that runs in between reads past the end")
    n = 0
    from . import shared as shared_
    reach_ = shared_.script_reach(F)
    for name, fn in sorted(F.fns.items()):
        if not name.startswith("steel::env::") or fn.d["kind"] == "Closure":
            continue
        if name not in reach_:
            continue        # not reachable from the engine (dead helper)
        nargs = fn.d.get("nargs") or 0
        params = ["_%d" % k for k in range(1, nargs + 1) if k - 1 < len(fn.d.get("in") or []) and (fn.d["in"][k - 1] == "usize")]
        if not params:
            continue
        taint = lib.tainted_locals(fn, params)
        dom = fn.dominators()
        for i, b in fn.calls():
            idx_site = re.search(r"::index(_mut)?$", b["callee"]) and len(b["args"]) > 1 and any(
                x in taint for x in lib.TOK.findall(b["args"][1]))
            unwrap_site = False
            if re.search(r"Option<T>\}::(unwrap|expect)$", b["callee"]) and b["args"]:
                srcs = lib.alias_sources(fn, b["args"][0])
                for j, gb in fn.calls():
                    if gb["dest"] in srcs and re.search(r"::(get|get_mut)$", gb["callee"]) and len(gb["args"]) > 1 and \
                            any(x in taint for x in lib.TOK.findall(gb["args"][1])):
                        unwrap_site = True
            if not (idx_site or unwrap_site):
                continue
            n += 1
            guarded = False
            for d in dom.get(i, ()):
                for e in fn.blocks[d]["e"]:
                    if e[0] == "binop" and e[1] in ("Lt", "Le", "Gt", "Ge") and any(
                            x in taint for o in e[5:] for x in lib.TOK.findall(str(o))):
                        guarded = True
            R.inst("C07.g", "%s / slot position compared before it indexes the table (site at block order %d)" % (
                fn.short(), sum(1 for j_, _ in fn.calls() if j_ < i and re.search(r"::index(_mut)?$|::(unwrap|expect)$", _["callee"]))), guarded,
                   "%s indexes the table of globals (line %s) with a slot number it did not compare with the table's length: a "
                   "function compiled in the same piece as a redefinition refers to the fresh slot, and calling it before the "
                   "definition runs — (begin (define (g y) (f y)) (g 1) (define (f x) …)) after an earlier (define (f x) …) — "
                   "aborts the host with an index panic" % (fn.short(), b.get("line")), fn.loc(b.get("line")), sample=True)
    R.floor("C07.g", "indexings of the global table by a slot parameter", n, 2)


def lexer_const_index_rule(F, R):
    R.rule("C07.i", "a constant-position index in the reader is protected by a length test: for every bounds-checked index at a "
                    "constant position in steel_parser::lexer (MIR bounds assertion with a constant index), a branch on a length "
                    "test (str / slice len, is_empty) dominates the index in its function with one side leading to it — or, when "
                    "the indexed value is a parameter of a private helper, dominates every call of that helper. A token that "
                    "ends where the text ends (`#\\` as the last two characters of a file, a REPL line, a string handed to read) "
                    "has nothing at that position, and the index panic takes the host down")
    LEN = r"core::str::\{impl str\}::(len|is_empty)$|\{impl \[T\]\}::(len|is_empty)$|Vec<T,A>\}::(len|is_empty)$"

    def guarded(fn, site):
        dom = fn.dominators()
        lens = [b["dest"] for i, b in fn.calls() if re.search(LEN, b["callee"]) and i in dom.get(site, ())]
        if not lens:
            return False
        taint = lib.tainted_locals(fn, lens)
        for sb in dom.get(site, ()):
            blk = fn.blocks[sb]
            if sb == site or blk["k"] != "switch":
                continue
            if not any(x in taint for x in lib.TOK.findall(str(blk.get("place", "")))):
                continue
            sides = [t for t in set(blk["s"]) if t == site or site in fn.reachable_from([t], avoid={sb})]
            if len(sides) == 1:
                return True
        return False
    n = 0
    for name, fn in sorted(F.fns.items()):
        if not name.startswith("steel_parser::lexer::"):
            continue
        for i, b in enumerate(fn.blocks):
            if b["c"] or b["k"] != "assert" or "bounds" not in str(b.get("what", "")):
                continue
            if not any(e[0] == "kv" and str(e[2]).startswith("const:") for e in b["e"]):
                continue        # not a constant position
            n += 1
            ok = guarded(fn, i)
            where = fn
            if not ok:
                callers = [(g, j) for g in F.fns.values() if g.name.startswith("steel_parser::") for j, cb in g.calls() if cb["callee"] == name]
                ok = bool(callers) and all(guarded(g, j) for g, j in callers)
                if callers and not ok:
                    where = [g for g, j in callers if not guarded(g, j)][0]
            R.inst("C07.i", "%s / constant-position index #%d is protected by a length test" % (fn.short(), n), ok,
                   "%s indexes at a constant position (line %s) and neither it nor %s tests the length first: a token cut off by "
                   "the end of the text — a source ending in `#\\` — makes the reader panic (exit status 101) instead of reporting "
                   "an invalid character" % (fn.short(), b.get("line"), "every caller" if where is fn else where.short()),
                   fn.loc(b.get("line")), sample=True)
    R.floor("C07.i", "constant-position indexes in the lexer", n, 1)
