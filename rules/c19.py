"""C19 — unreachable storage is eventually reclaimed (DESIGN §4 C19).

Decided clauses: (a) the root work-list is empty when marking ends, (b) mark bits are reset before each full mark,
(c) free counts are recomputed from the mark statistics, (d) host roots die with their token, (e) deferred
reference-count drops are merged at collection points.  Not decided: that memory stays bounded (quantitative).
"""
import re

from . import lib, c06
from .lib import CheckError

DRAIN = r"(alloc::vec::\{impl Vec<T,A>\}::(clear|truncate|drain|set_len)$|core::mem::(take|replace|swap)$)"


def run(F, R, ctx):
    _run(F, R, ctx)
    compaction_rule(F, R)
    stats_flow_rule(F, R)
    entry_cleanup_rule(F, R)
    queue_entry_rule(F, R)
    bounded_threshold_rule(F, R)
    candidates_reconsidered_rule(F, R)


def _run(F, R, ctx):
    R.rule("C19.a", "Heap::mark: every path from pushing roots onto Heap.mark_and_sweep_queue to the return drains that "
                    "vector: either the sequential visitor (pop until empty) runs, or the queue is cleared after the "
                    "parallel marker borrowed it")
    R.rule("C19.b", "every call of Heap::mark_and_sweep_new is dominated by FreeList::mark_all_unreachable on both the "
                    "value and the vector free list")
    R.rule("C19.c", "after each full mark both free lists' alloc_count are recomputed (assignment from the mark statistics "
                    "or recount())")
    R.rule("C19.d", "a host root is released exactly when its token dies: RootToken has a Drop impl reaching Roots::free, "
                    "and RootToken / RootedSteelVal's token are not Clone/Copy")
    R.rule("C19.e", "every collection entry (value_collection, vector_collection, allocate_vector_iter) first merges "
                    "deferred reference-count decrements (steel_rc::QueueHandle::run_explicit_merge)")

    mark = F.one(r"^steel::values::closed::\{impl Heap\}::mark$")
    pushes = mark.call_blocks(r"MarkAndSweepContext\}::push_back$")
    R.floor("C19.a", "root pushes in Heap::mark", len(pushes), 5)
    uses_queue = any(e[1] == "Heap" and e[2] == "mark_and_sweep_queue" for _, _, e in mark.events("fld"))
    if not uses_queue:
        raise CheckError("anchor lost: Heap::mark no longer uses Heap.mark_and_sweep_queue")
    seq = mark.call_blocks(r"for MarkAndSweepContext\}::visit$") + mark.call_blocks(r"BreadthFirstSearchSteelValVisitor::visit$")
    par = mark.call_blocks(r"\{impl ParallelMarker\}::mark$")
    drains = mark.call_blocks(DRAIN)
    # a drain only counts if it comes after the marker used the queue
    after_par = set()
    for p in par:
        after_par |= mark.reachable_from(mark.succ(p))
    drains_after = [d for d in drains if d in after_par] if par else drains
    via = set(seq) | set(drains_after)
    last = pushes
    ok, w = mark.every_path_passes_from([s for p in last for s in mark.succ(p)], mark.returns(), via)
    R.inst("C19.a", "Heap::mark / root queue drained before return", ok,
           "Heap::mark pushes every root of the collection onto Heap.mark_and_sweep_queue and can return without "
           "emptying it (the parallel marker only borrows the slice): the roots of every past collection stay alive and "
           "are re-marked forever, so storage that was reachable at any earlier collection is never reclaimed",
           mark.loc(), sample={"parallel_marker_calls": len(par), "sequential_visits": len(seq), "drains_after_mark": len(drains_after)})
    # the recycler's own queue
    rec = F.one(r"for GlobalSlotRecycler\}::visit$")
    R.inst("C19.a", "GlobalSlotRecycler::visit pops its queue", bool(rec.call_blocks(r"GlobalSlotRecycler\}::pop_front$", wrappers=True)),
           "GlobalSlotRecycler::visit no longer pops its work-list", rec.loc(), nontrivial=True)

    # ---- b, c
    ms = r"\{impl Heap\}::mark_and_sweep_new$"
    callers = [f for f in F.fns.values() if f.call_blocks(ms) and f.name.startswith("steel::values::closed::")]
    R.floor("C19.b", "callers of mark_and_sweep_new", len(callers), 1)
    for fn in callers:
        dom = fn.dominators()
        for b in fn.call_blocks(ms):
            resets = [x for x in fn.call_blocks(r"FreeList<T>\}::mark_all_unreachable$") if x in dom[b]]
            fields = set()
            for x in resets:
                for e in fn.blocks[x]["e"]:
                    if e[0] == "fld" and e[1] == "Heap" and e[2] in ("memory_free_list", "vector_free_list"):
                        fields.add(e[2])
                # the receiver borrow is usually in the same block as the call
            R.inst("C19.b", "%s / both free lists reset before full mark" % fn.short(), len(resets) >= 2,
                   "%s runs a full mark with only %d dominating mark_all_unreachable call(s): mark bits left set from the "
                   "previous cycle keep dead slots alive forever" % (fn.short(), len(resets)), fn.loc(fn.blocks[b]["line"]),
                   sample={"resets": len(resets)})
            after = fn.reachable_from(fn.succ(b))
            wr = []          # writes in the function or in a helper it calls after the mark (two calls deep)
            for i, e in lib.deep_events(F, fn, "fld"):
                if i in after and e[1] == "FreeList" and e[2] == "alloc_count" and e[3][0] == "w":
                    wr.append(i)
            rc = [x for x in fn.call_blocks(r"FreeList<T>\}::recount$") if x in after]
            R.inst("C19.c", "%s / free counts recomputed after full mark" % fn.short(), len(wr) + len(rc) >= 2,
                   "%s does not recompute both free lists' alloc_count after the full mark (found %d assignments, %d "
                   "recount calls): freed slots are never handed out again" % (fn.short(), len(wr), len(rc)),
                   fn.loc(fn.blocks[b]["line"]), sample={"assignments": len(wr), "recounts": len(rc)})
    for nm in ("allocate", "allocate_vector", "allocate_vector_iter", "collection"):
        fn = F.one(r"^steel::values::closed::\{impl Heap\}::%s$" % nm)
        p = F.reaches(fn.name, ms, maxdepth=2, stop=lambda n: "{impl Heap}" not in n)
        R.inst("C19.b", "Heap::%s can run a full mark" % nm, p is not None,
               "Heap::%s no longer reaches Heap::mark_and_sweep_new: storage allocated through it is only ever reclaimed "
               "by the weak (handle-count) collection, never when it is merely unreachable" % nm, fn.loc(), sample=True)
    # ---- g
    R.rule("C19.g", "globals that are redefined become reclaimable: SymbolMap::add hands the previous slot of every "
                    "replaced name to FreeList::add_shadowed (the recycler's candidate list), and the recycler drains it")
    c06.shadow_bookkeeping_rule(F, R, "C19.g")
    rc = F.one(r"\{impl GlobalSlotRecycler\}::recycle$")
    rd = set((e[1], e[2]) for _, e in lib.family_events(F, rc, "fld"))
    R.inst("C19.g", "GlobalSlotRecycler::recycle consumes shadowed_slots and refills free_list",
           ("FreeList", "shadowed_slots") in rd and ("FreeList", "free_list") in rd,
           "GlobalSlotRecycler::recycle no longer drains FreeList.shadowed_slots into FreeList.free_list", rc.loc(), sample=True)
    # ---- d
    tok = F.adt("RootToken")
    R.inst("C19.d", "RootToken has a destructor", bool(tok["drop"]),
           "RootToken has no Drop impl: a host root is never released", tok["file"] + ":" + str(tok["line"]), sample=True)
    if tok["drop"]:
        dropfns = [f for n, f in F.fns.items() if re.search(r"\{impl Drop for RootToken\}::drop$", n)]
        ok = any(F.reaches(f.name, r"\{impl Roots\}::free$", maxdepth=3) for f in dropfns)
        R.inst("C19.d", "RootToken::drop reaches Roots::free", ok,
               "RootToken's destructor no longer calls Roots::free: host roots accumulate", dropfns[0].loc() if dropfns else "")
    # the entry removed is the one the token names: every component of the key handed to the table's remove derives from the
    # token, none from the table's own current state (its generation moves on at every full collection)
    fr = F.one(r"\{impl Roots\}::free$")
    from .c07 import _backward, _origins
    maps_ = _backward(fr)
    raw_ = {}
    for b_ in fr.blocks:
        for e_ in b_["e"]:
            if e_[0] == "mv":
                raw_.setdefault(e_[1].split(".")[0], []).append(e_[2])
    rm = [b_ for _, b_ in fr.calls() if re.search(r"::(remove|remove_entry|swap_remove)$", b_["callee"]) and len(b_["args"]) >= 2]
    from_self = set()
    for b_ in rm:
        for o_ in _origins(fr, re.match(r"_\d+", b_["args"][1]).group(0), maps_, depth=12):
            for s_ in raw_.get(o_.split(".")[0], ()):
                m_ = re.match(r"^\(\*_1\)\.(\w+)$", s_)
                if m_ and o_.split(".")[0] != re.match(r"_\d+", b_["args"][0]).group(0):
                    from_self.add(m_.group(1))
    from_self -= {"roots"}
    R.inst("C19.d", "Roots::free removes the entry the token names", bool(rm) and not from_self,
           "Roots::free builds the key it removes from the table's own state (%s) instead of from the token alone: a token "
           "released after a full collection advanced the generation names an entry that is not there, the root is never "
           "removed, and what it holds is immortal" % ", ".join(sorted(from_self)), fr.loc(), sample=True)
    for ty in ("RootToken", "RootedSteelVal"):
        cl = [im for im in F.impls if im["self"].split("<")[0] == ty and im["trait"] and
              re.search(r"::(Clone|Copy)$", im["trait"])]
        R.inst("C19.d", "%s is not Clone/Copy" % ty, not cl or ty == "RootedSteelVal" and False,
               "%s implements %s: a copied token frees the root while the other copy is still alive (or never frees it)" % (
                   ty, ",".join(i["trait"] for i in cl)), "", sample=True)
    # ---- e
    mrx = r"steel_rc::\{impl QueueHandle\}::run_explicit_merge$"
    for nm in ("allocate", "allocate_vector", "allocate_vector_iter", "collection"):
        fn = F.one(r"^steel::values::closed::\{impl Heap\}::%s$" % nm)
        p = F.reaches(fn.name, mrx, maxdepth=2, stop=lambda n: "{impl Heap}" not in n)
        R.inst("C19.e", "Heap::%s merges deferred decrements" % nm, p is not None,
               "Heap::%s no longer reaches steel_rc::QueueHandle::run_explicit_merge: decrements queued by other threads "
               "keep dead values alive across collections" % nm, fn.loc(), sample=True)
    for fn in [f for f in F.fns.values() if f.name.startswith("steel::values::closed::{impl Heap}") and f.call_blocks(mrx)]:
        merges = fn.call_blocks(mrx)
        dom = fn.dominators()
        firsts = fn.call_blocks(r"FreeList<T>\}::(weak_collection|mark_all_unreachable)$")
        ok = all(any(m in dom[b] for m in merges) for b in firsts)
        R.inst("C19.e", "%s / merge precedes the collection decision" % fn.short(), ok,
               "%s runs a weak/full collection on a path that has not merged the deferred decrements first" % fn.short(),
               fn.loc(), sample=True)


def compaction_rule(F, R):
    from . import c07
    R.rule("C19.h", "a slot list that has grown RESET_LIMIT times is compacted, whatever else holds: in every collection routine "
                    "that chooses between FreeList::compact and FreeList::grow after a full sweep, some outcome of a test computed "
                    "from FreeList.grow_count (and constants) only leads to compact with no way round it to grow — further "
                    "conditions may add compactions, not veto one. grow() doubles the slot list after "
                    "every full collection and compact() is the only operation that shrinks it, so any further condition on "
                    "compaction lets the list of a program with a small live set grow with the total number of objects ever "
                    "allocated")
    n = 0
    for name, fn in sorted(F.fns.items()):
        if not name.startswith("steel::values::closed::"):
            continue
        comp = fn.call_blocks(r"FreeList<T>\}::compact$")
        grow = fn.call_blocks(r"FreeList<T>\}::grow$")
        if not comp or not grow:
            continue
        maps = c07._backward(fn)
        dom = fn.dominators()
        for g in grow:
            for c in comp:
                common = [b for b in dom[g] if b in dom[c]]
                if not common:
                    continue
                # decision switches: dominated by the last common dominator, one side reaches compact, another reaches grow
                # without compact
                bad = []
                ndec = 0
                gc_switches = []
                others = []
                for b, blk in enumerate(fn.blocks):
                    if blk["k"] != "switch" or blk.get("c"):
                        continue
                    succ = fn.succ(b)
                    to_c = [s_ for s_ in succ if c in fn.reachable_from([s_], avoid=[g])]
                    to_g = [s_ for s_ in succ if g in fn.reachable_from([s_], avoid=[c])]
                    if not to_c or not to_g or set(to_c) == set(to_g) and len(set(succ)) == 1:
                        continue
                    if not (set(to_g) - set(to_c)) and not (set(to_c) - set(to_g)):
                        continue  # both sides still undecided: not a separating branch
                    ndec += 1
                    loc = re.match(r"_\d+", blk.get("place", "").strip("()*"))
                    org = c07._origins(fn, loc.group(0), maps) if loc else set()
                    reads_gc = any(re.search(r"\.grow_count\b", e[2]) for bb in fn.blocks for e in bb["e"]
                                   if e[0] == "mv" and e[1] in org)
                    through_call = [maps[2][o.split(".")[0]]["callee"] for o in org if o.split(".")[0] in maps[2]]
                    if reads_gc and not through_call:
                        gc_switches.append((b, to_c))
                    else:
                        others.append((b, blk.get("line"), [lib.short_name(x) for x in through_call][:2]))
                # some outcome of a grow_count test must force compaction: from that edge compact is reachable and grow is
                # not reachable without passing compact
                forcing = False
                for sg, sg_to_c in gc_switches:
                    for s_ in sg_to_c:
                        if g not in fn.reachable_from([s_], avoid=[c]):
                            forcing = True
                if not forcing:
                    bad = [(line, calls) for _, line, calls in others] or [("?", ["no grow_count test forces compaction"])]
                n += 1
                R.inst("C19.h", "%s / compact-or-grow is decided by grow_count alone" % fn.short(), ndec >= 1 and not bad,
                       "%s: the choice between compacting and growing the slot list also depends on %s: once the condition is "
                       "false with grow_count above the limit the list is doubled after every full collection and never "
                       "shrunk, so memory grows with the number of (cyclic) objects ever allocated although the reachable set "
                       "is bounded" % (fn.short(), bad[:2]), fn.loc(fn.blocks[c].get("line")), sample={"decisions": ndec})
    R.floor("C19.h", "compact-or-grow decisions", n, 3)


def stats_flow_rule(F, R):
    from . import c07
    R.rule("C19.k", "what is marked is counted: the statistics Heap::mark returns (from which both free counts are recomputed as "
                    "len − reached) are computed from every marker that ran — the value returned derives from the result of "
                    "the parallel marker (when it is called) and from MarkAndSweepContext.stats of the context that was handed "
                    "to Synchronizer::enumerate_stacks, whose sequential visitor marks everything reachable from the other "
                    "threads' stacks. A marker whose count is dropped leaves the free count larger than the number of "
                    "unmarked slots: FreeList::allocate then searches for a free slot that does not exist")
    mark = F.one(r"^steel::values::closed::\{impl Heap\}::mark$")
    enum = mark.call_blocks(r"\{impl Synchronizer\}::enumerate_stacks$", wrappers=True)
    if not enum:
        raise CheckError("anchor lost: Heap::mark no longer walks the other threads' stacks (enumerate_stacks)")
    es = F.one(r"^steel::steel_vm::vm::\{impl Synchronizer\}::enumerate_stacks$")
    visits = any(re.search(r"::visit$", cb["callee"]) and
                 ("MarkAndSweepContext" in cb["callee"] or any("MarkAndSweepContext" in t for t in cb.get("targs", [])))
                 for _, cb in lib.deep_calls(F, es, depth=2))
    maps = c07._backward(mark)
    org = c07._origins(mark, "_0", maps, depth=20)
    # locals holding (a copy of) MarkAndSweepContext.stats
    stats_locals = set()
    for b in mark.blocks:
        if b["c"]:
            continue
        if any(e[0] == "fld" and e[1] == "MarkAndSweepContext" and e[2] == "stats" for e in b["e"]):
            for e in b["e"]:
                if e[0] == "mv" and re.search(r"\.stats\b", e[2]):
                    stats_locals.add(e[1].split(".")[0])
    from_ctx = any(o.split(".")[0] in stats_locals for o in org)
    par = [i for i, cb in mark.calls() if re.search(r"\{impl ParallelMarker\}::mark$", cb["callee"])]
    par_dest = {re.match(r"_\d+", mark.blocks[i]["dest"]).group(0) for i in par if mark.blocks[i].get("dest")}
    from_par = (not par) or any(o.split(".")[0] in par_dest for o in org)
    R.inst("C19.k", "Heap::mark / the returned statistics include the sequential visitor's (other threads' stacks)",
           (not visits) or from_ctx,
           "Heap::mark returns statistics that do not derive from MarkAndSweepContext.stats although enumerate_stacks ran the "
           "sequential visitor on that context: everything reached through another thread's stack is marked but not counted, "
           "the free counts recomputed from `len − reached` are too large, and FreeList::allocate panics looking for a free "
           "slot (three threads each keeping 20000 boxes alive)", mark.loc(), sample={"parallel_marker": bool(par)})
    R.inst("C19.k", "Heap::mark / the returned statistics include the parallel marker's", from_par,
           "Heap::mark calls the parallel marker but the statistics it returns do not derive from that call's result",
           mark.loc(), sample=True)


def entry_cleanup_rule(F, R):
    R.rule("C19.t", "what a native entry into a closure pushed is taken off again on every exit: in each VmCore function that "
                    "runs a closure's body through call_with_instructions_and_reset_state and afterwards cuts the operand "
                    "stack back (Vec<SteelVal>::truncate), every path from the nested run to the function's return passes that "
                    "truncate — the error exit included. The operand stack is a root set: arguments and locals of a failed "
                    "host call left on it keep their storage marked at every later collection")
    run_rx = r"\{impl VmCore\}::call_with_instructions_and_reset_state$"
    n = 0
    for name, fn in sorted(F.fns.items()):
        if not re.match(r"steel::steel_vm::vm::\{impl VmCore\}::", name):
            continue
        runs = fn.call_blocks(run_rx)
        if not runs:
            continue
        after = set()
        for r in runs:
            after |= fn.reachable_from(fn.succ(r))
        trunc = [i for i, cb in fn.calls() if i in after and re.search(r"Vec<T,A>\}::truncate$", cb["callee"]) and
                 cb.get("targs") and cb["targs"][0] == "SteelVal"]
        if not trunc:
            continue
        n += 1
        ok = all(fn.every_path_passes_from(fn.succ(r), fn.returns(), trunc)[0] for r in runs)
        R.inst("C19.t", "%s / the operand stack is cut back on every exit after the nested run" % fn.short(), ok,
               "%s cuts the operand stack back after running the closure only on some paths (an early return — `?` — on the "
               "error result skips it): after a failed call from the host, the callee's arguments and locals stay on "
               "SteelThread.stack, which every collection uses as roots, so whatever they referenced is never freed"
               % fn.short(), fn.loc(fn.blocks[trunc[0]].get("line")), sample=True)
    R.floor("C19.t", "native entries that cut the stack back", n, 1)


def _map_field(fn, local):
    for src in lib.alias_sources(fn, local):
        m = re.search(r"\)\.(\w+)$", src)
        if m:
            return m.group(1)
    return None


def queue_entry_rule(F, R):
    R.rule("C19.q", "steel-rc: a queue of deferred cross-thread decrements is never thrown away: every DashMap::insert into one of "
                    "the merge-queue maps (values: Vec<Wrapper>) either lies on the absent side of a lookup of the same map "
                    "(contains_key false / get, get_mut None) and on no path from its present side, or hands the displaced queue "
                    "on (the returned previous value is used). The objects in a displaced queue keep their queued flag, are never "
                    "queued again and never merged: what they hold is never released")
    n = 0
    for name, fn in sorted(F.fns.items()):
        if not name.startswith("steel_rc::"):
            continue
        for i, b in fn.calls():
            if re.search(r"DashMap<K,V,S>\}::entry$", b["callee"]) and any("Wrapper" in t for t in (b.get("targs") or [])):
                n += 1      # the entry API keeps an existing queue by construction
                R.inst("C19.q", "%s / entry() on QueueHandle.%s keeps an existing queue" % (fn.short(), _map_field(fn, b["args"][0])),
                       True, nontrivial=False)
                continue
            if not re.search(r"DashMap<K,V,S>\}::insert$", b["callee"]) or not any("Wrapper" in t for t in (b.get("targs") or [])):
                continue
            n += 1
            fld = _map_field(fn, b["args"][0])
            dom = fn.dominators().get(i, set())
            ok = False
            for l, lb in fn.calls():
                if l not in dom or not re.search(r"DashMap<K,V,S>\}::(contains_key|get|get_mut)$", lb["callee"]):
                    continue
                if _map_field(fn, lb["args"][0]) != fld:
                    continue
                nxt, hops, sw = lb.get("ret"), 0, None
                while nxt is not None and hops < 5:
                    nb = fn.blocks[nxt]
                    if nb["k"] == "switch":
                        sw = nb
                        break
                    if len(fn.succ(nxt)) == 1:
                        nxt, hops = fn.succ(nxt)[0], hops + 1
                        continue
                    break
                if not sw:
                    continue
                if str(sw.get("on", "")).startswith("enum:Option"):
                    present = [t for v, t in sw["targets"] if v == "Some"]
                    absent = [t for t in fn.succ(nxt) if t not in present]
                else:
                    absent = [t for v, t in sw["targets"] if v in ("0", "None")]
                    present = [t for t in fn.succ(nxt) if t not in absent]
                if absent and i in (fn.reachable_from(absent) | set(absent)) and i not in (fn.reachable_from(present) | set(present)):
                    ok = True
            if not ok:
                dest = b["dest"]
                alias = {dest}
                for _, _, e in fn.events("mv"):
                    if e[2] in alias or e[2].split(".")[0] in alias or re.sub(r"^\(\*?(_\d+).*", r"\1", e[2]) in alias:
                        alias.add(e[1].split(".")[0])
                for j in fn.reachable_from(fn.succ(i)):
                    jb = fn.blocks[j]
                    if jb["k"] == "call" and any(a in alias for a in jb["args"]):
                        ok = True
            R.inst("C19.q", "%s / insert into QueueHandle.%s does not displace a queue" % (fn.short(), fld), ok,
                   "%s inserts a queue under a key of QueueHandle.%s (line %s) without having found the key absent, and drops what "
                   "the insert returns: when the thread is already registered, the deferred decrements waiting in its queue are "
                   "discarded — their objects stay flagged as queued, are never merged, and everything they hold leaks (a driver "
                   "thread that spawns workers and registers again before its next allocation grows by the workers' closures "
                   "every round)" % (fn.short(), fld, b.get("line")), fn.loc(b.get("line")), sample=True)
    R.floor("C19.q", "sites that add an entry to the merge-queue maps (insert / entry)", n, 2)


def bounded_threshold_rule(F, R):
    R.rule("C19.r", "the recycling threshold of shadowed global slots is bounded: in compiler::map every function that stores a "
                    "multiple of FreeList.threshold back into it (a multiplication, saturating / checked or not, with the "
                    "threshold as an operand) also stores a constant into it on another path (the cycle of generations comes back to "
                    "the base value). A threshold that only grows lets dead values of redefined globals stay roots for "
                    "geometrically longer stretches: an engine that keeps redefining globals no longer runs in bounded memory")
    n = 0
    for name, fn in sorted(F.fns.items()):
        if not name.startswith("steel::compiler::map::") or fn.d["kind"] == "Closure":
            continue
        writes = [(i, e) for i, _, e in fn.events("st") if re.search(r"\.threshold$", str(e[1]))]
        if not writes:
            continue
        grows = False
        for i, b in enumerate(fn.blocks):
            if b["c"]:
                continue
            for e in b["e"]:
                if e[0] == "binop" and e[1] in ("Mul", "MulWithOverflow") and any(re.search(r"\.threshold$", str(x)) for x in e[5:]):
                    grows = True
            if b["k"] == "call" and re.search(r"::(saturating_mul|checked_mul|wrapping_mul|pow|saturating_pow)$", b["callee"]) and b["args"]:
                if any(re.search(r"\.threshold$", s_) for a in b["args"] for s_ in lib.alias_sources(fn, a.split(".")[0])):
                    grows = True
        if not grows:
            continue
        n += 1
        resets = [i for i, e in writes if str(e[2]).startswith("const")]
        R.inst("C19.r", "%s / a multiplied threshold is also reset" % fn.short(), bool(resets),
               "%s multiplies FreeList.threshold and never stores a constant into it: the number of redefinitions between two runs of "
               "the shadowed-slot recycler grows without bound (1600, 3200, 6400, …), and the dead values those slots hold stay "
               "roots in between — 6100 redefinitions of one global holding a 64 KiB string: 282 MiB resident instead of 102" % fn.short(),
               fn.loc(), sample=True)
    R.floor("C19.r", "functions that multiply the recycling threshold", n, 1)


def candidates_reconsidered_rule(F, R):
    R.rule("C19.s", "a shadowed global slot that is still referenced when the recycler looks at it is looked at again later: "
                    "GlobalSlotRecycler::recycle takes every candidate out of FreeList.shadowed_slots (drain); the ones it finds "
                    "unreferenced go to the free list, so the ones it finds referenced must go back into a candidate list of the "
                    "FreeList (shadowed_slots or a later stage) — otherwise a redefined global whose old value was referenced at that "
                    "moment (by an older closure that is dropped afterwards) is never reclaimed")
    fn = F.one(r"^steel::values::closed::\{impl GlobalSlotRecycler\}::recycle$")
    drains = [b for _, b in fn.calls() if re.search(r"Vec<T,A>\}::drain$", b["callee"]) and b["args"] and
              any(re.search(r"\.shadowed_slots$", s_) for s_ in lib.alias_sources(fn, b["args"][0]))]
    R.inst("C19.s", "recycle takes its candidates out of FreeList.shadowed_slots", bool(drains),
           "GlobalSlotRecycler::recycle no longer drains FreeList.shadowed_slots (anchor changed)", fn.loc(), nontrivial=False)
    back = []
    for _, b in lib.deep_calls(F, fn, depth=2):
        if re.search(r"Vec<T,A>\}::(push|extend|extend_from_slice|append)$", b["callee"]) and b["args"]:
            # resolved in the function that makes the call: look the receiver up in every function of the family
            for g in [fn] + [F.fns[c["callee"]] for _, c in lib.deep_calls(F, fn, depth=2) if c["callee"] in F.fns]:
                try:
                    srcs = lib.alias_sources(g, b["args"][0])
                except Exception:
                    continue
                for s_ in srcs:
                    m = re.search(r"free_list\.(\w+)$", s_)
                    if m and m.group(1) != "free_list":
                        back.append(m.group(1))
    R.inst("C19.s", "GlobalSlotRecycler::recycle / candidates found referenced are put back into a candidate list", bool(back),
           "GlobalSlotRecycler::recycle drains FreeList.shadowed_slots and pushes nothing back into a candidate list: a shadowed slot "
           "that was still referenced during this pass (an older closure in a live list calls the older definition) is never looked "
           "at again, and what it holds stays a root for the life of the engine — 150 redefinitions of a global holding a 1 MB "
           "string, each older definition referenced by a closure in a list that is cleared afterwards: about 90 MB stay resident "
           "after 1200 further definitions and a collection, against the same history without the list", fn.loc(), sample=True)
