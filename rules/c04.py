"""C04 — the collector never reclaims reachable storage (DESIGN §4 C04).

Decided clauses:
  a  type-directed tracing completeness: every field of a value kind's payload that can own a heap handle is read
     by each marker's visit method for that kind.
  b  leaf-filter soundness: value kinds that a marker discards without tracing cannot own a heap handle.
  c  root-set agreement: every function that hands roots to a collection reads the same thread state; Heap::mark
     consumes every root argument and the host roots.
  d  unmark => complete mark: mark bits are cleared only on paths that run a full mark, or are put back.
  e  who may clear a mark bit.
"""
import re

from . import lib, heapmodel as hm
from .lib import CheckError

MARKERS = ["MarkAndSweepContext", "GlobalSlotRecycler", "MarkAndSweepContextRefQueue"]
WRAPPERS = {"Gc", "GcMut", "HeapRef", "SteelVal", "Shared", "SharedMut", "StandardShared", "StandardSharedMut"}

# (payload type, field) -> reason it need not be traced separately
FIELD_ALLOW = {
    ("OpaqueIterator", "iterator"): "iterates over `root`, which is pushed; it holds no value that root does not hold",
    ("SteelComplex", "re"): "real and imaginary parts are always real numbers (constructors in primitives/numbers.rs), never handles",
    ("ClosedContinuation", "closed_continuation"): "debug-assertions-only snapshot used by debug_assert_eq!; constructed as None at every construction site",
    ("SteelComplex", "im"): "real and imaginary parts are always real numbers (constructors in primitives/numbers.rs), never handles",
}


def strip_fn_types(t):
    # drop fn(...)->... pointer types from a short type string
    return re.sub(r"fn\([^()]*(\([^()]*\)[^()]*)*\)->[^,>]*", "", t)


def tracing_rule(F, R, rid, markers, hb, every_path=True, allow=None, floor=15):
    """type-directed tracing completeness for the given marker types (shared with C06.R for the slot recycler)"""
    # ---------------- a
    n_methods = 0
    for marker in markers:
        ms = [f for f in F.fns.values()
              if re.search(r"\{impl \w+(<[^}]*>)? for %s\}::visit_\w+$" % marker, f.name)]
        R.floor(rid, "visit methods of %s" % marker, len(ms), floor)
        for fn in sorted(ms, key=lambda f: f.name):
            n_methods += 1
            kind = fn.name.rsplit("::", 1)[1]
            rd = hm.fields_read(F, fn, depth=2)
            for t in fn.d["in"][1:]:
                for a in hm.adts_in_type(F, strip_fn_types(t)):
                    if a["short"] in WRAPPERS:
                        continue
                    for v, f, ty, ms_ in hm.hb_fields(F, a, hb):
                        key = "%s::%s / %s.%s" % (marker, kind, a["short"], f)
                        if (a["short"], f) in FIELD_ALLOW:
                            R.inst(rid, key, True, sample={"allowlisted": FIELD_ALLOW[(a["short"], f)]},
                                   nontrivial=False)
                            continue
                        ok = (a["short"], f) in rd
                        if allow and (marker, a["short"], f) in allow:
                            R.inst(rid, key, True, sample={"allowlisted": allow[(marker, a["short"], f)]}, nontrivial=False)
                            continue
                        if ok and a["kind"] == "struct" and every_path:
                            # ... and on every path: the reads form a cut between entry and every return
                            rb = hm.reader_blocks(F, fn, a["short"], f)
                            cut, w = fn.every_path_passes_from([0], fn.returns(), rb)
                            R.inst(rid, key + " / on every path", cut,
                                   "%s::%s can return without reading %s.%s (an exit path bypasses the traversal of that "
                                   "field): values reachable only through it are not marked on that path" % (
                                       marker, kind, a["short"], f), fn.loc(), sample=True)
                        R.inst(rid, key, ok,
                               "%s::%s does not read %s.%s : %s, which can own a heap handle (%s): values reachable only "
                               "through it are not marked and their storage is reclaimed" % (
                                   marker, kind, a["short"], f, ty, ", ".join(lib.short_name(m) for m in ms_)),
                               fn.loc(), sample={"field_type": ty})
    # continuation internals: closed continuation frames
    for marker in markers:
        fn = F.one(r"\{impl \w+(<[^}]*>)? for %s\}::visit_continuation$" % marker)
        rd = hm.fields_read(F, fn, depth=2)
        for adt, fields in (("ClosedContinuation", None), ("StackFrame", None), ("StackFrameAttachments", None)):
            a = F.adt(adt)
            for v, f, ty, ms_ in hm.hb_fields(F, a, hb):
                key = "%s::visit_continuation / %s.%s" % (marker, adt, f)
                if (adt, f) in FIELD_ALLOW or (allow and (marker, adt, f) in allow):
                    continue
                ok = (adt, f) in rd
                R.inst(rid, key, ok,
                       "%s::visit_continuation does not read %s.%s : %s of a closed continuation: values held only by a "
                       "captured continuation's %s are not marked" % (marker, adt, f, ty, f), fn.loc(),
                       sample={"field_type": ty})



def run(F, R, ctx):
    _run_main(F, R, ctx)
    pointer_queued_rule(F, R)
    queued_values_rule(F, R)


def _run_main(F, R, ctx):
    R.rule("C04.a", "for each marker (MarkAndSweepContext, GlobalSlotRecycler, MarkAndSweepContextRefQueue) and each "
                    "visit_<kind> method: every field of the payload type that can own a heap handle (HANDLE(T), computed "
                    "from field types; Weak* excluded) is read by the method or a steel callee within 2 levels")
    R.rule("C04.b", "value kinds discarded by a marker's push_back / SteelValPointer::from_value have payloads that "
                    "cannot own a heap handle")
    R.rule("C04.c", "root-set sibling agreement: every caller of Heap::{allocate,allocate_vector,allocate_vector_iter,"
                    "collection} reads SteelThread.{stack,stack_frames,global_env,thread_local_storage}; Heap::mark uses "
                    "every root parameter, the host roots (GLOBAL_ROOTS) and enumerate_stacks; enumerate_stacks reads "
                    "stack and stack_frames of every other thread")
    R.rule("C04.d", "mark bits are cleared (FreeList::mark_all_unreachable / HeapAllocated::reset over all slots) only in "
                    "functions that then run a full mark (Heap::mark_and_sweep_new) on every path, or that restore the "
                    "bits they cleared")
    R.rule("C04.e", "HeapAllocated.reachable is written only by the allocator, the markers and the sweep")
    hb = hm.handle_bearing(F)
    R.note("HANDLE(T) holds for %d types." % len(hb))

    tracing_rule(F, R, "C04.a", MARKERS, hb)

    # ---------------- b
    sv = F.adt("SteelVal")
    payload = {v["name"]: v["fields"] for v in sv["variants"]}

    def variant_hb(vname):
        for f in payload[vname]:
            if hm.owning(f) and any(m in hb or m in hm.DYN_SEEDS for m in f["mentions"]):
                return f
        return None

    filters = []
    for marker in MARKERS:
        filters.append((F.one(r"\{impl \w+(<[^}]*>)? for %s\}::push_back$" % marker), r"::push$|from_value$"))
    fv = F.one(r"\{impl SteelValPointer\}::from_value$")
    filters.append((fv, None))
    for fn, keep_rx in filters:
        sbs = lib.enum_switches(fn, "SteelVal")
        if not sbs:
            raise CheckError("anchor lost: no switch on SteelVal in %s" % fn.name)
        sb = max(sbs, key=lambda b: len(fn.blocks[b]["targets"]))
        m = lib.arm_map(fn, sb)
        kept_cache = {}
        for vname in payload:
            t = m.get(vname, m["_"])
            if t not in kept_cache:
                blocks = lib.arm_reach(fn, sb, t)
                if keep_rx:
                    kept_cache[t] = any(fn.blocks[b]["k"] == "call" and re.search(keep_rx, fn.blocks[b]["callee"]) for b in blocks)
                else:
                    kept_cache[t] = any(e[0] == "agg" and e[1] == "SteelValPointer" for b in blocks for e in fn.blocks[b]["e"])
            kept = kept_cache[t]
            if kept:
                continue
            f = variant_hb(vname)
            key = "%s discards SteelVal::%s" % (fn.short(), vname)
            allow = (vname == "Complex")
            R.inst("C04.b", key, f is None or allow,
                   "%s drops SteelVal::%s without tracing it, but its payload field %s can own a heap handle" % (
                       fn.short(), vname, f["ty"] if f else ""), fn.loc(fn.blocks[sb]["line"]),
                   sample={"payload": [x["ty"] for x in payload[vname]]}, nontrivial=True)
    # push_back of the parallel marker relies on from_value for the rest: covered by the from_value instance above.

    # ---------------- c
    need = ["stack", "stack_frames", "global_env", "thread_local_storage"]
    entry_rx = r"^steel::values::closed::\{impl Heap\}::(allocate|allocate_vector|allocate_vector_iter|collection)$"
    _, callers = F.graph()
    entries = [n for n in F.fns if re.search(entry_rx, n)]
    R.floor("C04.c", "Heap collection entry points", len(entries), 4)
    cs = set()
    for e in entries:
        cs |= {c for c in callers.get(e, ()) if "{impl Heap}" not in c}
    R.floor("C04.c", "callers handing roots to a collection", len(cs), 6)
    for c in sorted(cs):
        fn = F.fns[c]
        rd = hm.fields_read(F, fn, depth=1)
        for f in need:
            R.inst("C04.c", "%s / roots include SteelThread.%s" % (fn.short(), f), ("SteelThread", f) in rd,
                   "%s starts a collection but never reads SteelThread.%s, which its siblings pass as roots: values "
                   "reachable only from it are reclaimed" % (fn.short(), f), fn.loc(), sample=True)
    mark = F.one(r"^steel::values::closed::\{impl Heap\}::mark$")
    nargs = mark.d["nargs"]
    used = set()
    for b in mark.blocks:
        if b["c"]:
            continue
        txt = []
        for e in b["e"]:
            txt.append(" ".join(str(x) for x in e))
        if b["k"] == "call":
            txt.append(" ".join(b["args"]))
        if b["k"] == "switch":
            txt.append(b["place"])
        if b["k"] == "drop":
            continue
        for m_ in re.findall(r"_(\d+)\b", " ".join(txt)):
            used.add(int(m_))
    names = ["self", "root_value", "root_vector", "roots", "function_stack", "globals", "tls", "synchronizer"]
    for i in range(1, nargs + 1):
        nm = names[i - 1] if i - 1 < len(names) else "arg%d" % i
        R.inst("C04.c", "Heap::mark / consumes parameter #%d (%s)" % (i, nm), i in used,
               "Heap::mark never uses its parameter #%d (%s): that part of the root set is not marked" % (i, nm), mark.loc(),
               sample=True)
    R.floor("C04.c", "Heap::mark root parameters", nargs, 7)
    pb = len(mark.call_blocks(r"MarkAndSweepContext\}::push_back$"))
    R.inst("C04.c", "Heap::mark / pushes each root group", pb >= 6,
           "Heap::mark has only %d push_back call sites (root_value, root_vector, tls, roots, globals, captures expected)" % pb,
           mark.loc(), sample={"push_back_sites": pb})
    host = any(e[0] == "staticref" and re.search(r"GLOBAL_ROOTS|ROOTS", e[1]) for _, _, e in mark.events()) or \
        any(re.search(r"GLOBAL_ROOTS|ROOTS", c) for c in F.callees(mark))
    R.inst("C04.c", "Heap::mark / host roots (GLOBAL_ROOTS)", host,
           "Heap::mark no longer reads the host root table: values rooted by the embedder (RootedSteelVal) are reclaimed",
           mark.loc(), sample=True)
    R.inst("C04.c", "Heap::mark / other threads' stacks", bool(mark.call_blocks(r"\{impl Synchronizer\}::enumerate_stacks$", wrappers=True)),
           "Heap::mark no longer calls Synchronizer::enumerate_stacks: other threads' stacks are not roots", mark.loc())
    es = F.one(r"\{impl Synchronizer\}::enumerate_stacks$")
    rd = hm.fields_read(F, es, depth=1)
    for f in ("stack", "stack_frames", "current_frame", "thread_local_storage"):
        R.inst("C04.c", "Synchronizer::enumerate_stacks / reads SteelThread.%s" % f, ("SteelThread", f) in rd,
               "enumerate_stacks does not read SteelThread.%s of the stopped threads" % f, es.loc(), sample=True)
    R.inst("C04.c", "Synchronizer::enumerate_stacks / frame functions' captures", ("StackFrame", "function") in rd,
           "enumerate_stacks does not read StackFrame.function (captured variables of running closures)", es.loc())

    # ---------------- c2: the value(s) being stored are roots of the collection they may trigger
    R.rule("C04.f", "the value(s) about to be stored are roots: in Heap::{allocate,allocate_vector,allocate_vector_iter} "
                    "and Heap::{value_collection,vector_collection} the value/values parameter flows (moves, borrows, clones) "
                    "into the root arguments of the collection it may trigger")
    sinks = r"\{impl Heap\}::(value_collection|vector_collection|mark_and_sweep_new)$"
    for nm in ("allocate", "allocate_vector", "allocate_vector_iter", "value_collection", "vector_collection"):
        fn = F.one(r"^steel::values::closed::\{impl Heap\}::%s$" % nm)
        t = lib.tainted_locals(fn, ["_2"])
        calls = [(i, b) for i, b in fn.calls() if re.search(sinks, b["callee"])]
        if not calls:
            R.inst("C04.f", "Heap::%s / triggers a collection" % nm, False,
                   "Heap::%s no longer reaches a collection routine" % nm, fn.loc())
            continue
        for i, b in calls:
            flows = any(x in t for a in b["args"][1:] for x in re.findall(r"_\d+", a))
            R.inst("C04.f", "Heap::%s / value in flight passed as root to %s" % (nm, lib.split_path(b["callee"])[-1]), flows,
                   "Heap::%s calls %s without passing (anything derived from) the value(s) it is about to store: they are "
                   "held only by this native frame, so a collection triggered by this very allocation reclaims whatever "
                   "only they reference" % (nm, lib.short_name(b["callee"])), fn.loc(b["line"]),
                   sample={"args": b["args"]})

    # ---------------- h: sibling agreement between the markers on how many things each kind contributes
    R.rule("C04.h", "sibling agreement: for every value kind, each marker's visit_<kind> has at least as many trace sites "
                    "(push_back / mark_heap_reference / mark_heap_vector calls, closures included) as the least of the other "
                    "markers — e.g. a hash map contributes keys and values (2), a pair car and cdr (2), a stream two values")
    TRACE = r"::(push_back|mark_heap_reference|mark_heap_vector)$"
    counts = {}
    for marker in MARKERS:
        for n_, fn_ in F.fns.items():
            mm = re.search(r"\{impl \w+(<[^}]*>)? for %s(<[^}]*>)?\}::(visit_\w+)$" % marker, n_)
            if mm:
                def _traces(callee, _m=marker):
                    # a trace call, or one of the marker's own helpers (not a visit method) that traces
                    if re.search(TRACE, callee):
                        return True
                    h_ = F.fns.get(callee)
                    return bool(h_ is not None and re.search(r"\{impl %s(<[^}]*>)?\}::(?!visit_)\w+$" % _m, callee) and
                                any(re.search(TRACE, b2["callee"]) for _, b2 in lib.family_calls(F, h_)))
                counts.setdefault(mm.group(3), {})[marker] = (
                    len([1 for _, b_ in lib.family_calls(F, fn_) if _traces(b_["callee"])]), fn_)
    nh = 0
    for kind, per in sorted(counts.items()):
        if len(per) < 2 or not any(c for c, _ in per.values()):
            continue
        for marker, (c, fn_) in sorted(per.items()):
            others = [oc for om, (oc, _) in per.items() if om != marker]
            need = min(others)
            nh += 1
            R.inst("C04.h", "%s::%s has %d trace sites (siblings' least: %d)" % (marker, kind, c, need), c >= need,
                   "%s::%s traces %d thing(s) where every other marker's %s traces at least %d: part of what this kind of "
                   "value holds (e.g. the keys of a map, the cdr of a pair) is not marked by this marker" % (
                       marker, kind, c, kind, need), fn_.loc(), sample=True if nh <= 3 else None)
    R.floor("C04.h", "kinds compared", nh, 30)

    # ---------------- j: a full mark starts from a clean slate on BOTH free lists
    R.rule("C04.j", "every call of Heap::mark_and_sweep_new is dominated by FreeList::mark_all_unreachable on both the value "
                    "free list and the vector free list: the markers use the mark bit as their visited set "
                    "(mark_heap_reference returns early on an already-marked slot), so a stale mark on a box stops the "
                    "traversal there and everything reachable only through that box stays unmarked and is reclaimed")
    msn = r"\{impl Heap\}::mark_and_sweep_new$"
    for fn in [f for f in F.fns.values() if f.name.startswith("steel::values::closed::") and f.call_blocks(msn)]:
        dom = fn.dominators()
        for b in fn.call_blocks(msn):
            resets = [x for x in fn.call_blocks(r"FreeList<T>\}::mark_all_unreachable$") if x in dom[b]]
            lists = set()
            for x in resets:
                srcs = set()
                for a in fn.blocks[x]["args"][:1]:
                    srcs |= lib.alias_sources(fn, a) if a.startswith("_") else {a}
                for s_ in srcs:
                    for fld in ("memory_free_list", "vector_free_list"):
                        if fld in s_:
                            lists.add(fld)
            R.inst("C04.j", "%s / full mark starts with both free lists unmarked" % fn.short(),
                   lists == {"memory_free_list", "vector_free_list"},
                   "%s runs a full mark after resetting only %s: slots of the other list keep the marks of the previous "
                   "cycle, and the traversal stops at every already-marked box (mark_heap_reference returns early), so "
                   "mutable vectors / boxes reachable only through such a box are left unmarked and their slots are reused"
                   % (fn.short(), sorted(lists) or "nothing"), fn.loc(fn.blocks[b]["line"]), sample={"reset": sorted(lists)})

    # ---------------- i: the parallel marker marks every root and waits for every worker
    pm = F.find(r"^steel::values::closed::\{impl ParallelMarker\}::mark$")
    if pm:
        R.rule("C04.i", "ParallelMarker::mark queues every root it is given (from_value + push in a loop over the slice), wakes "
                        "the workers and does not return before it has received an acknowledgement from the workers (recv in "
                        "a loop, on every path to the return): marking is complete when the sweep starts")
        fn = pm[0]
        pushes = [i for i, b in fn.calls() if re.search(r"SegQueue<T>\}::push$", b["callee"])]
        fv = fn.call_blocks(r"\{impl SteelValPointer\}::from_value$")
        sends = [i for i, b in fn.calls() if re.search(r"Sender<T>\}::send$", b["callee"])]
        recvs = [i for i, b in fn.calls() if re.search(r"Receiver<T>\}::recv$", b["callee"])]
        in_loop = lambda b_: b_ in fn.reachable_from(fn.succ(b_))
        ok_push = bool(pushes) and bool(fv) and all(in_loop(p) for p in pushes)
        R.inst("C04.i", "ParallelMarker::mark queues every root", ok_push,
               "ParallelMarker::mark no longer pushes SteelValPointer::from_value(root) for each root in a loop", fn.loc(), sample=True)
        nxt = [i for i, b in fn.calls() if re.search(r"::next$", b["callee"])]
        heads = [h for h in nxt if any(r_ in fn.reachable_from(fn.succ(h), avoid=set(nxt) - {h}) for r_ in recvs)]
        ok_wait = bool(sends) and bool(recvs) and all(in_loop(r_) for r_ in recvs) and bool(heads) and \
            all(fn.every_path_passes_from(fn.succ(s_), fn.returns(), heads)[0] for s_ in sends)
        # the acknowledgement loop must range over the same collection as the wake-up loop: no take/skip/step_by adapters
        adapters = [b["callee"] for _, b in fn.calls() if re.search(r"::(take|skip|step_by|take_while|skip_while|filter|nth|last|first|split_at)$", b["callee"])]
        R.inst("C04.i", "ParallelMarker::mark waits for every worker it woke", ok_wait and not adapters,
               "ParallelMarker::mark can return (and the sweep start) without having received the acknowledgement of every "
               "worker it woke: slots reachable only through work still in flight are swept", fn.loc(), sample={"adapters": adapters})

    # ---------------- g: the two primitive steps of marking and of the weak collection
    R.rule("C04.g", "mark_heap_reference / mark_heap_vector of both marker contexts: on the not-yet-reachable path they set "
                    "the mark bit AND queue the slot's contents (push_back), and count the slot; FreeList::weak_collection's "
                    "predicate is `weak_count(handle) == 0` (a slot is free only when no handle exists)")
    for ctxname in ("MarkAndSweepContext", "MarkAndSweepContextRefQueue"):
        for nm in ("mark_heap_reference", "mark_heap_vector"):
            fn = F.one(r"^steel::values::closed::\{impl %s(<'a>)?\}::%s$" % (ctxname, nm))
            marks = fn.call_blocks(r"\{impl HeapAllocated<T>\}::mark_reachable$")
            tests = fn.call_blocks(r"\{impl HeapAllocated<T>\}::is_reachable$")
            pushes = fn.call_blocks(r"%s(<'a>)?\}::push_back$" % ctxname)
            ok = bool(marks) and bool(tests) and bool(pushes)
            if ok:
                # after marking, the contents must be queued on every path to the return
                ok = all(fn.every_path_passes_from(fn.succ(m_), fn.returns(), pushes)[0] or
                         any(p in fn.reachable_from(fn.succ(m_)) and p in fn.reachable_from([x for x in fn.succ(p)] + [p]) for p in pushes)
                         for m_ in marks)
                # a loop of pushes (vector elements) is fine: require at least that a push is reachable after the mark
                ok = ok and all(any(p in fn.reachable_from(fn.succ(m_)) for p in pushes) for m_ in marks)
            R.inst("C04.g", "%s::%s marks then queues the contents" % (ctxname, nm), ok,
                   "%s::%s no longer (tests the mark bit,) sets it and pushes the slot's contents onto the work-list: "
                   "everything reachable only through a box / mutable vector is not traced" % (ctxname, nm), fn.loc(), sample=True)
    wcs = F.find(r"^steel::values::closed::\{impl FreeList<T>\}::weak_collection$")
    R.floor("C04.g", "weak_collection", len(wcs), 1)
    for fn in wcs:
        okp = False
        for _, e in lib.family_events(F, fn, "binop"):
            if e[1] == "Eq" and e[2] == "usize" and "const:0" in (e[5], e[6]):
                okp = True
        cnt = any(re.search(r"::weak_count$", b["callee"]) for _, b in lib.family_calls(F, fn))
        strong = any(re.search(r"::strong_count$", b["callee"]) for _, b in lib.family_calls(F, fn))
        R.inst("C04.g", "FreeList::weak_collection frees a slot only when weak_count == 0", okp and cnt and not strong,
               "FreeList::weak_collection's predicate is no longer `weak_count(slot) == 0`: a slot that still has a handle "
               "(HeapRef) somewhere can be reclaimed by the cheap collection", fn.loc(), sample=True)

    # ---------------- d
    unmarkers = []
    for n, fn in F.fns.items():
        if not n.startswith("steel::"):
            continue
        bl = fn.call_blocks(r"FreeList<T>\}::(mark_all_unreachable|take_marks)$")
        if bl:
            unmarkers.append((fn, bl))
    R.floor("C04.d", "functions clearing all mark bits", len(unmarkers), 3)
    for fn, bl in unmarkers:
        full = fn.call_blocks(r"\{impl Heap\}::mark_and_sweep_new$")
        restore = fn.call_blocks(r"FreeList<T>\}::restore_marks$")
        for b in bl:
            ok1, w1 = fn.every_path_passes_from(fn.succ(b), fn.returns(), full)
            ok2, w2 = fn.every_path_passes_from(fn.succ(b), fn.returns(), restore)
            takes = bool(re.search(r"take_marks$", fn.blocks[b]["callee"]))
            ok = ok1 or (takes and ok2)
            R.inst("C04.d", "%s / clears mark bits then %s" % (fn.short(), "restores" if takes else "full mark"), ok,
                   "%s clears the mark bits of every heap slot (line %s) but a path reaches its return without a full "
                   "mark from the complete root set%s: live slots stay unmarked and are handed out again by the "
                   "allocator" % (fn.short(), fn.blocks[b]["line"], " or a restore of the saved bits" if takes else ""),
                   fn.loc(fn.blocks[b]["line"]), sample=True)
    # ---------------- e
    writers = set()
    for n, fn in F.fns.items():
        for i, j, e in fn.events("fld"):
            if e[1] == "HeapAllocated" and e[2] == "reachable" and e[3][0] in "wm":
                writers.add(n)
    allowed = re.compile(r"\{impl HeapAllocated<T>\}::(new|reset|mark_reachable)$|FreeList<T>\}::(allocate|allocate_vec|"
                         r"collect_on_condition|restore_marks|new|grow|grow_by|extend_heap)|FreeList<Vec<SteelVal[^}]*\}::allocate_vec|"
                         r"\{impl HeapRef<T>\}::maybe_get_from_weak|\{impl Clone for FreeList<T>\}")
    R.floor("C04.e", "writers of HeapAllocated.reachable", len(writers), 4)
    for n in sorted(writers):
        R.inst("C04.e", "%s writes HeapAllocated.reachable" % lib.short_name(n), bool(allowed.search(n)),
               "%s writes the mark bit of a heap slot; only the allocator, mark_reachable/reset and the sweep may" % lib.short_name(n),
               F.fns[n].loc(), sample=True)
    resetters = set()
    _, callers = F.graph()
    for n in F.fns:
        if re.search(r"\{impl HeapAllocated<T>\}::reset$", n):
            for c in callers.get(n, ()):
                resetters.add(c)
    allowed_r = re.compile(r"FreeList<T>\}::(mark_all_unreachable|take_marks)|FreeList<T>\}::mark_all_unreachable::\{closure|"
                           r"FreeList<T>\}::take_marks::\{closure")
    for n in sorted(resetters):
        R.inst("C04.e", "%s clears a mark bit (HeapAllocated::reset)" % lib.short_name(n), bool(allowed_r.search(n)),
               "%s clears mark bits outside the two whole-heap reset routines" % lib.short_name(n), F.fns[n].loc(), sample=True)
    root_loop_rule(F, R)


def root_loop_rule(F, R):
    R.rule("C04.k", "no element of a root set is skipped: in the enumeration of other threads' roots (Synchronizer::enumerate_stacks "
                    "and the functions of the repository it calls, two levels) and in every marker's visit_continuation, each loop over "
                    "stack frames hands every frame on — every path from the iterator's Some edge back to the loop head reads what "
                    "the frame's closure captured (ByteCodeLambda::captures, a helper of the repository that calls it on every path, or "
                    "the field). A "
                    "`continue` for frames that 'look the same' (ByteCodeLambda's PartialEq compares the lambda id and the "
                    "arity, not the captures) leaves the captures of a distinct closure unmarked")
    es = F.one(r"^steel::steel_vm::vm::\{impl Synchronizer\}::enumerate_stacks$")
    fns = {es.name: es}
    frontier = [es]
    for _ in range(2):
        nxt = []
        for f in frontier:
            for c in F.callees(f, expand_unresolved=False):
                if c.startswith("steel::steel_vm::") and c in F.fns and c not in fns:
                    fns[c] = F.fns[c]
                    nxt.append(F.fns[c])
        frontier = nxt
    for n, f in F.fns.items():
        if re.search(r"^steel::values::closed::\{impl BreadthFirstSearchSteelVal\w* for \w+(<'a>)?\}::visit_continuation$", n):
            fns[n] = f
        if re.search(r"^steel::values::closed::\{impl Heap\}::mark$", n):
            fns[n] = f
    n_loops = 0
    for name, fn in sorted(fns.items()):
        for i, b in fn.calls():
            if not re.search(r"\{impl Iterator for \w+<[^}]*\}::next$|^core::iter::traits::iterator::Iterator::next$", b["callee"]):
                continue
            if not any(re.search(r"\bStackFrame\b|\bByteCodeLambda\b", t) for t in b.get("targs", [])):
                continue
            nxt = b.get("ret")
            some = None
            hops = 0
            while nxt is not None and hops < 4:
                nb = fn.blocks[nxt]
                if nb["k"] == "switch" and nb["on"] == "enum:Option":
                    some = lib.arm_map(fn, nxt).get("Some")
                    break
                if nb["k"] == "goto" and len(nb["s"]) == 1:
                    nxt = nb["s"][0]
                    hops += 1
                    continue
                break
            if some is None:
                continue
            n_loops += 1
            # looking at what the frame's closure captured: the accessor (or one of the repository's helpers that calls it on
            # every path), or the field itself
            work = set(fn.call_blocks(r"\{impl ByteCodeLambda\}::captures$", wrappers=True))
            work |= set(j for j, _, e in fn.events("fld") if e[1] == "ByteCodeLambda" and e[2] == "captures")
            ok, _ = fn.every_path_passes_from([some], [i], work)
            R.inst("C04.k", "%s / the loop over stack frames (#%d) handles every frame" % (fn.short(), n_loops), ok,
                   "%s: the loop over a thread's stack frames (line %s) can go on to the next frame without handing this one to "
                   "the marker (its closure's captures are not read on that path): what the skipped frame's closure captured is "
                   "not a root, so storage reachable only from a running frame is swept and handed out again"
                   % (fn.short(), b.get("line")), fn.loc(b.get("line")), sample=True)
    R.floor("C04.k", "loops over stack frames in root enumeration / continuation visitors", n_loops, 4)


def pointer_queued_rule(F, R):
    from .c07 import _backward, _origins
    R.rule("C04.q", "a marker never drops a pointer it has extracted: in every function of the collector that turns a value into "
                    "a heap pointer (SteelValPointer::from_value) the pointer of the Some outcome reaches a queue (an argument "
                    "of push / push_back / send derives from it) on every path from there to the return. nc: a pointer taken "
                    "off a value and not queued is a reachable object that is not marked — its slot counts as free and a later "
                    "allocation overwrites it (e.g. only when a local backlog happens to be full: a size threshold)")
    n = 0
    for name, fn in sorted(F.fns.items()):
        if not name.startswith("steel::values::closed::"):
            continue
        fv = [(i, b) for i, b in fn.calls() if re.search(r"\{impl SteelValPointer\}::from_value$", b["callee"]) and b.get("dest")]
        if not fv:
            continue
        maps = _backward(fn)
        for i, b in fv:
            d = b["dest"].split(".")[0]
            # the switch on the Option
            nxt, hops = b.get("ret"), 0
            while nxt is not None and fn.blocks[nxt]["k"] == "goto" and hops < 3:
                nxt, hops = fn.blocks[nxt]["s"][0], hops + 1
            if nxt is None or fn.blocks[nxt]["k"] != "switch":
                continue
            am = lib.arm_map(fn, nxt)
            some = am.get("Some", am["_"])
            if some == am.get("None"):
                continue
            n += 1
            pushes = set()
            for j, pb in fn.calls():
                if re.search(r"::(push|push_back|send|push_front|extend)$", pb["callee"]) and len(pb["args"]) >= 2:
                    for t in lib.TOK.findall(pb["args"][1]):
                        if d in {o.split(".")[0] for o in _origins(fn, t, maps, depth=10)} | {t.split(".")[0]}:
                            pushes.add(j)
            region = fn.reachable_from([some], avoid=pushes | {nxt})
            leaks = [r for r in fn.returns() if r in region]
            R.inst("C04.q", "%s / the extracted pointer is queued on every path" % fn.short(), bool(pushes) and not leaks,
                   "%s extracts a heap pointer from a value (line %s) and can return without handing it to a queue: the object "
                   "behind it is reachable but is not marked on that path, so a full collection frees its slot" % (fn.short(), b["line"]),
                   fn.loc(b["line"]), sample=True)
    R.floor("C04.q", "pointer extractions in the markers", n, 1)


def queued_values_rule(F, R):
    R.rule("C04.v", "values waiting in a queue are roots: a type handed to scripts as a custom value (impl Custom) that queues "
                    "values — a field that is a channel endpoint (Sender / Receiver) or a locked collection (Mutex / RwLock of Vec, "
                    "VecDeque, …) whose element type can own a heap handle (HANDLE(T)) — overrides the collector's child visitor "
                    "(gc_visit_children). A queued value is reachable (somebody will receive it) but stands in no stack, global or "
                    "captured variable; with the default visitor (no children) a full collection reclaims its storage")
    hb = hm.handle_bearing(F)
    QUEUE = re.compile(r"\b(Sender|Receiver|SyncSender)<|\b(Mutex|RwLock)<[^>]*\b(Vec|VecDeque|BinaryHeap|LinkedList)<")
    cust = [im for im in F.impls if im.get("trait") and re.search(r"rvals::Custom$", im["trait"])]
    R.floor("C04.v", "impls of Custom", len(cust), 30)
    n = 0
    for im in sorted(cust, key=lambda x: x["self"]):
        T = im["self"].split("<")[0]
        adts = [a for a in F.adts_short.get(T, []) if a["name"].startswith("steel")]
        if not adts:
            continue
        a = adts[0]
        q = [(f["name"], f["ty"]) for v in a["variants"] for f in v["fields"]
             if QUEUE.search(f["ty"]) and any(m in hb for m in f["mentions"])]
        if not q:
            continue
        n += 1
        has = any(re.search(r"::(gc_)?visit_children$", i) for i in im.get("items", []))
        R.inst("C04.v", "%s queues values and has a collector visitor" % T, has,
               "%s (field %s: %s) queues values that can own heap storage but keeps the default Custom::gc_visit_children, which "
               "visits nothing: a box or mutable vector that is only in the queue — sent and not yet received, registered and not "
               "yet executed — is unmarked by a full collection, its slot is handed out again and the receiver reads another "
               "value's contents" % (T, q[0][0], q[0][1]), "%s:%s" % (a["file"], a["line"]), sample=True)
    R.floor("C04.v", "custom types that queue values", n, 2)
