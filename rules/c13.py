"""C13 — syntax-rules: pattern variables are bound to exactly the matched sub-forms; template binders are renamed
(DESIGN §3 C13).

Hygiene as a whole (which binding each identifier of an expansion resolves to, over all macro definitions and uses) is a
property of renaming *results* and is NOT decided — the implementation is a textual `##` prefix scheme and known not to be
hygienic for nested macros that introduce the same spelling.  Decided are the structural clauses below, each a necessary
condition of the pattern-matching / renaming half of the statement:
  k  pattern/form alignment: in the binder (collect_bindings) and the matcher (match_list_pattern) every pattern that is
     not an ellipsis consumes exactly one form from the cursor on every path round the pattern loop,
  d  the recursive walkers over MacroPattern (binder names, ellipsis variables, mangling) descend into the same variants,
  g  every binder the renamer introduces gets the whole treatment: recorded (unless it is a pattern variable), renamed,
     flagged introduced_via_macro — sibling agreement over the binder sites of RenameIdentifiersVisitor,
  t  a macro case is built only after the template was verified against the pattern's ellipsis depths, its binders were
     renamed and the pattern variables mangled,
  c  an expansion starts from empty binding tables and instantiates the template only from what the binder collected,
  s  the expander's set of locally bound names is popped on every successful exit that pushed it, and every pushed layer
     records binders,
  r  template instantiation and binder renaming walk every child of every node they define a visitor for.
"""
import re

from . import lib
from .lib import CheckError

ERR_EXIT = r"FromResidual.*::from_residual$|\{impl SteelErr\}::new$"
CURSOR_NEXT = r"\{impl Iterator for Enumerate<I>\}::next$"


def _pattern_loops(fn):
    """(head block, body entry) of every `for pat in <slice of MacroPattern>` loop of fn"""
    out = []
    for i, b in fn.calls():
        if not re.search(r"slice::iter::\{impl Iterator for Iter<T>\}::next$", b["callee"]):
            continue
        if not any(re.search(r"\bMacroPattern\b", t) for t in b.get("targs", [])):
            continue
        nxt = b.get("ret")
        hops = 0
        while nxt is not None and hops < 4:
            nb = fn.blocks[nxt]
            if nb["k"] == "switch" and nb["on"] == "enum:Option":
                some = lib.arm_map(fn, nxt).get("Some")
                if some is not None:
                    out.append((i, some))
                break
            if nb["k"] == "goto" and len(nb["s"]) == 1:
                nxt = nb["s"][0]
                hops += 1
                continue
            break
    return out


def alignment_rule(F, R):
    R.rule("C13.k", "pattern/form alignment: in collect_bindings (which binds pattern variables) and match_list_pattern "
                    "(which decides whether a case applies) the loop over the patterns advances the cursor over the forms "
                    "(Enumerate<Iter<ExprKind>>::next) on every path from the loop body's entry back to the loop head, except "
                    "through the ellipsis arm (MacroPattern::Many), which consumes in a loop of its own (or nothing when the "
                    "ellipsis matched no form). A pattern kind that does not advance the cursor shifts every later pattern "
                    "variable onto the wrong sub-form")
    n = 0
    for rx in (r"^steel::parser::expander::collect_bindings$", r"^steel::parser::expander::match_list_pattern$"):
        fn = F.one(rx)
        loops = _pattern_loops(fn)
        if not loops:
            raise CheckError("anchor lost: %s has no loop over a slice of MacroPattern" % fn.short())
        nexts = set(fn.call_blocks(CURSOR_NEXT))
        if not nexts:
            raise CheckError("anchor lost: %s has no Enumerate cursor over the forms" % fn.short())
        many = set()
        for sb in lib.enum_switches(fn, "MacroPattern"):
            t = lib.arm_map(fn, sb).get("Many")
            if t is not None:
                many.add(t)
        for head, body in loops:
            n += 1
            reach = fn.reachable_from([body], avoid=nexts | many | {head})
            preds_of_head = [p for p in fn.preds()[head] if p in reach or p == body]
            ok = not preds_of_head
            R.inst("C13.k", "%s / every non-ellipsis pattern consumes a form" % fn.short(), ok,
                   "%s: the loop over the patterns (line %s) can come round to its head without taking a form from the "
                   "cursor and without going through the ellipsis arm: the patterns after that one are bound to / matched "
                   "against the wrong sub-forms" % (fn.short(), fn.blocks[head].get("line")), fn.loc(fn.blocks[head].get("line")),
                   sample=True)
            # the ellipsis arm consumes in a loop
            if many:
                n += 1
                inner = fn.reachable_from(sorted(many), avoid={head})
                cyc = False
                for nb in nexts & inner:
                    if nb in fn.reachable_from(fn.succ(nb), avoid={head}):
                        cyc = True
                R.inst("C13.k", "%s / the ellipsis arm consumes its forms in a loop" % fn.short(), cyc,
                       "%s: the MacroPattern::Many arm no longer takes forms from the cursor inside a loop: an ellipsis "
                       "pattern consumes at most one form, the rest are matched against the patterns that follow it" % fn.short(),
                       fn.loc(), sample=True)
    R.floor("C13.k", "pattern loops examined", n, 4)


def descent_rule(F, R):
    R.rule("C13.d", "the recursive walkers over a pattern agree on where pattern variables can be: every self-recursive "
                    "function of parser::expander that matches on its own MacroPattern argument and takes no forms "
                    "(MacroCase::all_bindings' walk_bindings, MacroPattern::variables' accumulate_vars, MacroPattern::mangle) "
                    "descends into the same set of variants (sibling agreement). A walker that skips a variant another one "
                    "enters leaves the variables below it unrenamed / unbound when the ellipsis matches nothing")
    walkers = []
    for name, fn in sorted(F.fns.items()):
        if not name.startswith("steel::parser::expander::") or "closure" in name:
            continue
        sws = [sb for sb in lib.enum_switches(fn, "MacroPattern") if re.match(r"\(\*_[12]\)$", fn.blocks[sb].get("place", ""))]
        if not sws:
            continue
        rec = [i for i, b in lib.family_calls(F, fn) if b["callee"] == name]
        if not rec:
            continue
        if fn.call_blocks(CURSOR_NEXT) or re.search(r"::(match_\w+|collect_bindings|fmt)$", name):
            continue
        desc = set()
        for sb in sws:
            am = lib.arm_map(fn, sb)
            others = set(am.values())
            for v, t in am.items():
                if v in ("otherwise", "_"):
                    continue
                r = fn.reachable_from([t], avoid=(others - {t}) | {sb})
                if any(i in r for i in rec):
                    desc.add(v)
        walkers.append((fn, desc))
    R.floor("C13.d", "recursive pattern walkers", len(walkers), 3)
    if not walkers:
        return
    union = set().union(*(d for _, d in walkers))
    for fn, desc in walkers:
        missing = sorted(union - desc)
        R.inst("C13.d", "%s descends into %s" % (fn.short(), "/".join(sorted(union))), not missing,
               "%s does not descend into MacroPattern::%s although a sibling walker does: pattern variables below such a "
               "pattern are skipped by it (not renamed / not bound to the empty match / not reported as bindings)"
               % (fn.short(), ", ".join(missing)), fn.loc(), sample={"descends": sorted(desc)})


def binder_kind_rule(F, R):
    R.rule("C13.b", "one notion of pattern variable: a MacroPattern variant whose payload names a binding — the key of a "
                    "bindings.insert in collect_bindings comes from that variant's identifier — is (1) declared as a pattern "
                    "variable when the pattern is parsed (every construction of the variant in MacroPattern::parse_from_list "
                    "is preceded, within the same turn of the pattern loop, by an insert into PatternContext.bindings, the table the template is verified and renamed "
                    "against) and (2) mangled with the template (MacroPattern::mangle rewrites the variant). The template's "
                    "references are renamed to `##x` exactly for the declared variables, and an undeclared one is treated as a "
                    "free identifier of the template: renamed when the use site binds that spelling, after which no binding "
                    "matches it")
    cb = F.one(r"^steel::parser::expander::collect_bindings$")
    variants = set(e[1].split("::")[1] for _, _, e in cb.events("fld") if e[1].startswith("MacroPattern::"))
    leaf = {}
    for i, b in cb.calls():
        if not re.search(r"\{impl HashMap<K,V,S,A>\}::insert$", b["callee"]) or len(b["args"]) < 2:
            continue
        for t in lib.TOK.findall(b["args"][1]):
            for src in lib.alias_sources(cb, t, depth=8) | {t}:
                m = re.search(r" as (\w+)\.0$", src)
                if m and m.group(1) in variants:
                    leaf.setdefault(m.group(1), b.get("line"))
    R.floor("C13.b", "pattern variants that name a binding", len(leaf), 1)
    mg = F.one(r"\{impl MacroPattern\}::mangle$")
    mangled = set(e[2] for _, _, e in mg.events("agg") if e[1] == "MacroPattern")
    pl = F.one(r"\{impl MacroPattern\}::parse_from_list$")
    dom = pl.dominators()
    decl = []
    for i, b in pl.calls():
        if re.search(r"\{impl HashMap<K,V,S,A>\}::insert$", b["callee"]) and b["args"]:
            srcs = set()
            for t in lib.TOK.findall(b["args"][0]):
                srcs |= lib.alias_sources(pl, t, depth=8)
            if any(re.search(r"\.bindings\b", x) for x in srcs):
                decl.append(i)
    if not decl:
        raise CheckError("anchor lost: parse_from_list no longer inserts into PatternContext.bindings")
    for v, line in sorted(leaf.items()):
        R.inst("C13.b", "MacroPattern::%s names a binding: mangled with the template" % v, v in mangled,
               "collect_bindings binds the identifier of MacroPattern::%s (line %s) but MacroPattern::mangle does not rewrite "
               "that variant: the pattern keeps the plain spelling while the template's references are renamed (or, if the "
               "variable is not declared either, are treated as free identifiers and renamed only when the use site happens to "
               "bind the same spelling — after which nothing is substituted for them)" % (v, line), mg.loc(), sample=True)
        sites = [(i, e) for i, _, e in pl.events("agg") if e[1] == "MacroPattern" and e[2] == v]
        if not sites:
            raise CheckError("anchor lost: parse_from_list never builds MacroPattern::%s" % v)
        heads = set(t for u in pl.normal_blocks() for t in pl.succ(u) if t in dom.get(u, ()))
        for k, (i, e) in enumerate(sites):
            # the declaration is conditional (`_` is not a variable), so it does not dominate: it has to lie on a path to
            # the construction within the same turn of the pattern loop
            ok = any(d in dom.get(i, ()) or i in pl.reachable_from([d], avoid=heads) for d in decl)
            R.inst("C13.b", "parse_from_list / MacroPattern::%s #%d is declared as a pattern variable" % (v, k), ok,
                   "MacroPattern::parse_from_list builds MacroPattern::%s (line %s) without registering its identifier in "
                   "PatternContext.bindings: the template is verified and renamed as if it were not a pattern variable, so "
                   "`(let ((x ..)) <use>)` with the same spelling at the use site turns the template's reference into `##x`, "
                   "which no binding matches" % (v, e[3]), pl.loc(e[3]), sample=True)


def binder_sites_rule(F, R):
    R.rule("C13.g", "every binder a template introduces gets the whole treatment (sibling agreement over the binder sites of "
                    "RenameIdentifiersVisitor: define, lambda parameters, let and named-let bindings): the site that stores "
                    "the `##`-prefixed identifier (SyntaxObject::default(TokenType::Identifier(..)) written to the atom) is "
                    "reached from a test of pattern_variables.contains whose false edge records the name (self.add) — so "
                    "that the references in the template body are renamed with it — and is followed by setting "
                    "introduced_via_macro before the next site or the return. A binder that is renamed but not recorded "
                    "is no longer the binding of its own references (they resolve to whatever the use site has under the "
                    "old spelling); one that is not flagged is treated as user code by the later passes")
    fns = F.find(r"rename_idents::\{impl VisitorMutRef for RenameIdentifiersVisitor\}::visit_\w+$")
    if not fns:
        raise CheckError("anchor lost: RenameIdentifiersVisitor's visitor methods")
    n = 0
    for fn in fns:
        sites = []
        for i, b in fn.calls():
            if not re.search(r"\{impl RawSyntaxObject<[^}]*\}::default$", b["callee"]):
                continue
            if any(e[0] == "agg" and e[1] == "TokenType" and e[2] == "Identifier" for e in b["e"]):
                sites.append(i)
        if not sites:
            continue
        contains = [i for i, b in fn.calls() if re.search(r"slice::\{impl \[T\]\}::contains$", b["callee"])]
        adds = set(fn.call_blocks(r"\{impl RenameIdentifiersVisitor\}::add$"))
        flags = set(i for i, _, e in fn.events("fld") if e[1] == "RawSyntaxObject" and e[2] == "introduced_via_macro" and "w" in e[3])
        dom = fn.dominators()
        meth = lib.split_path(fn.name)[-1]
        for k, s in enumerate(sorted(sites)):
            n += 1
            line = fn.blocks[s].get("line")
            cs = [c for c in contains if c in dom.get(s, ())]
            ok_rec = False
            for c in cs:
                br = lib.bool_branch(fn, c)
                if not br:
                    continue
                t_true, t_false = br
                # from the "not a pattern variable" edge the site is reached only through self.add
                r = fn.reachable_from([t_false], avoid=adds | {c})
                if s not in r and t_false != s:
                    ok_rec = True
            after = fn.reachable_from(fn.succ(s), avoid=flags | {s})
            rets = set(fn.returns())
            ok_flag = bool(flags) and not (after & rets) and not (after & set(contains))
            R.inst("C13.g", "RenameIdentifiersVisitor::%s / binder site #%d recorded, renamed, flagged" % (meth, k),
                   ok_rec and ok_flag,
                   "RenameIdentifiersVisitor::%s renames a template binder (line %s) %s" % (
                       meth, line,
                       "without recording it on the path where it is not a pattern variable (no self.add between the "
                       "pattern_variables test and the rename): the references to it in the template body keep the old spelling "
                       "and are captured by / capture the use site's bindings" if not ok_rec else
                       "without setting introduced_via_macro on every path that follows"),
                   fn.loc(line), sample=True)
    R.floor("C13.g", "binder rename sites", n, 9)
    va = F.one(r"rename_idents::\{impl VisitorMutRef for RenameIdentifiersVisitor\}::visit_atom$")
    gs = va.call_blocks(r"\{impl RenameIdentifiersVisitor\}::is_gensym$")
    ok = False
    for g in gs:
        br = lib.bool_branch(va, g)
        if br:
            r = va.reachable_from([br[0]], avoid={br[1]})
            ok = any(e[0] == "st" and re.search(r"\.syn\.ty$", e[1]) for i in r for e in va.blocks[i]["e"])
    R.inst("C13.g", "RenameIdentifiersVisitor::visit_atom renames the references to recorded binders and pattern variables", ok,
           "RenameIdentifiersVisitor::visit_atom no longer rewrites an identifier that is_gensym accepts: template references "
           "to renamed binders keep the old spelling", va.loc(), sample=True)
    ig = F.one(r"\{impl RenameIdentifiersVisitor\}::is_gensym$")
    flds = set(e[2] for _, _, e in ig.events("fld") if e[1] == "RenameIdentifiersVisitor")
    R.inst("C13.g", "is_gensym consults the recorded binders and the pattern variables",
           {"introduced_identifiers", "pattern_variables"} <= flds,
           "RenameIdentifiersVisitor::is_gensym reads only %s: references to %s are not renamed" % (
               sorted(flds), sorted({"introduced_identifiers", "pattern_variables"} - flds)), ig.loc(), sample=True)


def case_rule(F, R):
    R.rule("C13.t", "a macro case exists only in checked, renamed form: every successful path of "
                    "MacroCase::parse_from_pattern_pair passes MacroTemplate::verify (template ellipsis depths against the "
                    "pattern's), RenameIdentifiersVisitor::rename_identifiers (template binders) and the mangling of the "
                    "pattern (MacroPattern::mangle over args) — the template's `##x` is bound only by a pattern variable "
                    "mangled the same way")
    fn = F.one(r"\{impl MacroCase\}::parse_from_pattern_pair$")
    rets = fn.returns()
    errs = [i for i, b in fn.calls() if re.search(ERR_EXIT, b["callee"])]
    mangle_closures = set()
    for name, g in F.fns.items():
        if name.startswith(fn.name + "::{closure") and g.call_blocks(r"\{impl MacroPattern\}::mangle$"):
            mangle_closures.add(name)
    must = [("MacroTemplate::verify", fn.call_blocks(r"\{impl MacroTemplate\}::verify$")),
            ("RenameIdentifiersVisitor::rename_identifiers", fn.call_blocks(r"\{impl RenameIdentifiersVisitor\}::rename_identifiers$")),
            ("MacroPattern::mangle", fn.call_blocks(r"\{impl MacroPattern\}::mangle$") +
             [i for i, b in fn.calls() if any(e[0] == "closure" and e[1] in mangle_closures for e in b["e"])] +
             [i for i, blk in enumerate(fn.blocks) if any(e[0] == "closure" and e[1] in mangle_closures for e in blk["e"])])]
    for what, blocks in must:
        ok = bool(blocks) and fn.every_path_passes_from([0], rets, list(blocks) + errs)[0]
        R.inst("C13.t", "parse_from_pattern_pair / %s on every successful path" % what, ok,
               "MacroCase::parse_from_pattern_pair can return a macro case without %s%s" % (
                   what, "" if blocks else " (it never calls it)"), fn.loc(), sample=True)


def expansion_rule(F, R):
    R.rule("C13.c", "an expansion binds from scratch: the closure of MacroCase::expand that runs the expansion clears every "
                    "binding table it borrows (the thread-local BINDINGS / BINDINGS_KIND / FALLBACK_BINDINGS) before "
                    "collect_bindings, and reaches replace_identifiers only through collect_bindings. A table that keeps "
                    "the previous expansion's entries binds this use's pattern variables to another use's sub-forms")
    cands = [g for n, g in F.fns.items() if re.search(r"\{impl MacroCase\}::expand::\{closure", n)
             and g.call_blocks(r"::collect_bindings$")]
    if len(cands) != 1:
        raise CheckError("anchor lost: the closure of MacroCase::expand that calls collect_bindings (%d)" % len(cands))
    fn = cands[0]
    cb = fn.call_blocks(r"::collect_bindings$")
    borrows = fn.call_blocks(r"\{impl RefCell<T>\}::borrow_mut$")
    clears = fn.call_blocks(r"\{impl HashMap<K,V,S,A>\}::clear$")
    dom = fn.dominators()
    for c in cb:
        before = [x for x in clears if x in dom[c]]
        R.inst("C13.c", "MacroCase::expand / every borrowed binding table is cleared before collect_bindings",
               len(borrows) >= 2 and len(before) >= len(borrows),
               "MacroCase::expand borrows %d thread-local binding tables but clears %d of them before collect_bindings: "
               "entries of the previous expansion survive into this one" % (len(borrows), len(before)),
               fn.loc(fn.blocks[c].get("line")), sample={"tables": len(borrows), "cleared": len(before)})
    rp = fn.call_blocks(r"replace_idents::replace_identifiers$")
    ok = bool(rp) and all(any(c in dom[r] for c in cb) for r in rp)
    R.inst("C13.c", "MacroCase::expand / the template is instantiated after the bindings were collected", ok,
           "MacroCase::expand reaches replace_identifiers on a path that has not run collect_bindings", fn.loc(), sample=True)


def scope_rule(F, R):
    R.rule("C13.s", "the expander's set of locally bound names (which decides whether a literal such as `else` or `=>` in a "
                    "use still means the macro's literal) is balanced: in parser::expand_visitor every path from a "
                    "push_layer to a return that is not an error exit passes pop_layer, and a layer is pushed in order to "
                    "record binders (a define on the scope set is reachable before the pop). A layer left behind makes the "
                    "names of a closed scope shadow literals for the rest of the program; a missing one lets a local "
                    "binding's name match as a literal")
    n = 0
    for name, fn in sorted(F.fns.items()):
        if not name.startswith("steel::parser::expand_visitor::"):
            continue
        pushes = fn.call_blocks(r"\{impl ScopeSet<[^}]*\}::push_layer$")
        if not pushes:
            continue
        pops = set(fn.call_blocks(r"\{impl ScopeSet<[^}]*\}::pop_layer$"))
        defs = set(fn.call_blocks(r"\{impl ScopeSet<[^}]*\}::define$"))
        errs = set(i for i, b in fn.calls() if re.search(ERR_EXIT, b["callee"]))
        rets = set(fn.returns())
        for k, p in enumerate(sorted(pushes)):
            n += 1
            line = fn.blocks[p].get("line")
            r = fn.reachable_from(fn.succ(p), avoid=pops | errs)
            leak = sorted(r & rets)
            again = p in r or any(q in r for q in pushes if q != p)
            r2 = fn.reachable_from(fn.succ(p), avoid=pops)
            has_def = bool(r2 & defs)
            R.inst("C13.s", "%s / push_layer #%d is popped on every successful exit and records binders" % (fn.short(), k),
                   not leak and not again and has_def,
                   "%s: the scope layer pushed at line %s %s" % (
                       fn.short(), line,
                       "can reach a successful return without pop_layer" if leak else
                       "can be pushed again before it is popped" if again else
                       "never records a binder (no ScopeSet::define before the pop)"),
                   fn.loc(line), sample=True)
    R.floor("C13.s", "push_layer sites in the expander", n, 10)


WALK_NODES = {"visit_set": "Set", "visit_if": "If", "visit_define": "Define", "visit_lambda_function": "LambdaFunction",
              "visit_begin": "Begin", "visit_return": "Return", "visit_let": "Let", "visit_quote": "Quote",
              "visit_vector": "Vector"}
TEMPLATE_WALKERS = [
    (r"replace_idents::\{impl VisitorMutRef for ReplaceExpressions(<'a>)?\}::(visit_\w+)$", "ReplaceExpressions",
     "substitutes pattern variables in the template"),
    (r"rename_idents::\{impl VisitorMutRef for RenameIdentifiersVisitor(<'a>)?\}::(visit_\w+)$", "RenameIdentifiersVisitor",
     "renames template binders and their references"),
]
# (walker, method, field): read on some path only / not at all, with the reason
WALK_PARTIAL = {("ReplaceExpressions", "visit_vector", "args"): "a byte vector holds byte literals only and is returned as it is",
                ("RenameIdentifiersVisitor", "visit_vector", "args"): "a byte vector holds byte literals only and is returned as it is"}


def template_walk_rule(F, R):
    R.rule("C13.r", "template instantiation and binder renaming see the whole template: each visit_<node> that "
                    "ReplaceExpressions (substitution of pattern variables) and RenameIdentifiersVisitor define reads every "
                    "child-expression field of the node (from the node's type in steel_parser::ast — binders included, a "
                    "template may put a pattern variable in binder position) on every path to a successful return. A child "
                    "that is skipped keeps its pattern variables unsubstituted (they become free `##x` identifiers) or its "
                    "binders unrenamed")
    n = 0
    for rx, walker, what in TEMPLATE_WALKERS:
        fns = F.find(rx)
        if not fns:
            raise CheckError("anchor lost: walker %s" % walker)
        for fn in fns:
            meth = lib.split_path(fn.name)[-1]
            node = WALK_NODES.get(meth)
            if node is None:
                continue
            adt = F.adts.get("steel_parser::ast::" + node)
            if adt is None:
                raise CheckError("anchor lost: steel_parser::ast::%s" % node)
            kids = [f["name"] for f in adt["variants"][0]["fields"] if "ExprKind" in f["ty"]]
            rets = fn.returns()
            errs = [i for i, b in fn.calls() if re.search(ERR_EXIT, b["callee"])]
            for k in kids:
                reads = sorted(set(i for i, e in lib.family_events(F, fn, "fld") if e[1] == node and e[2] == k))
                key = "%s::%s reads %s.%s on every path" % (walker, meth, node, k)
                n += 1
                why = WALK_PARTIAL.get((walker, meth, k))
                if why:
                    R.inst("C13.r", key + " (on some paths only: %s)" % why, bool(reads),
                           "%s::%s never reads %s.%s" % (walker, meth, node, k), fn.loc(), sample=True)
                    continue
                ok = bool(reads) and fn.every_path_passes_from([0], rets, reads + errs)[0]
                R.inst("C13.r", key, ok,
                       "%s::%s can return without reading %s.%s%s: what that child contains is not seen by the pass that %s"
                       % (walker, meth, node, k, "" if reads else " (it never reads it)", what), fn.loc(), sample=True)
    R.floor("C13.r", "child fields of template walkers", n, 20)


def whole_use_rule(F, R):
    from .c07 import _backward, _origins
    R.rule("C13.m", "a pattern without a dotted tail matches only uses that it consumes entirely: in match_list_pattern every "
                    "path from the entry to `return true` passes either the Some edge of a test of the rest pattern (the tail "
                    "is then matched against it) or the true edge of an emptiness test (is_empty / len) of the part of the "
                    "use that lies behind the proper patterns (a sub-slice `list[n..]` / `list.get(n..)` of the input). nc: "
                    "otherwise `(x y . z)` matches the pattern `(a b)` with z silently dropped, and a use that should be a "
                    "syntax error expands")
    fn = F.one(r"parser::expander::match_list_pattern$")
    maps = _backward(fn)
    true_blocks = [i for i, b in enumerate(fn.blocks) if not b["c"]
                   and any(e[0] == "kv" and e[1] == "_0" and e[2] == "const:1" for e in b["e"])]
    if not true_blocks:
        raise CheckError("anchor lost: match_list_pattern has no `true` return")
    # the rest pattern: the Option built in the Rest arm of the match on the last pattern
    rest_locals = set()
    for b in fn.blocks:
        for e in b["e"]:
            if e[0] == "mv" and re.search(r" as Rest\.\d", e[2]) and not b["c"]:
                rest_locals.add(e[1].split(".")[0])
    if not rest_locals:
        raise CheckError("anchor lost: match_list_pattern no longer splits a Rest pattern off the pattern list")
    # everything the rest option flows into (field-sensitive: a tuple it is packed in is tracked by that field only)
    def _hits(src):
        for t in lib.TOK.findall(lib._norm(src)):
            parts = t.split(".")
            if any(".".join(parts[:k]) in rest_locals for k in range(1, len(parts) + 1)):
                return True
        return False
    grew = True
    while grew:
        grew = False
        for b in fn.blocks:
            for e in b["e"]:
                if e[0] == "mv" and e[1] not in rest_locals and not e[1].startswith("_0") and _hits(e[2]):
                    rest_locals.add(e[1])
                    grew = True
    tails = set()
    for i, b in fn.calls():
        if re.search(r"\{impl Index<I> for \[T\]\}::index$|\{impl \[T\]\}::get$", b["callee"]) and \
                any("RangeFrom" in t for t in b["targs"]) and "_2" in _origins(fn, re.match(r"_\d+", b["args"][0]).group(0), maps):
            tails.add((b.get("dest") or "").split(".")[0])
    avoid = set()
    n_rest = n_empty = 0
    for sb, blk in enumerate(fn.blocks):
        if blk["c"] or blk["k"] != "switch":
            continue
        loc = re.match(r"_\d+", blk.get("place", "").strip("()*"))
        if not loc:
            continue
        org_full = _origins(fn, loc.group(0), maps, depth=14) | {loc.group(0)}
        org = {o.split(".")[0] for o in org_full}
        if blk["on"] == "enum:Option" and any(_hits(o) for o in org_full):
            for v, t in blk["targets"]:
                if v == "Some":
                    avoid.add(t)
                    n_rest += 1
            if not any(v == "Some" for v, _ in blk["targets"]) and any(v == "None" for v, _ in blk["targets"]):
                avoid.add(blk["otherwise"])
                n_rest += 1
        elif blk["on"] == "bool":
            for ci, cb in fn.calls():
                if re.search(r"\{impl \[T\]\}::(is_empty|len)$", cb["callee"]) and (cb.get("dest") or "").split(".")[0] in org:
                    ao = {o.split(".")[0] for o in _origins(fn, re.match(r"_\d+", cb["args"][0]).group(0), maps, depth=14)}
                    if ao & tails:
                        # the edge on which the tail is empty
                        empty_edge = blk["otherwise"] if cb["callee"].endswith("is_empty") else None
                        if empty_edge is None:
                            continue
                        avoid.add(empty_edge)
                        n_empty += 1
    reach = fn.reachable_from([0], avoid=avoid)
    bad = [t for t in true_blocks if t in reach]
    R.inst("C13.m", "match_list_pattern / `true` only after the rest pattern took the tail or the tail was found empty",
           not bad and n_rest > 0,
           "match_list_pattern can return true on a path that neither hands the forms behind the proper patterns to a rest "
           "pattern nor finds them empty (%d tests of the rest pattern, %d emptiness tests of the tail found): a use with "
           "more forms than the pattern — in particular the tail of an improper use — matches and the surplus is dropped" % (
               n_rest, n_empty), fn.loc(fn.blocks[bad[0]].get("line") if bad else None),
           sample={"rest_tests": n_rest, "tail_emptiness_tests": n_empty})


def ellipsis_count_rule(F, R):
    from .c07 import _backward, _origins
    R.rule("C13.e", "the matcher and the binder agree on how many forms an ellipsis takes (sibling agreement): in "
                    "match_list_pattern and in collect_bindings the count is (length of the use) + 1 − (number of patterns), "
                    "where the number of patterns is taken after a trailing rest pattern was split off (split_last) and the "
                    "length of the use after the tail of an improper use was cut off (`list[..len-1]`). nc: a count that "
                    "includes the rest pattern binds one form too few to the ellipsis variable and shifts it into the rest "
                    "variable — `(_ a ... . r)` used as `(m 1 2 3)` bound a to (1 2) and r to (3) — and underflows for short uses")
    n = 0
    for fn in [F.one(r"parser::expander::match_list_pattern$"), F.one(r"parser::expander::collect_bindings$")]:
        maps = _backward(fn)
        lens = {}
        for i, b in fn.calls():
            if re.search(r"\{impl \[T\]\}::len$", b["callee"]) and b.get("dest"):
                lens[b["dest"].split(".")[0]] = _origins(fn, re.match(r"_\d+", b["args"][0]).group(0), maps, depth=20)
        for b in fn.blocks:
            for e in b["e"]:
                if e[0] == "der" and len(e) >= 5 and e[3] == "PtrMetadata":
                    lens[e[1]] = _origins(fn, lib.TOK.findall(lib._norm(e[2]))[0], maps, depth=20) if lib.TOK.findall(lib._norm(e[2])) else set()
        split = {(b.get("dest") or "").split(".")[0] for i, b in fn.calls() if re.search(r"\{impl \[T\]\}::split_last$", b["callee"])}
        cut = {(b.get("dest") or "").split(".")[0] for i, b in fn.calls()
               if re.search(r"\{impl Index<I> for \[T\]\}::index$", b["callee"]) and any("RangeTo" in t and "Inclusive" not in t for t in b["targs"])}
        subs = []
        for b in fn.blocks:
            if b["c"]:
                continue
            for e in b["e"]:
                if e[0] == "binop" and e[1] in ("Sub", "SubWithOverflow", "SubUnchecked") and e[2] == "usize":
                    subs.append((e[5], e[6], e[3]))
            if b["k"] == "call" and re.search(r"\{impl usize\}::(saturating_sub|checked_sub|wrapping_sub)$", b["callee"]):
                subs.append((b["args"][0], b["args"][1], b["line"]))
        found = False
        for a, bb, line in subs:
            ta, tb = lib.TOK.findall(lib._norm(a)), lib.TOK.findall(lib._norm(bb))
            if not ta or not tb:
                continue
            oa = {o.split(".")[0] for o in _origins(fn, ta[0], maps, depth=20)} | {ta[0]}
            ob = {o.split(".")[0] for o in _origins(fn, tb[0], maps, depth=20)} | {tb[0]}
            la = [l for l in lens if l in oa and "_2" in lens[l]]
            lb = [l for l in lens if l in ob and "_1" in lens[l]]
            if not la or not lb:
                continue
            found = True
            n += 1
            pat_ok = any({o.split(".")[0] for o in lens[l]} & split for l in lb)
            use_ok = any({o.split(".")[0] for o in lens[l]} & cut for l in la)
            R.inst("C13.e", "%s / ellipsis count = use without improper tail + 1 − patterns without rest" % fn.short(), pat_ok and use_ok,
                   "%s computes the number of forms an ellipsis takes (line %s) from %s: the sibling function counts "
                   "differently, so a use that matched is bound with the ellipsis variable one form short (or the subtraction "
                   "underflows)" % (fn.short(), line, " and ".join(
                       ([] if pat_ok else ["the whole pattern list, a trailing rest pattern included"]) +
                       ([] if use_ok else ["the whole use, the tail of an improper list included"]))), fn.loc(line), sample=True)
        if not found:
            raise CheckError("anchor lost: %s no longer computes an ellipsis count from the two lengths" % fn.short())
    R.floor("C13.e", "ellipsis count computations", n, 2)


def unintroduce_rule(F, R):
    from .c07 import _backward, _origins
    R.rule("C13.u", "a template binder stays introduced for as long as an enclosing binder of the same spelling needs it: the "
                    "renamer's set of introduced identifiers (RenameIdentifiersVisitor.introduced_identifiers) either only "
                    "grows during a template walk, or — if a binding form takes its binders back when it ends — what it takes "
                    "back is exactly what it put in: every record of a binder for later removal (a push / insert into the log "
                    "the removal drains) is made on the edge where HashSet::insert returned true, or the removal itself is "
                    "decided by a membership test made before the insertion. nc: an unconditional record removes the name "
                    "although an enclosing form of the same template bound the same spelling; the references to the outer "
                    "binder that follow keep the user's spelling while their binder is `##`-renamed")
    fns = [f for f in F.find(r"rename_idents::\{impl (VisitorMutRef for )?RenameIdentifiersVisitor[^}]*\}::\w+$")]
    if len(fns) < 5:
        raise CheckError("anchor lost: RenameIdentifiersVisitor's methods")
    SHRINK = r"\{impl HashSet<T,S,A>\}::(remove|clear|retain|drain|take|extract_if)$"
    removals = []
    for fn in fns:
        for i, b in fn.calls():
            if re.search(SHRINK, b["callee"]) and b["args"]:
                al = lib.alias_sources(fn, re.match(r"_\d+", b["args"][0]).group(0), 6)
                if any("introduced_identifiers" in x for x in al):
                    removals.append((fn, i, b))
    if not removals:
        R.inst("C13.u", "RenameIdentifiersVisitor / the set of introduced binders only grows", True,
               sample={"shrinking_calls": 0, "methods": len(fns)})
        return
    for fn, i, b in removals:
        short = lib.split_path(b["callee"])[-1]
        maps = _backward(fn)
        raw = {}
        for blk in fn.blocks:
            for e in blk["e"]:
                if e[0] == "mv":
                    raw.setdefault(e[1].split(".")[0], []).append(e[2])
        ok, why = False, "the identifiers it removes are not tied to an insertion that succeeded"
        if short in ("remove", "take") and len(b["args"]) >= 2:
            # (a) decided by a membership test: dominated by the false edge of contains / true edge of insert on the same set
            dom = fn.dominators()
            for g, gb in fn.calls():
                if g in dom[i] and re.search(r"\{impl HashSet<T,S,A>\}::(contains|insert)$", gb["callee"]):
                    br = lib.bool_branch(fn, g)
                    if br and br[0] is not None:
                        want = br[0] if gb["callee"].endswith("insert") else br[1]
                        other = br[1] if gb["callee"].endswith("insert") else br[0]
                        if want is not None and (want == i or i in fn.reachable_from([want], avoid={g})) and \
                                not (other is not None and (other == i or i in fn.reachable_from([other], avoid={g}))):
                            ok = True
            # (b) the removed key comes out of a log field: every append to that field is on insert's true edge
            if not ok:
                fields = set()
                for o in _origins(fn, re.match(r"_\d+", b["args"][1]).group(0), maps, depth=30):
                    for s_ in raw.get(o.split(".")[0], ()):
                        fields |= set(re.findall(r"\(\*_1\)\.([a-z_][a-z_0-9]*)", s_))
                fields -= {"introduced_identifiers"}
                if fields:
                    appends, good = 0, 0
                    for f2 in fns:
                        dom2 = f2.dominators()
                        for j, jb in f2.calls():
                            if not re.search(r"::(push|push_back|insert|extend|extend_from_slice|append)$", jb["callee"]) or not jb["args"]:
                                continue
                            al = lib.alias_sources(f2, re.match(r"_\d+", jb["args"][0]).group(0), 6)
                            if not any(any(("." + fld) in x for x in al) for fld in fields):
                                continue
                            appends += 1
                            for g, gb in f2.calls():
                                if g in dom2[j] and re.search(r"\{impl HashSet<T,S,A>\}::insert$", gb["callee"]):
                                    br = lib.bool_branch(f2, g)
                                    if br and br[0] is not None and (br[0] == j or j in f2.reachable_from([br[0]], avoid={g})) and \
                                            not (br[1] is not None and (br[1] == j or j in f2.reachable_from([br[1]], avoid={g}))):
                                        good += 1
                                        break
                    ok = appends > 0 and good == appends
                    why = "%d of the %d places that record a binder in {%s} do so whether or not the insertion was new" % (
                        appends - good, appends, ", ".join(sorted(fields)))
        R.inst("C13.u", "RenameIdentifiersVisitor::%s / %s takes back only what this scope introduced" % (
            lib.split_path(fn.name)[-1], short), ok,
               "RenameIdentifiersVisitor::%s shrinks the set of introduced binders (HashSet::%s, line %s) and %s: leaving an "
               "inner binding form un-introduces a spelling that an enclosing form of the same template also binds" % (
                   lib.split_path(fn.name)[-1], short, b["line"], why), fn.loc(b["line"]), sample=True)


def run(F, R, ctx):
    alignment_rule(F, R)
    descent_rule(F, R)
    binder_kind_rule(F, R)
    binder_sites_rule(F, R)
    case_rule(F, R)
    expansion_rule(F, R)
    scope_rule(F, R)
    template_walk_rule(F, R)
    whole_use_rule(F, R)
    unintroduce_rule(F, R)
    ellipsis_count_rule(F, R)
    module_qualification_rule(F, R)
    R.note("C13: decided are pattern/form alignment, walker agreement, the binder-site treatment of the renamer, the "
           "construction order of a macro case, clean binding tables, scope-layer pairing and traversal completeness of the "
           "template walkers. NOT decided: hygiene proper — which binding each identifier of an expansion resolves to. The "
           "implementation renames with a textual `##` prefix; two macros introducing the same spelling, or a user "
           "identifier spelled like a renamed one, can still capture each other (DESIGN §5).")


def module_qualification_rule(F, R):
    R.rule("C13.q", "every macro of a module is module-qualified before macros of that module are handed to a requirer: wherever a "
                    "function of the compiler marks a macro as mangled (SteelMacro::mark_mangled) in a loop, the loop runs over "
                    "the macro table itself (its iterator yields the table's SteelMacro entries) — not over a list of names "
                    "looked up in the table. The second expansion round of a requirer uses the module's whole macro table, "
                    "private macros included; a private macro left unqualified resolves its free identifiers at the use site")
    MAC_IT = re.compile(r"(Iter|IterMut|Values|ValuesMut|IntoIter|IntoValues)<[^>]*\bSteelMacro\b")
    n = 0
    for name, fn in sorted(F.fns.items()):
        if not name.startswith("steel::compiler::") and not name.startswith("steel::steel_vm::"):
            continue
        for k, m in enumerate(fn.call_blocks(r"\{impl SteelMacro\}::mark_mangled$")):
            after = fn.reachable_from(fn.succ(m))
            if m not in after:
                continue            # not in a loop: a single macro, nothing to cover
            n += 1
            heads = [(i, b) for i, b in fn.calls() if re.search(r"::next$", b["callee"]) and i in after and
                     m in fn.reachable_from(fn.succ(i))]
            over_table = [i for i, b in heads if any(MAC_IT.search(t) for t in (b.get("targs") or []))]
            R.inst("C13.q", "%s / mangling loop #%d runs over the macro table" % (fn.short(), k), bool(over_table),
                   "%s marks macros as module-qualified (line %s) in a loop that does not iterate the macro table itself (loop "
                   "iterators: %s): macros the loop's source does not name — a module's private macros — keep unqualified templates, "
                   "and an exported macro that expands into one calls the requirer's binding of the same spelling instead of the "
                   "module's" % (fn.short(), fn.blocks[m].get("line"),
                                 ", ".join(sorted({(b.get("targs") or ["?"])[0] for _, b in heads})) or "none"),
                   fn.loc(fn.blocks[m].get("line")), sample=True)
    R.floor("C13.q", "mangling loops", n, 2)
