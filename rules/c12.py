"""C12 — reading is total and inverse to writing (DESIGN §4 C12).

Round-trips and spans are value properties: not decided.  A panic-site census of the reader was tried and dropped: without
per-site guard proofs it is a frozen list that fires on behaviour-preserving edits (see DESIGN §5).  Decided clause:
  b  recursion in the reader: every call-graph cycle reachable from the reader's entry points (Parser::new*/next/parse*)
     inside steel-parser is either bounded by something other than datum nesting (allowlisted with the reason) or carries a
     depth guard; a cycle that walks the datum (derived Clone / PartialEq / Debug over ExprKind) recurses once per nesting
     level of the text being read.
"""
import re

from . import lib
from .lib import CheckError

ROOT_RX = r"^steel_parser::parser::\{impl[^}]*Parser[^}]*\}::(new|next|parse|parse_without_lowering|new_\w+)$"

# cycles bounded by something other than datum nesting: (member regex, reason)
ALLOW = [
    (r"^steel_parser::ast::parse_(define|named_let|let|new_let|if|single_argument)$|TryFrom<ThinVec<ExprKind>> for ExprKind\}::try_from$",
     "special-form lowering re-enters itself only for rewritten forms (curried define, named let -> letrec): depth is the "
     "number of such rewrites in one form, not the nesting of the datum (the nesting itself is handled with the explicit "
     "Frame stack in Parser::read_from_tokens)"),
    (r"\{impl Iterator for TokenStream(<'a>)?\}::next", "re-enters itself once per skipped comment token; 400000 consecutive "
     "comments were read without growth of the native stack being observable (tail position, optimised)"),
]


def run(F, R, ctx):
    _run(F, R, ctx)
    error_span_rule(F, R)
    reader_per_port_rule(F, R)
    symbol_write_rule(F, R)
    escape_agreement_rule(F, R)
    complex_sign_rule(F, R)
    delimiter_agreement_rule(F, R)
    interner_id_rule(F, R)
    counter_width_rule(F, R)
    printer_fields_rule(F, R)
    string_token_printer_rule(F, R)
    delimiter_owner_rule(F, R)
    char_count_offset_rule(F, R)
    per_char_offset_rule(F, R)


def _run(F, R, ctx):
    R.rule("C12.b", "every call-graph cycle (SCC) of steel-parser reachable from the reader's entry points is allowlisted as "
                    "bounded by something other than nesting depth, or contains a depth guard (stacker::maybe_grow or a depth "
                    "counter compared against a limit)")
    roots = [n for n in F.fns if re.search(ROOT_RX, n)]
    if len(roots) < 4:
        raise CheckError("anchor lost: reader entry points (found %d)" % len(roots))
    ce, _ = F.graph()
    reach = {n for n in F.reach(roots, stop=lambda n: not n.startswith("steel_parser::"))
             if n.startswith("steel_parser::") and n in F.fns}
    R.floor("C12.b", "reader-reachable functions", len(reach), 150)
    comps = lib.sccs(sorted(reach), lambda n: [c for c in ce.get(n, ()) if c in reach])
    R.note("%d functions of steel-parser are reachable from %d reader entry points; %d call-graph cycles." % (
        len(reach), len(roots), len(comps)))
    slice_rule(F, R, reach)
    for comp in comps:
        names = sorted(comp)
        allow = None
        for rx, reason in ALLOW:
            if any(re.search(rx, n) for n in names):
                allow = reason
        guarded = False
        for n in names:
            fn = F.fns[n]
            if fn.call_blocks(r"stacker::(maybe_grow|grow)$"):
                guarded = True
            if any(e[0] == "fld" and re.search(r"depth", e[2]) for _, _, e in fn.events("fld")) and \
                    any(e[1] in ("Gt", "Ge") for _, _, e in fn.events("binop")):
                guarded = True
        ast_walk = [n for n in names if re.search(r"\{impl (Clone|PartialEq|Debug|Hash)[^}]* for (ExprKind|List|Atom|Define|If|Let|"
                                                  r"LambdaFunction|Begin|Return|Quote|Macro|SyntaxRules|Set|Require|Vector|PatternPair)\}", n)]
        kind = "Clone" if any("impl Clone" in n for n in ast_walk) else ("structural" if ast_walk else "other")
        key = "reader cycle {%s%s} (%d functions)" % (", ".join(lib.short_name(n) for n in names[:2]), ", …" if len(names) > 2 else "", len(names))
        if ast_walk:
            key = "reader cycle through derived %s over the AST" % kind
        R.inst("C12.b", key, bool(allow) or guarded,
               "the reader reaches a recursive cycle of %d functions (%s) with no depth guard: it recurses once per nesting "
               "level of the datum being read, so deeply nested input overflows the native stack inside Parser::parse instead "
               "of producing a datum or a reader error" % (len(names), ", ".join(lib.short_name(n) for n in names[:4])),
               F.fns[names[0]].loc(), sample={"members": [lib.short_name(n) for n in names[:6]], "allowlisted": allow})


# byte-offset slicing of the source text in the reader: counted on the pinned tree and confirmed by reading (every offset
# comes from the lexer's own byte positions: token_start/token_end, char_indices, find, len of an ASCII prefix)
SLICE_BUDGET = {
    ("<str as Index<I>>::index", "Range<usize>"): 4,
    ("<str as Index<I>>::index", "RangeFrom<usize>"): 10,
    ("<str as Index<I>>::index", "RangeTo<usize>"): 1,
    ("str::split_at", ""): 1,
}
SLICE_RX = re.compile(r"core::str::traits::.*::index$|core::slice::index::.*::index$|::split_at$|::split_at_mut$|::get_unchecked(_mut)?$|"
                      r"from_utf8_unchecked$|from_u32_unchecked$|::slice_unchecked$|::unwrap_unchecked$")


def slice_rule(F, R, reach):
    R.rule("C12.s", "byte-offset slicing of the text in the reader (str indexing by a range, split_at, *_unchecked): the "
                    "multiset of such sites reachable from the reader entry points does not exceed the sites confirmed by "
                    "reading on the pinned tree (whose offsets are all byte positions produced by the lexer itself); a new "
                    "site must be shown to use a byte offset on a character boundary — slicing by a character count panics "
                    "on non-ASCII text")
    from collections import Counter
    cnt = Counter()
    where = {}
    for n in sorted(reach):
        fn = F.fns[n]
        for i, b in fn.calls():
            if SLICE_RX.search(b["callee"]):
                k = (lib.short_name(b["callee"]), (b["targs"][1] if len(b["targs"]) > 1 else ""))
                cnt[k] += 1
                where.setdefault(k, []).append((fn.short(), b["line"]))
    R.floor("C12.s", "slicing sites in the reader", sum(cnt.values()), 8)
    for k in sorted(set(cnt) | set(SLICE_BUDGET)):
        have, budget = cnt.get(k, 0), SLICE_BUDGET.get(k, 0)
        R.inst("C12.s", "reader slicing sites %s %s within the confirmed budget" % (k[0], k[1]), have <= budget,
               "the reader has %d site(s) of %s with %s but only %d were confirmed to slice at byte offsets on character "
               "boundaries; sites now: %s — a slice whose bound is a character count (or any unchecked offset) makes the "
               "reader itself panic on some text" % (have, k[0], k[1] or "no range", budget, where.get(k)), "",
               sample={"sites": where.get(k, [])[:4]})


def error_span_rule(F, R):
    from . import c07
    R.rule("C12.e", "an error location that is extended by the width of a character is computed while that character is still "
                    "unconsumed: in the lexer, every store into Lexer.error whose range end is computed from char::len_utf8 of a "
                    "peeked character has no call that advances the input (Lexer::eat / Iterator::next on the character "
                    "stream) on any path between the peek and the store. token_end already includes a consumed character, so "
                    "adding its width again puts the reported location past the end of the text (or inside a multi-byte "
                    "sequence)")
    n = 0
    for name, fn in sorted(F.fns.items()):
        if not name.startswith("steel_parser::lexer::"):
            continue
        stores = [i for i, _, e in fn.events("fld") if e[1] == "Lexer" and e[2] == "error" and e[3][0] in "wm"]
        if not stores or not fn.call_blocks(r"::len_utf8$"):
            continue
        maps = c07._backward(fn)
        widths = {}
        for i, b in fn.calls():
            d = re.match(r"_\d+", b.get("dest") or "")
            if d and re.search(r"::len_utf8$", b["callee"]):
                widths[d.group(0)] = (i, b)
        peeks = {}
        for i, b in fn.calls():
            d = re.match(r"_\d+", b.get("dest") or "")
            if d and re.search(r"Peekable<I>\}::peek$|::peek$", b["callee"]):
                peeks[d.group(0)] = i
        advances = [i for i, b in fn.calls() if re.search(r"\{impl Lexer(<'a>)?\}::eat$|Peekable<I>\}::next$|Iterator for Peekable<I>\}::next$", b["callee"])]
        for sblk in stores:
            vals = [e[2] for e in fn.blocks[sblk]["e"] if e[0] == "st" and e[1].endswith(".error")]
            org = set()
            for v in vals:
                for t in lib.TOK.findall(v):
                    org |= c07._origins(fn, t, maps)
            ws = [widths[o.split(".")[0]] for o in org if o.split(".")[0] in widths]
            if not ws:
                continue
            n += 1
            bad = None
            for wi, wb in ws:
                corg = set()
                for a in wb["args"]:
                    for t in lib.TOK.findall(a):
                        corg |= c07._origins(fn, t, maps)
                pk = [peeks[o.split(".")[0]] for o in corg if o.split(".")[0] in peeks]
                if not pk:
                    continue
                for p_ in pk:
                    for a_ in advances:
                        # an advance that happens after this peek and before the store, without the peek being repeated
                        if a_ in fn.reachable_from(fn.succ(p_), avoid=[sblk]) and \
                                sblk in fn.reachable_from(fn.succ(a_), avoid=[p_]):
                            bad = a_
            R.inst("C12.e", "%s / error range using a character's width is computed before the character is consumed" % fn.short(),
                   bad is None,
                   "%s consumes the offending character (line %s) and then adds that character's len_utf8 to token_end for the "
                   "error location: the range is shifted right by the character's width — for an invalid escape at the end of "
                   "the text, or a multi-byte one, the reported location lies outside the text / inside a UTF-8 sequence" % (
                       fn.short(), fn.blocks[bad].get("line") if bad is not None else "?"), fn.loc(), sample=True)
    R.floor("C12.e", "error-range stores that use a character's width", n, 1)


READER_SCM = "crates/steel-core/src/scheme/modules/reader.scm"


def reader_per_port_rule(F, R):
    from . import sexp, facts as factsmod
    R.rule("C12.r", "the runtime reader's buffered text belongs to the port it came from (syntax-tree rule over the Scheme library "
                    "source reader.scm): `read` and `read-syntax-object` select the reader object by the identity of the port "
                    "they read from — a module-level table (initialised with (hash)) is looked up / extended with the port as "
                    "key, inside the parameterize that installs the port and before read-impl runs — instead of sharing one "
                    "module-level reader between all ports. read-impl pulls a whole string/file port into the reader at the "
                    "first read, so with a shared reader the left-over of one port is returned to reads on another")
    forms = sexp.load(factsmod.REPO, READER_SCM)
    defs = sexp.definitions(forms)
    for need in ("read", "read-syntax-object", "read-impl"):
        if need not in defs:
            raise CheckError("anchor lost: %s not defined in %s" % (need, READER_SCM))
    tables = {n for n, v in defs.items() if sexp.is_form(v, "hash") and len(v) == 1}
    # selector functions: take a port, and set! a variable from (hash-ref T port) or insert a fresh reader under port
    selectors = set()
    for n, v in defs.items():
        body = sexp.lambda_body(v)
        if body is None or not isinstance(v[1], list) or not v[1]:
            continue
        params = {str(x) for x in v[1]}
        uses_table = False
        for f in sexp.walk(v):
            if sexp.is_form(f) and str(f[0]) in ("hash-ref", "hash-try-get", "hash-get", "hash-insert", "hash-contains?") and \
                    len(f) >= 3 and str(f[1]) in tables and str(f[2]) in params:
                uses_table = True
        sets = any(sexp.is_form(f, "set!") for f in sexp.walk(v))
        if uses_table and sets:
            selectors.add(n)
    where = lambda x: "%s:%s" % (READER_SCM, getattr(x, "line", 0))
    for entry in ("read", "read-syntax-object"):
        fn = defs[entry]
        ok = False
        for f in sexp.walk(fn):
            if sexp.is_form(f, "parameterize") and len(f) >= 3:
                order = sexp.seq_order(f[2:])
                sel = [i for i, c in enumerate(order) if str(c[0]) in selectors and any(
                    sexp.is_form(a, "current-input-port") or (isinstance(a, str) and a in ("port",)) for a in c[1:])]
                imp = [i for i, c in enumerate(order) if str(c[0]) == "read-impl"]
                if sel and imp and sel[0] < imp[0]:
                    ok = True
        R.inst("C12.r", "%s selects its reader by the port before reading" % entry, ok and bool(tables),
               "reader.scm: %s does not pick the reader object by the port it reads from (no per-port table lookup before "
               "read-impl): text buffered from one port is returned by reads on another — after (read (open-input-string "
               "\"hello world\")), (read (open-input-string \"(1 2 3)\")) returns world — and an unclosed form on one port "
               "makes every later read return eof" % entry, where(fn), sample={"tables": sorted(tables), "selectors": sorted(selectors)})


def symbol_write_rule(F, R):
    from . import c07
    R.rule("C12.w", "the writer does not print a symbol's name verbatim without looking at it: in the write-mode formatter "
                    "(CycleDetector::format_with_cycles) the SymbolV arm branches on a predicate computed from the symbol's "
                    "text before it emits it (sibling agreement with the StringV arm, which escapes) — a name containing a "
                    "delimiter, the empty name, a name that looks like a number or #t would otherwise be read back as "
                    "something else")
    fn = F.one(r"\{impl CycleDetector\}::format_with_cycles$")
    sws = lib.enum_switches(fn, "SteelVal")
    if not sws:
        raise CheckError("anchor lost: format_with_cycles does not match on SteelVal")
    sw = max(sws, key=lambda x: len(fn.blocks[x]["targets"]))
    am = lib.arm_map(fn, sw)
    if "SymbolV" not in am or am["SymbolV"] == am.get("_"):
        raise CheckError("anchor lost: no SymbolV arm in format_with_cycles")
    others = {t for v, t in am.items() if v != "SymbolV"}
    region = fn.reachable_from([am["SymbolV"]], avoid=others | set(fn.dominators()[sw]))
    maps = c07._backward(fn)
    pred = False
    for b in region:
        blk = fn.blocks[b]
        if blk["k"] != "switch" or blk["on"] != "bool":
            continue
        loc = re.match(r"_\d+", blk.get("place", "").strip("()*"))
        if not loc:
            continue
        org = c07._origins(fn, loc.group(0), maps)
        if any(o.split(".")[0] in maps[2] and maps[2][o.split(".")[0]]["callee"].startswith("steel::") for o in org):
            pred = True
    # by-construction agreement with the reader: the predicate asks the lexer (or, if hand-written, knows every alias
    # spelling that the lexer's read_word maps to a special token)
    preds = set()
    for b in region:
        blk = fn.blocks[b]
        if blk["k"] == "call" and blk["callee"].startswith("steel::") and blk["callee"] in F.fns:
            preds.add(blk["callee"])
    lexnext = [n for n in F.fns if re.search(r"^steel_parser::lexer::\{impl Iterator for Lexer<'a>\}::next$|^steel_parser::lexer::\{impl Iterator for Lexer\}::next$", n)]
    if not lexnext:
        raise CheckError("anchor lost: steel_parser Lexer::next")
    asks = any(F.reaches(p_, re.escape(lexnext[0]) + "$") for p_ in preds)
    rw = F.one(r"^steel_parser::lexer::\{impl Lexer<'a>\}::read_word$|^steel_parser::lexer::\{impl Lexer\}::read_word$")
    aliases = set()
    for _, cb in rw.calls():
        for a in cb["args"]:
            if a.startswith("str:"):
                aliases.add(a[4:])
    aliases = {a for a in aliases if a and not re.search(r"\s", a)}
    if len(aliases) < 10:
        raise CheckError("C12.w: only %d special spellings found in Lexer::read_word (expected the special-form table)" % len(aliases))
    known = set()
    stack, seen = list(preds), set()
    while stack:
        x = stack.pop()
        if x in seen or x not in F.fns or not x.startswith("steel::"):
            continue
        seen.add(x)
        for _, cb in F.fns[x].calls():
            for a in cb["args"]:
                if a.startswith("str:"):
                    known.add(a[4:])
            stack.append(cb["callee"])
        for _, _, e in F.fns[x].events("kv"):
            if str(e[2]).startswith("str:"):
                known.add(str(e[2])[4:])
    # spellings that read back as a different symbol than written: aliases (fn, defn, …) — the canonical ones are fine
    canon = {"if", "let", "define", "%plain-let", "return!", "begin", "lambda", "quote", "syntax-rules", "define-syntax",
             "...", "set!", "require"}
    need = aliases - canon
    R.inst("C12.w", "the quoting predicate agrees with the lexer by construction", asks or need <= known,
           "the predicate that decides whether `write` puts a symbol between bars neither runs the lexer over the name nor "
           "mentions the spellings %s that Lexer::read_word turns into other tokens: such symbols (and `+x`, which the lexer "
           "splits into `+` and `x`, or `1@2`) are written bare and read back as something else"
           % sorted(need - known), fn.loc(), sample={"asks_lexer": asks, "aliases": sorted(need)})
    R.inst("C12.w", "format_with_cycles / SymbolV arm consults a quoting predicate", pred,
           "the SymbolV arm of CycleDetector::format_with_cycles writes the symbol's name as it is: "
           "(write (string->symbol \"hello world\")) prints hello world, which reads back as two symbols; '|| prints "
           "nothing; (string->symbol \"1\") prints 1, which reads back as a number", fn.loc(), sample=True)


# what Rust's generic escapers can put after a backslash (documented behaviour of core::char / core::str)
RUST_ESCAPERS = {
    "char::escape_debug / {:?} of a char": set("0trn'\"\\u"),
    "char::escape_default": set("trn'\"\\u"),
    "char::escape_unicode": set("u"),
    "{:?} of a string": set("0trn\"\\u"),
}


def escape_agreement_rule(F, R):
    R.rule("C12.q", "writer and reader agree on escapes (table agreement): wherever the external formatter "
                    "(CycleDetector::format_with_cycles and the repository's helpers it calls) emits text produced by one of "
                    "Rust's generic escapers — Debug formatting of a string or char, char::escape_debug / escape_default / "
                    "escape_unicode handed to a format argument — every character that escaper can put after a backslash "
                    "is one that Lexer::read_string_escape accepts (the characters of its match, read from the code). "
                    "`\\'` for instance is produced by the char escapers and rejected by the lexer")
    rse = F.one(r"^steel_parser::lexer::\{impl Lexer(<'a>)?\}::read_string_escape$")
    sw = [b for b in rse.blocks if b["k"] == "switch" and not b["c"] and b["on"] == "char"]
    if not sw:
        raise CheckError("anchor lost: Lexer::read_string_escape has no match on the escape character")
    top = max(sw, key=lambda b: len(b["targets"]))
    accepted = set()
    for v, _ in top["targets"]:
        try:
            accepted.add(chr(int(v)))
        except ValueError:
            pass
    if len(accepted) < 8:
        raise CheckError("C12.q: only %d escape characters found in Lexer::read_string_escape" % len(accepted))
    fw = F.one(r"\{impl CycleDetector\}::format_with_cycles$")
    n = 0
    for i, cb in lib.deep_calls(F, fw, depth=2, crates=("steel::rvals::",)):
        m = re.search(r"\{impl Argument\}::new_(\w+)$", cb["callee"])
        if not m or not cb.get("targs"):
            continue
        how, ty = m.group(1), cb["targs"][0].lstrip("&")
        kind = None
        if re.match(r"EscapeDebug", ty) or (how == "debug" and ty == "char"):
            kind = "char::escape_debug / {:?} of a char"
        elif re.match(r"EscapeDefault", ty):
            kind = "char::escape_default"
        elif re.match(r"EscapeUnicode", ty):
            kind = "char::escape_unicode"
        elif how == "debug" and ty in ("SteelString", "str", "String", "Cow<str>", "Gc<String>"):
            kind = "{:?} of a string"
        if kind is None:
            continue
        n += 1
        missing = sorted(RUST_ESCAPERS[kind] - accepted)
        R.inst("C12.q", "formatter emits %s (format argument of type %s) / all its escapes are read back" % (kind, ty), not missing,
               "the external formatter emits the output of %s (line %s), which can write a backslash followed by %s — "
               "Lexer::read_string_escape has no case for that, so the written text is rejected by the reader (read "
               "returns an error / eof instead of the datum)" % (kind, cb["line"], ", ".join(repr(c) for c in missing)),
               fw.loc(cb["line"]), sample={"accepted_by_lexer": "".join(sorted(accepted))})
    R.floor("C12.q", "generic escapers emitted by the external formatter", n, 1)


def complex_sign_rule(F, R):
    R.rule("C12.j", "the printers of complex numbers agree on when to write the joining `+` (sibling agreement): every function "
                    "that asks SteelComplex::imaginary_is_negative — Display for SteelComplex (write / display) and "
                    "format_number (number->string) — also asks imaginary_is_finite, because an infinite or NaN imaginary part "
                    "is printed with its own sign (`+inf.0`): a printer that only looks at the sign writes `1++inf.0i`, which "
                    "the lexer does not read as a number")
    callers = F.graph()[1]
    neg = [n for n in F.fns if re.search(r"\{impl SteelComplex\}::imaginary_is_negative$", n)]
    fin = [n for n in F.fns if re.search(r"\{impl SteelComplex\}::imaginary_is_finite$", n)]
    if not neg or not fin:
        raise CheckError("anchor lost: SteelComplex::imaginary_is_negative / imaginary_is_finite")
    cs = sorted(c for c in callers.get(neg[0], ()) if c in F.fns and c.startswith("steel::"))
    for c in cs:
        f = F.fns[c]
        ok = bool(f.call_blocks(r"\{impl SteelComplex\}::imaginary_is_finite$", wrappers=True))
        R.inst("C12.j", "%s / the joining + depends on sign and finiteness of the imaginary part" % f.short(), ok,
               "%s decides how to join the two parts of a complex number from the sign of the imaginary part alone "
               "(imaginary_is_negative without imaginary_is_finite): (write 1+inf.0i) gives 1++inf.0i, which reads back as a "
               "symbol" % f.short(), f.loc(), sample=True)
    R.floor("C12.j", "printers of complex numbers", len(cs), 2)


def delimiter_agreement_rule(F, R):
    R.rule("C12.d", "one set of delimiters (sibling agreement inside the lexer): every character at which Lexer::read_word stops "
                    "without consuming it — a parenthesis, bracket or brace, a quote mark, a string quote, a comma, a comment "
                    "— also finishes a numeric literal in Lexer::read_number (its arm tries to parse what was read so far "
                    "instead of consuming the character or falling back to read_word). A delimiter missing there turns the "
                    "number before it into an identifier: `(+ 1 2;comment` reads the symbol 2")
    def char_arms(fn):
        """char -> (consumes: the arm reaches Lexer::eat before the next test of a character, target block)"""
        out = {}
        sws = [i for i, b in enumerate(fn.blocks) if b["k"] == "switch" and b["on"] == "char" and not b["c"]]
        eats = set(fn.call_blocks(r"\{impl Lexer(<'a>)?\}::eat$"))
        for sb in sws:
            for v, t in fn.blocks[sb]["targets"]:
                try:
                    ch = chr(int(v))
                except ValueError:
                    continue
                region = fn.reachable_from([t], avoid=set(sws))
                out[ch] = (bool(region & eats) or t in eats, t, region)
        return out
    rw = F.one(r"^steel_parser::lexer::\{impl Lexer(<'a>)?\}::read_word$")
    rn = F.one(r"^steel_parser::lexer::\{impl Lexer(<'a>)?\}::read_number$")
    wa, na = char_arms(rw), char_arms(rn)
    delims = sorted(ch for ch, (consumes, _, _) in wa.items() if not consumes)
    if len(delims) < 8:
        raise CheckError("C12.d: only %d delimiters recognised in Lexer::read_word" % len(delims))
    parse = set(rn.call_blocks(r"lexer::try_parse_number$"))
    for ch in delims:
        arm = na.get(ch)
        ok = arm is not None and not arm[0] and bool(arm[2] & parse or arm[1] in parse)
        R.inst("C12.d", "read_number finishes a number at %r" % ch, ok,
               "Lexer::read_word treats %r as a delimiter, but Lexer::read_number %s: a number written directly before it "
               "is lexed as an identifier (`2%sx` gives the symbol 2), so valid input is read as the wrong datum"
               % (ch, "has no case for it" if arm is None else "does not finish the number there", ch), rn.loc(), sample=(ch in "{;"))


def interner_id_rule(F, R):
    from .c07 import _backward, _origins
    R.rule("C12.i", "an interned token's id and its table entry are tied by the id itself, not by arrival order: in every "
                    "function of the parser / core that draws an id from an atomic counter (fetch_add) and records a value in "
                    "a shared table of the same object, each recording call (insert / push / set / extend on a field of "
                    "self) that follows takes an argument derived from the id drawn. nc: a table filled by position (`push`) "
                    "is ordered by who takes the lock first, the ids by who incremented first; two threads lexing different "
                    "new number literals at once exchange their numbers for good — the syntax tree holds a different number "
                    "than the text (reading is not deterministic under concurrency)")
    n = 0
    for name, fn in sorted(F.fns.items()):
        if not name.startswith(("steel::", "steel_parser::")):
            continue
        fa = [(i, b) for i, b in fn.calls() if re.search(r"\{impl Atomic<\w+>\}::fetch_add$|Atomic\w+\}::fetch_add$", b["callee"]) and b.get("dest")]
        if not fa:
            continue
        maps0 = _backward(fn)
        muts = [(i, b) for i, b in fn.calls()
                if re.search(r"::(insert|push|push_back|extend|set|insert_full)$", b["callee"]) and b["args"]
                and "_1" in {o.split(".")[0] for o in _origins(fn, re.match(r"_\d+", b["args"][0]).group(0), maps0, depth=14)}]
        if not muts:
            continue
        maps = maps0
        ids = {b["dest"].split(".")[0] for _, b in fa}
        for i, b in muts:
            if not any(i in fn.reachable_from(fn.succ(f_)) for f_, _ in fa):
                continue
            n += 1
            ok = False
            for a in b["args"][1:]:
                for t in lib.TOK.findall(a):
                    if ({o.split(".")[0] for o in _origins(fn, t, maps, depth=14)} | {t.split(".")[0]}) & ids:
                        ok = True
            R.inst("C12.i", "%s / %s records under the id drawn" % (fn.short(), lib.split_path(b["callee"])[-1]), ok,
                   "%s draws an id with fetch_add and then records a value with %s (line %s) without passing the id: the entry's "
                   "position depends on which thread gets to the table first, not on the id handed out" % (
                       fn.short(), lib.split_path(b["callee"])[-1], b["line"]), fn.loc(b["line"]), sample=True)
    R.floor("C12.i", "table insertions after drawing an id", n, 2)


def counter_width_rule(F, R):
    R.rule("C12.o", "what the reader counts, it counts in at least 32 bits: every overflow-checked addition / multiplication in "
                    "steel-parser (offsets, nesting depths, pending datum comments, list lengths) is on an integer type of 32 "
                    "bits or more. nc: a count of input items kept in a u8 / u16 overflows on a text with a few hundred of "
                    "them — 256 `#;` datum comments in one list panicked the reader (debug) or wrapped (release)")
    n = 0
    for name, fn in sorted(F.fns.items()):
        if not name.startswith("steel_parser::") or re.search(r"::tests?::|_tests?::", name):
            continue
        for b in fn.blocks:
            if b["c"]:
                continue
            for e in b["e"]:
                if e[0] == "binop" and e[1] in ("AddWithOverflow", "MulWithOverflow", "Add", "Mul") and \
                        re.match(r"^[iu](8|16|32|64|128|size)$", e[2]) and not str(e[5]).startswith("const:") :
                    n += 1
                    R.inst("C12.o", "%s / %s on %s (line %s)" % (fn.short(), e[1].replace("WithOverflow", ""), e[2], e[3]),
                           e[2] not in ("u8", "i8", "u16", "i16"),
                           "%s counts in %s (line %s: %s %s %s): a text with more than %d of the counted items overflows it — "
                           "the reader panics (debug build) or miscounts (release) instead of accepting or rejecting the text" % (
                               fn.short(), e[2], e[3], e[5], e[1], e[6], 255 if e[2] in ("u8", "i8") else 65535),
                           fn.loc(e[3]), sample=n <= 2)
    R.floor("C12.o", "counting additions in the reader", n, 8)


PRINTER_FIELD_EXEMPT = {
    ("LambdaFunction", "kwargs"): "never set from syntax: every constructor of steel-parser stores false (keyword arguments are "
                                  "recognised later from the argument list itself, which is printed)",
}


def printer_fields_rule(F, R):
    R.rule("C12.p", "the printer of a syntax node shows everything the parser put into it: for every struct of steel_parser::ast "
                    "with a Display impl, each field that is not a source location (types RawSyntaxObject / Span) or a node id "
                    "(u32 syntax_object_id) is read by the impl (callees one level) — type-directed, so a field added tomorrow "
                    "is covered. nc: a field that changes what the node means and is not printed makes `print, then parse` a "
                    "different tree — `(lambda (a . b) a)` printed as `(lambda (a b) a)`")
    n = 0
    for name, fn in sorted(F.fns.items()):
        m = re.search(r"^steel_parser::ast::\{impl Display for (\w+)\}::fmt$", name)
        if not m:
            continue
        t = m.group(1)
        try:
            adt = F.adt(t)
        except Exception:
            continue
        if not adt or len(adt["variants"]) != 1 or adt.get("kind") == "enum":
            continue
        read = set(e[2] for _, e in lib.deep_events(F, fn, "fld", depth=1) if e[1] == t)
        for f in adt["variants"][0]["fields"]:
            if re.search(r"RawSyntaxObject|^Span$|SyntaxObjectId", f["ty"]) or f["name"] in ("syntax_object_id",):
                continue
            n += 1
            if (t, f["name"]) in PRINTER_FIELD_EXEMPT:
                R.inst("C12.p", "Display for %s / %s (allowlisted)" % (t, f["name"]), True,
                       sample={"reason": PRINTER_FIELD_EXEMPT[(t, f["name"])]}, nontrivial=False)
                continue
            R.inst("C12.p", "Display for %s reads %s" % (t, f["name"]), f["name"] in read,
                   "Display for steel_parser::ast::%s never looks at its field `%s` (%s): two nodes that differ in it print "
                   "alike, and the printed program parses back as a different tree" % (t, f["name"], f["ty"]), fn.loc(), sample=n <= 3)
    R.floor("C12.p", "semantic fields of printable syntax nodes", n, 20)


def string_token_printer_rule(F, R):
    R.rule("C12.t", "a string literal token is printed the way the lexer reads it: the StringLiteral arm of Display for TokenType "
                    "distinguishes (a switch on the character) at least the double quote and the backslash — the two characters "
                    "that end or escape a string in Lexer::read_string — or hands the text to an escaping formatter "
                    "(escape_default / escape_debug / {:?}). nc: printed verbatim between quotes, a string containing `\"` or "
                    "`\\` does not read back (or reads back as a different program)")
    fns = F.find(r"^steel_parser::tokens::\{impl Display for TokenType<[^}]*\}::fmt$")
    if not fns:
        raise CheckError("anchor lost: Display for TokenType")
    for fn in fns:
        ok, seen = False, False
        for sb in lib.enum_switches(fn, "TokenType"):
            am = lib.arm_map(fn, sb)
            t = am.get("StringLiteral")
            if t is None:
                continue
            seen = True
            others = {x for v, x in am.items() if v != "StringLiteral" and x != t}
            arm = fn.reachable_from([t], avoid={sb} | others)
            for x in arm:
                b = fn.blocks[x]
                if b["k"] == "switch" and b["on"] == "char":
                    vals = {v for v, _ in b["targets"]}
                    if {"34", "92"} <= vals:
                        ok = True
                if b["k"] == "call" and re.search(r"escape_(default|debug)$|\{impl Debug for str\}::fmt$", b["callee"]):
                    ok = True
        if not seen:
            raise CheckError("anchor lost: no StringLiteral arm in Display for TokenType")
        R.inst("C12.t", "Display for TokenType / StringLiteral escapes quote and backslash", ok,
               "Display for TokenType writes a StringLiteral's text verbatim between double quotes: a string that contains a "
               "double quote or a backslash is printed as something the lexer reads differently (or rejects)", fn.loc(), sample=True)


DELIMS = {"40", "41", "91", "93", "123", "125"}
DELIM_ALLOW = {
    "cycles::symbol_needs_bars": "the writer's question whether a symbol must be written between bars; tied to the lexer by C12.w",
}


def delimiter_owner_rule(F, R):
    R.rule("C12.x", "only the lexer classifies list delimiters in text: a function that compares bytes / characters with an opening "
                    "and a closing list delimiter ( ( [ { and ) ] } ) belongs to steel_parser::lexer, or is allowlisted by name with "
                    "a reason. Whether a datum is complete is decided by lexing and parsing it; a count of raw delimiters outside "
                    "the lexer cannot know that a delimiter inside a string, a character literal, a |symbol| or a comment is not one")
    owners = 0
    for n, fn in sorted(F.fns.items()):
        seen = set()
        for b in fn.blocks:
            if b["c"]:
                continue
            if b["k"] == "switch" and b.get("on") in ("u8", "char", "u32"):
                seen |= {v for v, _ in b["targets"]} & DELIMS
            for e in b["e"]:
                if e[0] == "binop" and e[1] in ("Eq", "Ne") and e[2] in ("u8", "char"):
                    seen |= {str(x)[6:] for x in e[5:] if str(x).startswith("const:")} & DELIMS
        if not (seen & {"40", "91", "123"} and seen & {"41", "93", "125"}):
            continue
        if n.startswith("steel_parser::lexer::"):
            owners += 1
            continue
        key = lib.short_name(n)
        allow = [r for k, r in DELIM_ALLOW.items() if k in key]
        R.inst("C12.x", "%s classifies list delimiters" % key, bool(allow),
               "%s compares input characters with opening and closing list delimiters (%s) outside the lexer: it decides something "
               "about the shape of a datum from raw text, so `(a \"(\" b)` — an opener inside a string, a character literal #\\( , a "
               "|a{b| symbol or a comment — is miscounted (a complete list looks unfinished, or an unfinished one complete)" % (
                   key, " ".join(sorted(chr(int(v)) for v in seen))), fn.loc(), sample={"allow": allow[0]} if allow else True,
               nontrivial=not allow)
    R.floor("C12.x", "lexer functions classifying list delimiters (positive control)", owners, 3)


def char_count_offset_rule(F, R):
    R.rule("C12.u", "a character count is never used as a byte offset: in steel-parser and the script-reachable string code of "
                    "steel-core, no position that derives from the counter of `chars().enumerate()` (Enumerate<Chars>::next) "
                    "reaches str::split_at / split_at_mut, a str range index, or get_unchecked. On text with a multi-byte "
                    "character before the position the offset is not a character boundary and the operation panics; "
                    "`char_indices()` yields byte offsets")
    SINK = re.compile(r"core::str::\{impl str\}::split_at(_mut|_checked)?$|core::str::traits::.*::index(_mut)?$|"
                      r"core::str::\{impl str\}::get_unchecked(_mut)?$|core::str::\{impl str\}::(get|is_char_boundary)$")
    n = 0
    for name, fn in sorted(F.fns.items()):
        if not (name.startswith("steel_parser::") or name.startswith("steel::")):
            continue
        sinks = [b for _, b in fn.calls() if SINK.search(b["callee"])]
        if not sinks:
            continue
        n += 1
        srcs = [b["dest"] for _, b in fn.calls()
                if re.search(r"Enumerate<I>\}::next$", b["callee"]) and any(re.search(r"Enumerate<(core::str::)?Chars\b", t) for t in (b.get("targs") or []))]
        if not srcs:
            continue
        taint = lib.tainted_locals(fn, srcs)
        bad = None
        for b in sinks:
            if any(a in taint for a in b["args"][1:]):
                bad = b
                break
        R.inst("C12.u", "%s / the counter of chars().enumerate() is not a byte offset" % fn.short(), bad is None,
               bad and ("%s hands a position counted in characters (chars().enumerate()) to %s (line %s), which takes a byte offset: "
                        "with a multi-byte character in front of the position — (string->number \"é/2\") — the offset is not a "
                        "character boundary and the host panics" % (fn.short(), lib.short_name(bad["callee"]), bad.get("line"))),
               fn.loc(bad.get("line")) if bad else "", sample=True)
    R.floor("C12.u", "functions that slice text at byte offsets (population examined)", n, 10)


def per_char_offset_rule(F, R):
    R.rule("C12.u", "(second form) a byte offset advanced once per character grows by the character's width: in the reader "
                    "(steel-parser, and the runtime reader in steel_vm::primitives) a place that is incremented by the constant 1 "
                    "inside a loop over the characters of a text (an iterator over `Chars`, not `CharIndices`) is not the start "
                    "of a str range (`get(offset..)`, `[offset..]`, split_at) anywhere in the function. After a multi-byte "
                    "character the offset lies inside a character: `get` answers None and the rest of the text is dropped, an "
                    "index panics")
    n = 0
    for name, fn in sorted(F.fns.items()):
        if not (name.startswith("steel_parser::") or re.search(r"^steel::steel_vm::primitives::\{impl Reader\}::", name)):
            continue
        heads = [i for i, b in fn.calls() if re.search(r"::next$", b["callee"]) and
                 any(re.search(r"\bChars\b", t) and "CharIndices" not in t for t in (b.get("targs") or []))]
        if not heads:
            continue
        n += 1
        bumped = []
        for h in heads:
            cyc = {b for b in fn.reachable_from(fn.succ(h)) if h in fn.reachable_from(fn.succ(b))} | {h}
            for b in cyc:
                for e in fn.blocks[b]["e"]:
                    if e[0] == "binop" and e[1] in ("AddWithOverflow", "Add") and "const:1" in [str(x) for x in e[5:]]:
                        place = [str(x) for x in e[5:] if str(x) != "const:1"]
                        if place and not re.match(r"^_\d+$", place[0]):
                            bumped.append((place[0], e[3]))
        bad = None
        for place, line in bumped:
            for i, b in fn.calls():
                if re.search(r"core::str::\{impl str\}::(get|get_mut|split_at|split_at_mut|get_unchecked)$|core::str::traits::.*::index(_mut)?$",
                             b["callee"]):
                    # the range / position argument is built from the bumped place
                    srcs = set()
                    for a in b["args"][1:]:
                        srcs |= lib.alias_sources(fn, a.split(".")[0])
                    if place in srcs or any(s_.startswith(place) for s_ in srcs):
                        bad = (place, line, b)
                        break
            if bad:
                break
        R.inst("C12.u", "%s / an offset bumped by 1 per character is not used as a byte position" % fn.short(), bad is None,
               bad and ("%s adds 1 to %s for every character of a loop over `chars()` (line %s) and uses it as the start of a byte "
                        "range (%s, line %s): after a multi-byte character — a U+3000 or no-break space after a datum — the offset "
                        "is inside a character and the rest of the port is silently dropped: (read p) on \"a\\u3000b c\" answers a, "
                        "then eof" % (fn.short(), bad[0], bad[1], lib.short_name(bad[2]["callee"]), bad[2].get("line"))),
               fn.loc(bad[1]) if bad else "", sample=True)
    R.floor("C12.u", "reader functions that loop over characters", n, 3)
