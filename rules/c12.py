"""C12 — reading is total and inverse to writing (DESIGN §4 C12).

Round-trips and spans are value properties: not decided.  A panic-site census of the reader was tried and dropped: without
per-site guard proofs it is a frozen list that fires on behaviour-preserving edits (see DESIGN §5).  Decided clause:
  b  recursion in the reader: every call-graph cycle reachable from the reader's entry points (Parser::new*/next/parse*)
     inside steel-parser is either bounded by something other than datum nesting (allowlisted with the reason) or carries a
     depth guard; a cycle that walks the datum (derived Clone / PartialEq / Debug over ExprKind) recurses once per nesting
     level of the text being read.
"""
import re

from . import lib
from .lib import CheckError

ROOT_RX = r"^steel_parser::parser::\{impl[^}]*Parser[^}]*\}::(new|next|parse|parse_without_lowering|new_\w+)$"

# cycles bounded by something other than datum nesting: (member regex, reason)
ALLOW = [
    (r"^steel_parser::ast::parse_(define|named_let|let|new_let|if|single_argument)$|TryFrom<ThinVec<ExprKind>> for ExprKind\}::try_from$",
     "special-form lowering re-enters itself only for rewritten forms (curried define, named let -> letrec): depth is the "
     "number of such rewrites in one form, not the nesting of the datum (the nesting itself is handled with the explicit "
     "Frame stack in Parser::read_from_tokens)"),
    (r"\{impl Iterator for TokenStream(<'a>)?\}::next", "re-enters itself once per skipped comment token; 400000 consecutive "
     "comments were read without growth of the native stack being observable (tail position, optimised)"),
]


def run(F, R, ctx):
    R.rule("C12.b", "every call-graph cycle (SCC) of steel-parser reachable from the reader's entry points is allowlisted as "
                    "bounded by something other than nesting depth, or contains a depth guard (stacker::maybe_grow or a depth "
                    "counter compared against a limit)")
    roots = [n for n in F.fns if re.search(ROOT_RX, n)]
    if len(roots) < 4:
        raise CheckError("anchor lost: reader entry points (found %d)" % len(roots))
    ce, _ = F.graph()
    reach = {n for n in F.reach(roots, stop=lambda n: not n.startswith("steel_parser::"))
             if n.startswith("steel_parser::") and n in F.fns}
    R.floor("C12.b", "reader-reachable functions", len(reach), 150)
    comps = lib.sccs(sorted(reach), lambda n: [c for c in ce.get(n, ()) if c in reach])
    R.note("%d functions of steel-parser are reachable from %d reader entry points; %d call-graph cycles." % (
        len(reach), len(roots), len(comps)))
    for comp in comps:
        names = sorted(comp)
        allow = None
        for rx, reason in ALLOW:
            if any(re.search(rx, n) for n in names):
                allow = reason
        guarded = False
        for n in names:
            fn = F.fns[n]
            if fn.call_blocks(r"stacker::(maybe_grow|grow)$"):
                guarded = True
            if any(e[0] == "fld" and re.search(r"depth", e[2]) for _, _, e in fn.events("fld")) and \
                    any(e[1] in ("Gt", "Ge") for _, _, e in fn.events("binop")):
                guarded = True
        ast_walk = [n for n in names if re.search(r"\{impl (Clone|PartialEq|Debug|Hash)[^}]* for (ExprKind|List|Atom|Define|If|Let|"
                                                  r"LambdaFunction|Begin|Return|Quote|Macro|SyntaxRules|Set|Require|Vector|PatternPair)\}", n)]
        kind = "Clone" if any("impl Clone" in n for n in ast_walk) else ("structural" if ast_walk else "other")
        key = "reader cycle {%s%s} (%d functions)" % (", ".join(lib.short_name(n) for n in names[:2]), ", …" if len(names) > 2 else "", len(names))
        if ast_walk:
            key = "reader cycle through derived %s over the AST" % kind
        R.inst("C12.b", key, bool(allow) or guarded,
               "the reader reaches a recursive cycle of %d functions (%s) with no depth guard: it recurses once per nesting "
               "level of the datum being read, so deeply nested input overflows the native stack inside Parser::parse instead "
               "of producing a datum or a reader error" % (len(names), ", ".join(lib.short_name(n) for n in names[:4])),
               F.fns[names[0]].loc(), sample={"members": [lib.short_name(n) for n in names[:6]], "allowlisted": allow})
