"""E3: compile-fail witnesses (thorough tier). Runs /verif/witness's doc-tests with nightly (error codes are checked) against
/repo's current sources and turns each doc-test into a rule instance of the property named by its item's prefix."""
import json
import os
import re
import shutil
import subprocess

from . import facts as factsmod
from .lib import CheckError

VERIF = factsmod.VERIF
WDIR = os.path.join(VERIF, "witness")

TEXT = {
    "C03GcIsNotDerefMut": "a shared value cannot be mutated through Gc (no DerefMut): `g.push(..)` must not compile",
    "C03GcIsNotAssignable": "`*g = v` on a Gc must not compile",
    "C05BiasedRcSendNeedsSync": "BiasedRc<Cell<u8>> must not be Send",
    "C19RootIsNotClone": "a RootedSteelVal (host root token) must not be Clone",
    "C20LentObjectIsExclusivelyBorrowed": "a host object lent with with_mut_reference cannot be used while the guard lives",
    "C20GuardCannotOutliveObject": "the LifetimeGuard cannot outlive the lent object",
}


def run_all():
    key, _ = factsmod.tree_hash("witness")
    cache = os.path.join(factsmod.WORK, "witness", key + ".json")
    if os.path.exists(cache):
        return json.load(open(cache))
    shutil.copy(os.path.join(factsmod.REPO, "Cargo.lock"), os.path.join(WDIR, "Cargo.lock"))
    env = dict(os.environ)
    env.update({"CARGO_TARGET_DIR": os.path.join(factsmod.WORK, "target-witness"), "CARGO_NET_OFFLINE": "true"})
    p = subprocess.run(["cargo", "+nightly", "test", "--doc", "--offline"], cwd=WDIR, env=env,
                       stdout=subprocess.PIPE, stderr=subprocess.STDOUT, text=True)
    res = {}
    for m in re.finditer(r"^test src/lib\.rs - (\w+) \(line (\d+)\)( - compile fail)? \.\.\. (\w+)", p.stdout, re.M):
        name, line, cf, verdict = m.group(1), int(m.group(2)), bool(m.group(3)), m.group(4)
        res.setdefault(name, []).append({"compile_fail": cf, "ok": verdict == "ok", "line": line})
    if not res:
        raise CheckError("witness crate did not run: " + p.stdout[-800:])
    os.makedirs(os.path.dirname(cache), exist_ok=True)
    json.dump(res, open(cache, "w"))
    return res


def rule(R, prop):
    res = run_all()
    rid = prop + ".w"
    R.rule(rid, "type-level witnesses (compile_fail doc-tests with error codes, each paired with a compiling twin) in "
                "/verif/witness, compiled against /repo's current sources with nightly")
    n = 0
    for name, tests in sorted(res.items()):
        if not name.startswith(prop):
            continue
        twins = [t for t in tests if not t["compile_fail"]]
        fails = [t for t in tests if t["compile_fail"]]
        if not twins or not fails:
            raise CheckError("witness %s lost its twin" % name)
        if not all(t["ok"] for t in twins):
            raise CheckError("witness %s: the compiling twin no longer compiles (API path changed) — anchor lost" % name)
        n += 1
        R.inst(rid, "witness %s" % name, all(t["ok"] for t in fails),
               "the program that must not type-check now compiles (or fails with a different error): %s" % TEXT.get(name, name),
               "witness/src/lib.rs:%d" % fails[0]["line"], sample={"clause": TEXT.get(name, name)})
    if n == 0:
        raise CheckError("no witness for %s" % prop)
