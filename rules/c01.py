"""C01 — compiled execution agrees with the reference semantics (DESIGN §4 C01).

The whole property needs an independent semantics and execution: not decidable statically.  Decided clause:
opcode exhaustiveness — every opcode the compiler can put into an executable is executed by an interpreter arm (the
dispatch fallback is `_ => {}` which does not advance, so an unhandled opcode makes the program spin forever), and no
emittable opcode lands on an arm that is an unfinished-code macro.  Values, scoping, capture indices, arity shuffles
are not decided.
"""
import re

from . import lib, shared
from .lib import CheckError


MUTCAPTURE = {"FIRSTCOPYHEAPCAPTURECLOSURE", "COPYHEAPCAPTURECLOSURE", "ALLOC", "READALLOC", "SETALLOC"}


def first_call(fn, t, hops=4):
    cur = t
    for _ in range(hops):
        bl = fn.blocks[cur]
        if bl["k"] == "call":
            return bl
        if bl["k"] == "goto" and bl["s"]:
            cur = bl["s"][0]
            continue
        break
    return None


def is_unfinished(bl):
    return bl is not None and "panicking" in bl["callee"] and re.search(r"\b(todo|unimplemented)\b", bl.get("mac", ""))


def operand_opcodes(F, vm, sb):
    """opcodes consumed as operands by another arm's helper (closure headers etc.): explicitly matched in OpCode
    switches of interpreter functions reachable from dispatch arms (<= 2 levels)"""
    out = {}
    ac = lib.arm_calls(vm, sb)
    seen = set()
    frontier = {c for calls in ac.values() for c, _ in calls if c in F.fns and c.startswith("steel::steel_vm::vm::")}
    for _ in range(2):
        nxt = set()
        for c in frontier:
            if c in seen:
                continue
            seen.add(c)
            fn = F.fns[c]
            for s in lib.enum_switches(fn, "OpCode"):
                m = lib.arm_map(fn, s)
                for v, t in m.items():
                    if v != "_" and t != m["_"]:
                        out.setdefault(v, set()).add(c)
            nxt |= {d for d in F.callees(fn, expand_unresolved=False) if d in F.fns and d.startswith("steel::steel_vm::vm::")}
        frontier = nxt
    # inline scans inside vm() itself (closure creation loops)
    for s in lib.enum_switches(vm, "OpCode"):
        if s == sb:
            continue
        m = lib.arm_map(vm, s)
        for v, t in m.items():
            if v != "_" and t != m["_"]:
                out.setdefault(v, set()).add(vm.name)
    return out


def run(F, R, ctx):
    R.rule("C01.a", "EMIT ⊆ HANDLED: every opcode constructed by the code that builds executables (compiler::*, "
                    "hand-assembled builtins, the JIT trampoline; compile-time-dead branches pruned) has an explicit arm "
                    "in VmCore::vm's dispatch, or is consumed as an operand by another arm's helper (closure headers), or "
                    "is stripped before execution (OpCode::is_ephemeral_opcode)")
    R.rule("C01.t", "no emittable opcode's interpreter arm is an unfinished-code macro (todo!/unimplemented!)")
    R.rule("C01.f", "the dispatch loop's fallback arm does nothing only because every emittable opcode is handled: "
                    "reported for information (no instance)")
    vm, sb = shared.vm_dispatch(F)
    em = shared.emit_set(F)
    eph = shared.ephemeral_opcodes(F)
    m = lib.arm_map(vm, sb)
    operands = operand_opcodes(F, vm, sb)
    R.note("EMIT has %d opcodes; %d explicit dispatch arms; ephemeral=%s." % (len(em), len(vm.blocks[sb]["targets"]), sorted(eph)))
    R.assume("opcodes for variables that are both captured and assigned (%s) are never produced in practice: the boxing "
             "pass (ReplaceSetOperationsWithBoxes) rewrites such variables into boxes before code generation — assumed, "
             "not checked" % ", ".join(sorted(MUTCAPTURE)))
    for op in sorted(em):
        if op in MUTCAPTURE:
            R.inst("C01.a", "opcode %s (allowlisted: captured+assigned variables are boxed before codegen)" % op, True,
                   sample=True, nontrivial=False)
            continue
        explicit = op in m and m[op] != m["_"]
        how = "dispatch arm" if explicit else ("operand of " + ",".join(sorted(lib.short_name(x) for x in operands[op])) if op in operands
                                               else ("ephemeral" if op in eph else None))
        R.inst("C01.a", "opcode %s is executed" % op, how is not None,
               "the compiler can emit OpCode::%s (in %s) but VmCore::vm has no arm for it and no arm's helper consumes it: "
               "the dispatch fallback does not advance the instruction pointer, so any program reaching it never "
               "terminates" % (op, ", ".join(sorted(lib.short_name(x) for x in em[op])[:3])), vm.loc(vm.blocks[sb]["line"]),
               sample={"how": how})
        if explicit:
            bl = first_call(vm, m[op])
            R.inst("C01.t", "arm %s is implemented" % op, not is_unfinished(bl),
                   "the interpreter arm for the emittable opcode %s is %s!(): executing it aborts the host" % (
                       op, bl.get("mac") if bl else ""), vm.loc(), nontrivial=False)
    R.floor("C01.a", "emittable opcodes", len(em), 60)
