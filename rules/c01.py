"""C01 — compiled execution agrees with the reference semantics (DESIGN §4 C01).

The whole property needs an independent semantics and execution: not decidable statically.  Decided clause:
opcode exhaustiveness — every opcode the compiler can put into an executable is executed by an interpreter arm (the
dispatch fallback is `_ => {}` which does not advance, so an unhandled opcode makes the program spin forever), and no
emittable opcode lands on an arm that is an unfinished-code macro.  Values, scoping, capture indices, arity shuffles
are not decided.
"""
import re

from . import lib, shared
from .lib import CheckError


MUTCAPTURE = {"FIRSTCOPYHEAPCAPTURECLOSURE", "COPYHEAPCAPTURECLOSURE", "ALLOC", "READALLOC", "SETALLOC"}


def first_call(fn, t, hops=4):
    cur = t
    for _ in range(hops):
        bl = fn.blocks[cur]
        if bl["k"] == "call":
            return bl
        if bl["k"] == "goto" and bl["s"]:
            cur = bl["s"][0]
            continue
        break
    return None


def is_unfinished(bl):
    return bl is not None and "panicking" in bl["callee"] and re.search(r"\b(todo|unimplemented)\b", bl.get("mac", ""))


def operand_opcodes(F, vm, sb):
    """opcodes consumed as operands by another arm's helper (closure headers etc.): explicitly matched in OpCode
    switches of interpreter functions reachable from dispatch arms (<= 2 levels)"""
    out = {}
    ac = lib.arm_calls(vm, sb)
    seen = set()
    frontier = {c for calls in ac.values() for c, _ in calls if c in F.fns and c.startswith("steel::steel_vm::vm::")}
    for _ in range(2):
        nxt = set()
        for c in frontier:
            if c in seen:
                continue
            seen.add(c)
            fn = F.fns[c]
            for s in lib.enum_switches(fn, "OpCode"):
                m = lib.arm_map(fn, s)
                for v, t in m.items():
                    if v != "_" and t != m["_"]:
                        out.setdefault(v, set()).add(c)
            nxt |= {d for d in F.callees(fn, expand_unresolved=False) if d in F.fns and d.startswith("steel::steel_vm::vm::")}
        frontier = nxt
    # inline scans inside vm() itself (closure creation loops)
    for s in lib.enum_switches(vm, "OpCode"):
        if s == sb:
            continue
        m = lib.arm_map(vm, s)
        for v, t in m.items():
            if v != "_" and t != m["_"]:
                out.setdefault(v, set()).add(vm.name)
    return out


def run(F, R, ctx):
    _run(F, R, ctx)
    rest_collapse_rule(F, R)
    opcode_rewrite_rule(F, R)
    traversal_rule(F, R)
    fold_roundtrip_rule(F, R)
    elision_veto_rule(F, R)
    quasiquote_shape_rule(F, R)
    definition_order_rule(F, R)
    arity_elision_rule(F, R)
    inline_count_rule(F, R)
    constant_truth_rule(F, R)
    alias_substitution_rule(F, R)
    cond_arrow_rule(F, R)


# the walkers whose result decides how an assigned variable is compiled: they must see every sub-expression
ASSIGNMENT_WALKERS = [
    (r"\{impl VisitorMut for CollectSet(<'a>)?\}::(visit_\w+)$", "CollectSet",
     "collects the identifiers that are assigned anywhere; constant propagation substitutes every other definition"),
    (r"\{impl VisitorMutUnitRef(<'a>)? for AnalysisPass(<'a>)?\}::(visit_\w+)$", "AnalysisPass",
     "records set_bang / captured / last_usage for every identifier"),
    (r"\{impl VisitorMutRefUnit for ReplaceSetOperationsWithBoxes(<'a>)?\}::(visit_\w+)$", "ReplaceSetOperationsWithBoxes",
     "rewrites captured-and-assigned variables into boxes"),
]
WALK_NODES = {"visit_set": "Set", "visit_if": "If", "visit_define": "Define", "visit_lambda_function": "LambdaFunction",
              "visit_begin": "Begin", "visit_return": "Return", "visit_list": "List", "visit_let": "Let"}
# child fields that are not evaluated sub-expressions
NOT_EVALUATED = {("Define", "name"): "the defined name is a binder", ("LambdaFunction", "args"): "parameters are binders"}
# (walker, method, field) read on some path only, with the reason the other paths are complete
PARTIAL_OK = {("AnalysisPass", "visit_list", "args"): "returns early for the empty list, which has no children"}


def traversal_rule(F, R):
    R.rule("C01.c", "the walkers that decide how assigned variables are compiled (CollectSet for constant propagation, "
                    "AnalysisPass for set_bang/capture/last-use, ReplaceSetOperationsWithBoxes) reach every evaluated "
                    "sub-expression: each visit_<node> they define reads every child-expression field of the node (fields of "
                    "type ExprKind / Vec<ExprKind> / bindings, from the node's type; binders excluded) on every path to its "
                    "return — an assignment nested in a skipped child (the right-hand side of another set!, a branch, a "
                    "binding) would not be recorded, and the variable would be propagated as a constant / not boxed")
    n = 0
    for rx, walker, what in ASSIGNMENT_WALKERS:
        fns = F.find(rx)
        if not fns:
            raise CheckError("anchor lost: walker %s" % walker)
        seen = set()
        for fn in fns:
            meth = lib.split_path(fn.name)[-1]
            node = WALK_NODES.get(meth)
            if node is None:
                continue
            seen.add(meth)
            adt = F.adts.get("steel_parser::ast::" + node)
            if adt is None:
                raise CheckError("anchor lost: steel_parser::ast::%s" % node)
            kids = [f["name"] for f in adt["variants"][0]["fields"] if "ExprKind" in f["ty"] and (node, f["name"]) not in NOT_EVALUATED]
            rets = [i for i, b in enumerate(fn.blocks) if b["k"] == "return" and not b["c"]]
            for k in kids:
                reads = sorted(set(i for i, _, e in fn.events("fld") if e[1] == node and e[2] == k))
                key = "%s::%s reads %s.%s on every path" % (walker, meth, node, k)
                n += 1
                if (walker, meth, k) in PARTIAL_OK:
                    R.inst("C01.c", key + " (partial: %s)" % PARTIAL_OK[(walker, meth, k)], bool(reads),
                           "%s::%s never reads %s.%s: the children of the node are not walked (%s)" % (walker, meth, node, k, what),
                           fn.loc(), sample=True)
                    continue
                ok, w = fn.every_path_passes_from([0], rets, reads) if reads else (False, None)
                R.inst("C01.c", key, ok,
                       "%s::%s can return without reading %s.%s%s: that child is not walked on such a path, so what it "
                       "contains is invisible to the pass that %s" % (walker, meth, node, k,
                                                                     "" if reads else " (it never reads it)", what),
                       fn.loc(), sample=True)
        if "visit_set" not in seen and walker != "ReplaceSetOperationsWithBoxes":
            raise CheckError("anchor lost: %s::visit_set" % walker)
    R.floor("C01.c", "child fields of assignment walkers", n, 25)


def _run(F, R, ctx):
    R.rule("C01.a", "EMIT ⊆ HANDLED: every opcode constructed by the code that builds executables (compiler::*, "
                    "hand-assembled builtins, the JIT trampoline; compile-time-dead branches pruned) has an explicit arm "
                    "in VmCore::vm's dispatch, or is consumed as an operand by another arm's helper (closure headers), or "
                    "is stripped before execution (OpCode::is_ephemeral_opcode)")
    R.rule("C01.t", "no emittable opcode's interpreter arm is an unfinished-code macro (todo!/unimplemented!)")
    R.rule("C01.f", "the dispatch loop's fallback arm does nothing only because every emittable opcode is handled: "
                    "reported for information (no instance)")
    vm, sb = shared.vm_dispatch(F)
    em = shared.emit_set(F)
    eph = shared.ephemeral_opcodes(F)
    m = lib.arm_map(vm, sb)
    operands = operand_opcodes(F, vm, sb)
    R.note("EMIT has %d opcodes; %d explicit dispatch arms; ephemeral=%s." % (len(em), len(vm.blocks[sb]["targets"]), sorted(eph)))
    HEADER_ASSUMED = {"FIRSTCOPYHEAPCAPTURECLOSURE", "COPYHEAPCAPTURECLOSURE"}
    R.assume("the two closure-header opcodes for variables that are both captured and assigned (%s) are not produced in practice: "
             "the boxing pass (ReplaceSetOperationsWithBoxes) rewrites such variables into boxes before code generation — "
             "assumed; five program shapes (counter closure, internal define, accumulator in for-each, named let, nested "
             "lambdas) were probed and did not produce them. (ALLOC / READALLOC / SETALLOC, formerly listed here, ARE produced "
             "and have interpreter arms: they are checked like every other opcode.)" % ", ".join(sorted(HEADER_ASSUMED)))
    for op in sorted(em):
        if op in HEADER_ASSUMED:
            R.inst("C01.a", "opcode %s (allowlisted: captured+assigned variables are boxed before codegen)" % op, True,
                   sample=True, nontrivial=False)
            continue
        explicit = op in m and m[op] != m["_"]
        how = "dispatch arm" if explicit else ("operand of " + ",".join(sorted(lib.short_name(x) for x in operands[op])) if op in operands
                                               else ("ephemeral" if op in eph else None))
        R.inst("C01.a", "opcode %s is executed" % op, how is not None,
               "the compiler can emit OpCode::%s (in %s) but VmCore::vm has no arm for it and no arm's helper consumes it: "
               "the dispatch fallback does not advance the instruction pointer, so any program reaching it never "
               "terminates" % (op, ", ".join(sorted(lib.short_name(x) for x in em[op])[:3])), vm.loc(vm.blocks[sb]["line"]),
               sample={"how": how})
        if explicit:
            bl = first_call(vm, m[op])
            R.inst("C01.t", "arm %s is implemented" % op, not is_unfinished(bl),
                   "the interpreter arm for the emittable opcode %s is %s!(): executing it aborts the host" % (
                       op, bl.get("mac") if bl else ""), vm.loc(), nontrivial=False)
    R.floor("C01.a", "emittable opcodes", len(em), 60)
    digit_tables(F, R, vm, sb)
    primitive_tables(F, R, vm, sb)
    flag_rule(F, R)


def digit_tables(F, R, vm, sb):
    """C01.s — numbered specialisations agree with the number they stand for, on both sides."""
    R.rule("C01.s", "numbered specialisations: in any function of compiler::program a switch on an integer value k that constructs an opcode "
                    "whose name ends in a digit constructs the one ending in k (READLOCALk, MOVEREADLOCALk, LOADINTk), "
                    "BoolV(true/false) map to TRUE/FALSE; in the interpreter the arm of an opcode ending in k calls the "
                    "handler ending in k / pushes the integer k")
    n = 0
    # every function of the module (the tables may sit in helpers such as a `fn specialised_op(op, slot) -> Option<OpCode>`)
    for fn in F.find(r"^steel::compiler::program::"):
        dom = fn.dominators()
        for i, b in enumerate(fn.blocks):
            if b["k"] != "switch" or b["c"] or b["on"] not in ("u32", "usize", "isize", "u8", "bool"):
                continue
            for v, t in b["targets"]:
                if not v.isdigit():
                    continue
                region = [x for x in fn.reachable_from([t], avoid={i}) if t in dom.get(x, ())]
                for x in region:
                    for e in fn.blocks[x]["e"]:
                        if e[0] == "agg" and e[1] == "OpCode":
                            nm = e[2]
                            if b["on"] == "bool":
                                if nm in ("TRUE", "FALSE"):
                                    n += 1
                                    R.inst("C01.s", "%s / BoolV(%s) -> %s" % (fn.short(), v, nm), (nm == "TRUE") == (v == "1"),
                                           "%s maps the boolean constant %s to OpCode::%s" % (fn.short(), "true" if v == "1" else "false", nm),
                                           fn.loc(e[3]), sample=True)
                            elif nm[-1].isdigit():
                                n += 1
                                R.inst("C01.s", "%s / %s -> %s" % (fn.short(), v, nm), nm[-1] == v,
                                       "%s specialises the operand %s to OpCode::%s: the program would read local / load "
                                       "constant %s where it wrote %s" % (fn.short(), v, nm, nm[-1], v), fn.loc(e[3]), sample=True)
    # bool switch 'otherwise' side (true) is not in targets: handle TRUE via otherwise
    m = lib.arm_map(vm, sb)
    dom = vm.dominators()
    for op, t in sorted(m.items()):
        if op == "_" or not op[-1].isdigit() or t == m["_"]:
            continue
        k = op[-1]
        region = [x for x in lib.arm_reach(vm, sb, t) if t in dom.get(x, ())]
        for x in region:
            blk = vm.blocks[x]
            if blk["k"] == "call":
                sn = lib.split_path(blk["callee"])[-1]
                if blk["callee"].startswith("steel::steel_vm::") and sn[-1].isdigit() and re.search(r"(handler|local|read|move)", sn):
                    n += 1
                    R.inst("C01.s", "arm %s calls %s" % (op, sn), sn[-1] == k,
                           "the interpreter arm for %s calls %s (a handler for index %s)" % (op, sn, sn[-1]), vm.loc(blk["line"]), sample=True)
            for e in blk["e"]:
                if e[0] == "agg" and e[1] == "SteelVal" and e[2] == "IntV" and e[4] and e[4][0].startswith("const:") and op.startswith("LOADINT"):
                    n += 1
                    R.inst("C01.s", "arm %s pushes %s" % (op, e[4][0]), e[4][0] == "const:" + k,
                           "the interpreter arm for %s pushes the integer %s" % (op, e[4][0][6:]), vm.loc(e[3]), sample=True)
    R.floor("C01.s", "numbered specialisation instances", n, 12)


# opcode -> tokens that name the same operation in the compiler's PRIM_* statics and in the interpreter's handler names
OP_TOKENS = {
    "CONS": ["cons"], "NEWBOX": ["box"], "UNBOX": ["unbox"], "SETBOX": ["setbox", "set_box"], "CAR": ["car"], "CDR": ["cdr"],
    "LIST": ["list"], "LISTREF": ["list_ref", "listref"], "VECTORREF": ["vector_ref", "vec_ref"], "NOT": ["not"],
    "NULL": ["null", "empty"], "ADD": ["plus", "add"], "SUB": ["minus", "sub", "subtract"], "DIV": ["div", "divide"],
    "MUL": ["star", "mul", "multiply"], "NUMEQUAL": ["num_equal", "number_equality"], "EQUAL": ["equal", "equality"],
    "EQUAL2": ["equal", "equality"], "LTE": ["lte"], "GTE": ["gte"], "GT": ["gt"], "LT": ["lt"],
    "UNBOXCALL": ["unbox"], "UNBOXTAIL": ["unbox"],
}


def tok_match(name, toks):
    n = name.lower()
    return any(re.search(r"(^|_)%s(_|$)" % re.escape(t), n) for t in toks)


def primitive_tables(F, R, vm, sb):
    R.rule("C01.p", "inlined primitives: in the peephole passes the PRIM_* static tested in an arm names the same operation "
                    "as the opcode the arm constructs (PRIM_CAR -> CAR, PRIM_LTE -> LTE, …), and the interpreter arm of that "
                    "opcode calls the handler of the same operation (CAR -> car_handler, LTE -> lte_handler_payload, …)")
    n = 0
    for fname in ("convert_call_globals", "inline_num_operations", "unbox_function_call"):
        fn = F.one(r"^steel::compiler::program::%s$" % fname)
        dom = fn.dominators()
        stat = {i: [lib.split_path(e[1])[-1] for e in b["e"] if e[0] in ("staticref", "constref")] for i, b in enumerate(fn.blocks)}
        for i, b in enumerate(fn.blocks):
            if b["c"]:
                continue
            for e in b["e"]:
                if e[0] == "agg" and e[1] == "OpCode" and e[2] in OP_TOKENS:
                    near = None
                    for d in sorted(dom.get(i, ()), key=lambda x: -len(dom[x])):
                        if stat[d]:
                            near = stat[d]
                            break
                    if not near:
                        continue
                    nm = re.sub(r"^PRIM_|_SYMBOL$", "", near[-1])
                    n += 1
                    R.inst("C01.p", "%s / %s -> %s" % (fn.short(), near[-1], e[2]), tok_match(nm, OP_TOKENS[e[2]]),
                           "%s rewrites a call of %s into OpCode::%s, which the interpreter executes as a different "
                           "primitive" % (fn.short(), near[-1], e[2]), fn.loc(e[3]), sample=True)
    m = lib.arm_map(vm, sb)
    dom = vm.dominators()
    for op, toks in sorted(OP_TOKENS.items()):
        t = m.get(op)
        if t is None or t == m["_"]:
            continue
        region = [x for x in lib.arm_reach(vm, sb, t) if t in dom.get(x, ())]
        cs = sorted(set(lib.split_path(vm.blocks[x]["callee"])[-1] for x in region if vm.blocks[x]["k"] == "call"
                        and re.match(r"steel::(steel_vm|primitives)::", vm.blocks[x]["callee"])
                        and "{impl" not in lib.split_path(vm.blocks[x]["callee"])[-2]))
        cs = [c for c in cs if c not in ("cold", "unlikely", "likely")]
        if not cs:
            continue  # implemented inline
        n += 1
        R.inst("C01.p", "arm %s calls %s" % (op, ",".join(cs)), any(tok_match(c, toks) for c in cs),
               "the interpreter arm for %s calls %s, none of which is the %s operation" % (op, cs, "/".join(toks)), vm.loc(),
               sample=True)
    R.floor("C01.p", "primitive table instances", n, 30)


# optimisations that substitute or specialise on a definition must look at the analysis flag that says the definition is
# assigned somewhere; instances confirmed by reading today's tree (function, flag, what it gates)
FLAG_CONSUMERS = [
    (r"\{impl SemanticAnalysis<'a>\}::inline_handle_define$|\{impl SemanticAnalysis\}::inline_handle_define$", "set_bang",
     "call-site inlining of small global functions"),
    (r"SemanticAnalysis(<'a>)?\}::recursively_inline_function_calls$", "set_bang", "recursive inlining"),
    (r"SemanticAnalysis(<'a>)?\}::analyze_arity_checks$", "set_bang", "static arity errors / arity-check elision for known functions"),
    (r"SemanticAnalysis(<'a>)?\}::check_define_proto_hash_get$", "set_bang", "specialisation of struct accessors"),
    (r"\{impl VisitorMut for CodeGenerator\}::visit_atom$", "last_usage", "move (instead of copy) of a local at its last use"),
]
FLAG_WRITERS = [
    (r"\{impl VisitorMutUnitRef for AnalysisPass(<'a>)?\}::visit_set$", "set_bang", "every set! marks its target as assigned"),
    (r"\{impl VisitorMutUnitRef for AnalysisPass(<'a>)?\}::visit_(list|let|lambda_function)$", "last_usage", "last-use marking"),
]


def flag_rule(F, R):
    R.rule("C01.m", "assignment / last-use awareness: the analysis records every set! (AnalysisPass::visit_set writes "
                    "SemanticInformation.set_bang at any depth) and each optimisation that substitutes or specialises on a "
                    "definition (confirmed list) still reads the flag before doing so; code generation reads last_usage before "
                    "emitting a moving read")
    for rx, flag, what in FLAG_WRITERS:
        fns = F.find(rx)
        if not fns:
            raise CheckError("anchor lost: analysis writer /%s/" % rx)
        ok = any(e[1] == "SemanticInformation" and e[2] == flag and e[3][0] in "wm" for fn in fns for _, e in lib.family_events(F, fn, "fld"))
        R.inst("C01.m", "%s writes %s" % ("/".join(sorted(f.short() for f in fns))[:80], flag), ok,
               "the analysis pass no longer records %s (%s)" % (flag, what), fns[0].loc(), sample=True)
    for rx, flag, what in FLAG_CONSUMERS:
        fns = F.find(rx)
        if len(fns) != 1:
            raise CheckError("anchor lost: optimisation /%s/ (found %d)" % (rx, len(fns)))
        fn = fns[0]
        ok = any(e[1] == "SemanticInformation" and e[2] == flag for _, e in lib.deep_events(F, fn, "fld", depth=2))
        R.inst("C01.m", "%s consults %s" % (fn.short(), flag), ok,
               "%s (%s) no longer reads SemanticInformation.%s: it can substitute / specialise on a definition that the "
               "program assigns later (from inside a procedure, a let or a branch), so a variable stops evaluating to the "
               "value most recently assigned to it" % (fn.short(), what, flag), fn.loc(), sample=True)


def _back(fn):
    """backward value-flow maps of a function: mv[dest] -> sources, der[dest] -> (source, op, operand index)"""
    mv, der = {}, {}
    for b in fn.blocks:
        for e in b["e"]:
            if e[0] == "mv":
                mv.setdefault(e[1], set()).update(lib.TOK.findall(lib._norm(e[2])))
            elif e[0] == "der" and len(e) >= 5:
                der.setdefault(e[1], set()).update((x, e[3], e[4]) for x in lib.TOK.findall(lib._norm(e[2])))
    return mv, der


def _lookup(m, tok):
    out = set(m.get(tok, ()))
    base = tok.split(".")[0]
    if base != tok:
        out |= set(m.get(base, ()))
    else:
        for k, v in m.items():
            if k.startswith(tok + "."):
                out |= v
    return out


def _mv_roots(mv, tok):
    seen, st = set(), [tok]
    while st:
        x = st.pop()
        if x in seen:
            continue
        seen.add(x)
        st.extend(_lookup(mv, x))
    return seen


def _root_sigs(fn, mv, tok, depth=2):
    """roots of a value through moves; a root that is the result of a call is named by the callee and the roots of its
    arguments, so that two calls of the same accessor on the same receiver (closure.arity() twice) denote the same value"""
    dests = getattr(fn, "_calldest", None)
    if dests is None:
        dests = {}
        for i, b in fn.calls():
            d = re.match(r"_\d+", b.get("dest") or "")
            if d:
                dests[d.group(0)] = b
        fn._calldest = dests
    out = set()
    for r in _mv_roots(mv, tok):
        base = r.split(".")[0]
        if base in dests and depth > 0 and not _lookup(mv, r):
            b = dests[base]
            argsig = []
            for a in b["args"]:
                for x in lib.TOK.findall(lib._norm(a)):
                    argsig.extend(sorted(_root_sigs(fn, mv, x, depth - 1)))
            out.add("call:%s(%s)" % (lib.short_name(b["callee"]), ",".join(sorted(set(argsig)))))
        elif not _lookup(mv, r):
            out.add(r)
    return out


def rest_collapse_rule(F, R):
    R.rule("C01.v", "rest-argument collapse keeps the argument count consistent (all call paths for variadic closures, sibling "
                    "agreement): wherever the surplus `1 + n − A` operands are drained off the stack and pushed back as one "
                    "SteelVal::ListV, the code after the push assigns the callee's arity A (the subtrahend of the surplus "
                    "computation) to a count that outlives the collapse — otherwise the new frame's base is computed from "
                    "the call-site count n although the stack now holds A values")
    sites = 0
    for n, fn in sorted(F.fns.items()):
        if not n.startswith("steel::steel_vm::"):
            continue
        aggs = [i for i, _, e in fn.events("agg") if e[1] == "SteelVal" and e[2] == "ListV"]
        drains = [i for i in fn.call_blocks(r"Vec<T,A>\}::drain$")]
        if not aggs or not drains:
            continue
        mv, der = _back(fn)
        avoid = set()
        if n.endswith("{impl VmCore}::vm"):
            vm, sb = shared.vm_dispatch(F)
            avoid = set(vm.dominators()[sb])
        for a in aggs:
            # the drain feeding this aggregate: the nearest drain from which the aggregate is reachable
            feeding = [d for d in drains if a in fn.reachable_from([d], avoid=avoid)]
            if not feeding:
                continue
            d = max(feeding)
            blk = fn.blocks[d]
            if len(blk["args"]) < 2:
                continue
            # backward slice of the range start
            subs = set()
            seen, st = set(), list(lib.TOK.findall(blk["args"][1]))
            while st:
                x = st.pop()
                if x in seen:
                    continue
                seen.add(x)
                st.extend(_lookup(mv, x))
                for (src, op, idx) in _lookup(der, x):
                    if op.startswith("Sub") and idx == 1:
                        subs.add(src)
                    st.append(src)
            # A = a subtrahend that is not itself computed by arithmetic
            leaves = []
            for s_ in subs:
                roots = _mv_roots(mv, s_)
                if not any(_lookup(der, r) for r in roots):
                    leaves.append(_root_sigs(fn, mv, s_))
            if not leaves:
                continue  # not the `1 + n - A` shape: some other use of drain + ListV
            sites += 1
            push = [i for i in fn.call_blocks(r"Vec<T,A>\}::push$") if i in fn.reachable_from([a], avoid=avoid) or i == a]
            region = fn.reachable_from([s_ for p_ in push for s_ in fn.succ(p_)] or fn.succ(a), avoid=avoid)
            found = False
            for b in region:
                for e in fn.blocks[b]["e"]:
                    if e[0] in ("mv", "st"):
                        srcs = lib.TOK.findall(lib._norm(e[2]))
                        for x in srcs:
                            rx = _root_sigs(fn, mv, x)
                            if any(rx & lv for lv in leaves):
                                found = True
            R.inst("C01.v", "%s / count reset to the callee's arity after the rest-argument collapse" % fn.short(), found,
                   "%s collapses the surplus arguments of a variadic call into one list but nothing after the push "
                   "re-assigns the argument count from the callee's arity: the frame base is then computed from the "
                   "call-site count, so when the rest list is empty or has two or more elements the parameters read the "
                   "wrong stack slots (stale values of the previous activation)" % fn.short(),
                   fn.loc(fn.blocks[a].get("line")), sample=True)
    R.floor("C01.v", "rest-argument collapse sites", sites, 4 if "jit2" in (F.meta.get("features") or []) else 2)


def opcode_rewrite_rule(F, R):
    from . import c07
    R.rule("C01.w", "call sites are rewritten to a specialised opcode under the same arity condition everywhere (sibling "
                    "agreement inside compiler::program::convert_call_globals): for every opcode that some rewrite site stores "
                    "into Instruction.op_code only after testing the call's argument count (every path to the store passes the "
                    "true edge of `arity == n`), every other rewrite site of that opcode does too — a site without the test "
                    "turns a call with the wrong number of arguments (in tail position, say) into a fixed-arity opcode, which "
                    "then consumes the wrong stack slots instead of raising an arity error")
    fn = F.one(r"^steel::compiler::program::convert_call_globals$")
    maps = c07._backward(fn)
    # arity tests: bool switches whose condition is `x == const` with x computed from a to_usize() of the payload
    tests = []
    eqs = {}
    for blk in fn.blocks:
        for e in blk["e"]:
            if e[0] == "der" and len(e) >= 5 and e[3] == "Eq":
                eqs.setdefault(e[1], set()).update(lib.TOK.findall(lib._norm(e[2])))
    for i, blk in enumerate(fn.blocks):
        if blk["k"] != "switch" or blk["on"] != "bool" or blk.get("c"):
            continue
        loc = re.match(r"_\d+", blk.get("place", "").strip("()*"))
        if not loc:
            continue
        conds = [loc.group(0)] + [x for x in c07._origins(fn, loc.group(0), maps, depth=4) if x in eqs]
        hit = False
        for c_ in conds:
            for t in eqs.get(c_, ()):
                org = c07._origins(fn, t, maps)
                if any(o.split(".")[0] in maps[2] and re.search(r"::to_usize$", maps[2][o.split(".")[0]]["callee"]) for o in org):
                    hit = True
        if hit:
            true_t = blk["otherwise"]
            tests.append(true_t)
    if len(tests) < 6:
        raise CheckError("anchor lost: arity tests in convert_call_globals (%d)" % len(tests))
    sites = {}
    for i, _, e in fn.events("fld"):
        if e[1] == "Instruction" and e[2] == "op_code" and e[3][0] in "wm":
            ops = [x[2].split("::")[-1] for x in fn.blocks[i]["e"] if x[0] == "kv" and x[2].startswith("variant:OpCode::")]
            for op in ops:
                sites.setdefault(op, []).append(i)
    R.floor("C01.w", "opcode rewrite sites", sum(len(v) for v in sites.values()), 15)
    for op, blocks in sorted(sites.items()):
        guarded = {}
        for b in blocks:
            ok, _ = fn.every_path_passes_from([0], [b], tests)
            guarded[b] = ok
        if not any(guarded.values()):
            R.inst("C01.w", "opcode %s: no site is arity-conditional (nothing to agree on)" % op, True, nontrivial=False)
            continue
        for k, b in enumerate(sorted(blocks)):
            R.inst("C01.w", "opcode %s: rewrite site #%d tests the argument count like its siblings" % (op, k), guarded[b],
                   "convert_call_globals rewrites a call into OpCode::%s at line %s without the `arity == n` test that "
                   "another rewrite site of the same opcode has: a call with the wrong number of arguments at this kind of "
                   "site is compiled to the fixed-arity opcode — e.g. (define (f) (cons 1 2 3)) returns (2 . 3), and "
                   "(define (f) (cons 1)) panics the host in the CONS handler — instead of an arity error" % (
                       op, fn.blocks[b].get("line") or [x[3] for x in fn.blocks[b]["e"] if x[0] == "agg"][:1]),
                   fn.loc(), sample=True)


def fold_roundtrip_rule(F, R):
    R.rule("C01.q", "compile-time folding hands back what evaluation would give (the value/expression converters the constant "
                    "folder uses are inverse on kinds): (1) in TryFrom<&SteelVal> for ExprKind — the conversion of a folded "
                    "result back into an expression — the arm of each container kind builds the expression of the same kind "
                    "(VectorV → ExprKind::Vector, ListV → ExprKind::List); (2) wherever the inside of a quote form "
                    "(Quote.expr) is turned into a value, the converter is entered in quoted mode "
                    "(try_from_expr_kind_quoted): in unquoted mode it strips the next quote it meets, so (car '('x 1)) "
                    "folds to x")
    inner = [f for n, f in F.fns.items() if re.search(r"\{impl TryFrom<&SteelVal> for ExprKind\}::try_from::inner_try_from$", n)]
    if not inner:
        inner = [f for n, f in F.fns.items() if re.search(r"\{impl TryFrom<&SteelVal> for ExprKind\}::try_from$", n)]
    if not inner:
        raise CheckError("anchor lost: TryFrom<&SteelVal> for ExprKind")
    fn = inner[0]
    sws = lib.enum_switches(fn, "SteelVal")
    if not sws:
        raise CheckError("anchor lost: TryFrom<&SteelVal> for ExprKind does not match on SteelVal")
    sw = max(sws, key=lambda x: len(fn.blocks[x]["targets"]))
    am = lib.arm_map(fn, sw)
    n = 0
    for kind, want in (("VectorV", "Vector"), ("ListV", "List")):
        if kind not in am or am[kind] == am.get("_"):
            continue
        n += 1
        others = {t for v, t in am.items() if t != am[kind]}
        reg = fn.reachable_from([am[kind]], avoid=others)
        built = sorted(set(e[2] for b in reg for e in fn.blocks[b]["e"] if e[0] == "agg" and e[1] == "ExprKind"))
        R.inst("C01.q", "value -> expression / %s becomes ExprKind::%s" % (kind, want), built == [want],
               "TryFrom<&SteelVal> for ExprKind turns a %s into ExprKind::%s: a container folded at compile time comes back as "
               "a different kind of datum ((car '(#(q) 1)) folds to the list (q); vector? / vector-ref then fail on it)"
               % (kind, "/".join(built) or "nothing"), fn.loc(fn.blocks[am[kind]].get("line")), sample=True)
    R.floor("C01.q", "container kinds converted back to expressions", n, 2)
    m = 0
    for name, f in sorted(F.fns.items()):
        if not name.startswith("steel::"):
            continue
        for i, cb in f.calls():
            if not re.search(r"TryFromExprKindForSteelVal\}::try_from_expr_kind(_quoted)?$", cb["callee"]):
                continue
            srcs = set()
            work = [t_ for a in cb["args"] for t_ in lib.TOK.findall(a)]
            seen_t = set()
            while work:
                t_ = work.pop()
                if t_ in seen_t:
                    continue
                seen_t.add(t_)
                al = set(lib.alias_sources(f, t_, depth=8)) | {t_}
                srcs |= al
                bases = {x.split(".")[0] for s_ in al for x in lib.TOK.findall(s_)}
                for _, c2 in f.calls():
                    d2 = re.match(r"_\d+", c2.get("dest") or "")
                    if d2 and d2.group(0) in bases and re.search(r"::(clone|deref|as_ref|borrow|unbox|into)$", c2["callee"]):
                        work.extend(x for a2 in c2["args"] for x in lib.TOK.findall(a2))
            from_quote = False
            for b in f.blocks:
                if b["c"]:
                    continue
                if any(e[0] == "fld" and e[1] == "Quote" and e[2] == "expr" for e in b["e"]):
                    for e in b["e"]:
                        if e[0] == "mv" and re.search(r"\.expr\b", e[2]) and (e[1].split(".")[0] in {x.split(".")[0] for s_ in srcs for x in lib.TOK.findall(s_)}):
                            from_quote = True
            if not from_quote:
                continue
            m += 1
            quoted = cb["callee"].endswith("_quoted")
            R.inst("C01.q", "%s / the inside of a quote form is converted in quoted mode" % f.short(), quoted,
                   "%s converts Quote.expr — data that is already inside a quote — with try_from_expr_kind (unquoted mode, line "
                   "%s), which treats the first quote it meets as the enclosing one and strips it: '(a 'b) becomes (a b) "
                   "wherever the constant folder looks at it" % (f.short(), cb["line"]), f.loc(cb["line"]), sample=True)
    R.floor("C01.q", "conversions of the inside of a quote form", m, 1)


# the constant folder's two scope-elision sites (confirmed by reading): each splices the body of a scope whose bindings are
# all constants and unused into the enclosing scope
ELISION_SITES = {
    "visit_let": "a let whose bindings folded away is replaced by its body",
    "visit_list": "an immediately applied lambda whose arguments folded away is replaced by its body",
}


def elision_veto_rule(F, R):
    R.rule("C01.e", "a define inside a scope vetoes eliding that scope, whatever else holds: each of the constant folder's "
                    "scope-elision sites (ConstantEvaluator::visit_let, ::visit_list) branches on the flag "
                    "ConstantEvaluator.scope_contains_define itself — a direct test of the loaded field, or a call of a "
                    "helper that reads nothing of the evaluator but that flag. A test that lets other state (nesting depth, "
                    "…) override the flag splices a body containing a define into the enclosing scope, where it rebinds a "
                    "parameter or outer local of the same name")
    n = 0
    for meth, what in sorted(ELISION_SITES.items()):
        fn = F.one(r"\{impl ConsumingVisitor for ConstantEvaluator(<'a>)?\}::%s$" % meth)
        direct = False
        for i, b in enumerate(fn.blocks):
            if b["c"] or b["k"] != "switch" or b["on"] != "bool":
                continue
            pl = (b.get("place") or "").strip("()*")
            if any(e[0] == "mv" and e[1] == pl and re.search(r"\.scope_contains_define$", e[2]) for e in b["e"]):
                direct = True
        via = None
        if not direct:
            for i, cb in fn.calls():
                h = F.fns.get(cb["callee"])
                if h is None or not re.search(r"\{impl ConstantEvaluator(<'a>)?\}::", cb["callee"]) or h.d.get("out") != "bool":
                    continue
                flds = set(e[2] for _, e in lib.deep_events(F, h, "fld", depth=1) if e[1] == "ConstantEvaluator")
                if "scope_contains_define" in flds:
                    via = (lib.short_name(cb["callee"]), sorted(flds - {"scope_contains_define"}))
        n += 1
        ok = direct or (via is not None and not via[1])
        R.inst("C01.e", "ConstantEvaluator::%s / elision is vetoed by scope_contains_define alone" % meth, ok,
               "ConstantEvaluator::%s (%s) %s: a scope that contains a define can then be elided, and the define rebinds a "
               "variable of the enclosing function — (define (f total items) (let ((p 2)) (define total (length items)) …) total) "
               "returns the inner value" % (meth, what,
                                            "no longer tests the flag scope_contains_define" if via is None else
                                            "tests the flag through %s, which also consults %s" % (via[0], ", ".join(via[1]))),
               fn.loc(), sample=True)
    R.floor("C01.e", "scope-elision sites", n, 2)


STDLIB_SCM = "crates/steel-core/src/scheme/stdlib.scm"


def definition_order_rule(F, R):
    R.rule("C01.o", "internal definitions run in textual order (letrec* semantics): the classifier that splits the definitions "
                    "of a body into eagerly evaluated and delayed ones (ExpressionType::generate_expression_types) "
                    "(1) records in the set that later classifications consult (DefinedVars::insert) the name of every definition "
                    "it classifies as a function, eager or delayed one — those names hold a placeholder until the generated "
                    "inner body assigns them, so a later definition that mentions one must be delayed (a literal is bound by "
                    "the outer application itself and need not be recorded), and (2) classifies a definition as eager "
                    "(DefineFlat: evaluated before every expression and delayed definition of the body) only while nothing "
                    "with a textual position has been seen: the construction of DefineFlat lies on the false side of a flag "
                    "that every arm producing Expression / DefineFlatStar sets")
    fn = F.one(r"passes::begin::\{impl ExpressionType\}::generate_expression_types$")
    heads = [i for i, b in fn.calls() if re.search(r"slice::iter::\{impl Iterator for Iter<T>\}::next$", b["callee"])]
    sws = [sb for sb in lib.enum_switches(fn, "ExprKind") if "Define" in lib.arm_map(fn, sb)]
    if len(heads) != 1 or not sws:
        raise CheckError("anchor lost: the loop over the body / the Define arm in generate_expression_types")
    head = heads[0]
    dom = fn.dominators()
    sw = min(sws, key=lambda b: len(dom.get(b, ())))
    arm = lib.arm_map(fn, sw)["Define"]
    ins = set(fn.call_blocks(r"\{impl DefinedVars\}::insert$"))
    aggs = {}
    for i, _, e in fn.events("agg"):
        if e[1] == "ExpressionType":
            aggs.setdefault(e[2], []).append((i, e[3]))
    if "DefineFlat" not in aggs or "Expression" not in aggs or "DefineFunction" not in aggs:
        raise CheckError("anchor lost: ExpressionType::DefineFlat / DefineFunction / Expression are no longer built in generate_expression_types")
    # names bound by the generated application's parameters only after the inner body's set! (functions, eager and delayed
    # definitions) must be recorded; a literal is bound by the outer application itself and may be left out
    late = [i for v in ("DefineFunction", "DefineFlat", "DefineFlatStar") for i, _ in aggs.get(v, [])]
    r = fn.reachable_from([arm], avoid=ins | {head})
    unrec = sorted(i for i in late if i in r)
    R.inst("C01.o", "generate_expression_types / every name that is assigned in the inner body is recorded", bool(ins) and not unrec,
           "generate_expression_types can classify a definition as a function / eager / delayed one (line %s) without "
           "DefinedVars::insert: a later definition that reads that name is classified as eager and evaluated while the name "
           "still holds its placeholder" % (fn.blocks[unrec[0]].get("line") if unrec else "?"),
           fn.loc(), sample=True)
    ordered_blocks = [i for v in ("Expression", "DefineFlatStar") for i, _ in aggs.get(v, [])]
    def set_true(i):
        # flags set in the straight-line run of blocks that ends in block i
        out = set()
        seen = set()
        cur = i
        while cur is not None and cur not in seen:
            seen.add(cur)
            out |= set(e[1] for e in fn.blocks[cur]["e"] if e[0] == "kv" and e[2] == "const:1")
            ps = fn.preds()[cur]
            cur = ps[0] if len(ps) == 1 and fn.blocks[ps[0]]["k"] in ("goto", "call", "assert", "drop") and len(fn.succ(ps[0])) == 1 else None
        return out
    for i, line in aggs["DefineFlat"]:
        guard = None
        for sb in dom.get(i, ()):
            blk = fn.blocks[sb]
            if blk["k"] != "switch" or blk["on"] != "bool":
                continue
            loc = re.match(r"_\d+", blk.get("place", "").strip("()*"))
            if not loc:
                continue
            srcs = lib.alias_sources(fn, loc.group(0), depth=4) | {loc.group(0)}
            t_true, t_false = blk["otherwise"], dict((v, t) for v, t in blk["targets"]).get("0")
            if i in fn.reachable_from([t_true], avoid={head, sb}) and t_true != t_false:
                continue   # reachable from the flag's true side
            cands = set(x for x in srcs if re.fullmatch(r"_\d+", x))

            def under_true(ob):
                # ob lies on the true side of a test of the same flag (the flag is already set there)
                for sb2 in dom.get(ob, ()):
                    b2 = fn.blocks[sb2]
                    if b2["k"] != "switch" or b2["on"] != "bool":
                        continue
                    l2 = re.match(r"_\d+", b2.get("place", "").strip("()*"))
                    if not l2 or not ((lib.alias_sources(fn, l2.group(0), depth=4) | {l2.group(0)}) & cands):
                        continue
                    f2 = dict((v, t) for v, t in b2["targets"]).get("0")
                    if f2 is not None and ob not in fn.reachable_from([f2], avoid={head, sb2}) and f2 != ob:
                        return True
                return False
            if cands and all((cands & set_true(ob)) or under_true(ob) for ob in ordered_blocks):
                guard = sb
        R.inst("C01.o", "generate_expression_types / eager classification only before anything ordered", guard is not None,
               "generate_expression_types classifies a definition as DefineFlat (line %s) without testing a flag that the "
               "Expression and DefineFlatStar arms set: its right-hand side is evaluated with the arguments of the generated "
               "application, i.e. before expressions and delayed definitions that precede it in the body — "
               "`(define (f) (define (g) 1) (display 1) (define x (begin (display 2) 1)) x)` prints 21" % line,
               fn.loc(line), sample=True)


def arity_elision_rule(F, R):
    R.rule("C01.n", "the run-time arity check of a call is dropped only where the compiler compared the counts: every "
                    "construction of a CallKind::NoArity* (the call kinds that compile to the *NOARITY opcodes, whose handlers "
                    "and native helpers trust the argument count) is dominated by a branch whose condition is computed from "
                    "the call site's argument list (List.args) and a looked-up arity (a map lookup compared for equality). "
                    "Otherwise a call with the wrong number of arguments to a function whose check was elided runs with a "
                    "misaligned frame and answers silently — `(define (f a b) (if (> a 3) (list a b) (f (+ a 1) b 99)))` "
                    "in a module answered (7 99)")
    n = 0
    for name, fn in sorted(F.fns.items()):
        if not name.startswith("steel::compiler::"):
            continue
        aggs = [(i, e) for i, _, e in fn.events("agg") if e[1] == "CallKind" and e[2].startswith("NoArity")]
        if not aggs or re.search(r"\{impl (Clone|Debug|PartialEq|Hash|Serialize|Deserialize)", name):
            continue
        dom = fn.dominators()
        for i, e in aggs:
            n += 1
            ok = False
            for sb in dom.get(i, ()):
                blk = fn.blocks[sb]
                if blk["k"] != "switch" or blk["on"] != "bool":
                    continue
                f0 = dict((v, t) for v, t in blk["targets"]).get("0")
                if f0 is not None and i in fn.reachable_from([f0], avoid={sb}) and i not in fn.reachable_from([blk["otherwise"]], avoid={sb}):
                    continue   # only the false side leads here: accept too (negated test)
                before = [b for b in dom.get(sb, ())]
                reads_args = lookup = compares = False
                for b in before:
                    for e2 in fn.blocks[b]["e"]:
                        if e2[0] == "fld" and e2[1] == "List" and e2[2] == "args":
                            reads_args = True
                        if e2[0] == "closure" and e2[1] in F.fns:
                            for _, ce in lib.family_events(F, F.fns[e2[1]]):
                                if ce[0] == "fld" and ce[1] == "List" and ce[2] == "args":
                                    reads_args = True
                                if ce[0] == "binop" and ce[1] in ("Eq", "Ne") and ce[2] == "usize":
                                    compares = True
                            for _, cb in lib.family_calls(F, F.fns[e2[1]]):
                                if re.search(r"HashMap<K,V,S[^}]*\}::get$", cb["callee"]):
                                    lookup = True
                        if e2[0] == "binop" and e2[1] in ("Eq", "Ne") and e2[2] == "usize":
                            compares = True
                    cb = fn.blocks[b]
                    if cb["k"] == "call" and re.search(r"HashMap<K,V,S[^}]*\}::get$", cb["callee"]):
                        lookup = True
                if reads_args and lookup and compares:
                    ok = True
            R.inst("C01.n", "%s / CallKind::%s only after the counts were compared" % (fn.short(), e[2]), ok,
                   "%s marks a call site %s (line %s) — its arity check is compiled away — without a dominating comparison of "
                   "the call's argument count with the callee's arity: a wrong-arity call to such a function is not reported "
                   "and runs with a misaligned frame" % (fn.short(), e[2], e[3]), fn.loc(e[3]), sample=True)
    R.floor("C01.n", "constructions of CallKind::NoArity*", n, 3)


def quasiquote_shape_rule(F, R):
    from . import sexp
    from . import facts as factsmod
    R.rule("C01.z", "quasiquote looks inside every shape of template (syntax-tree rule over the library source, stdlib.scm): the "
                    "quasiquote macro ends with a catch-all that quotes its argument as it is, so every compound shape must be "
                    "taken apart by an earlier rule — a proper list `(x xs ...)`, a vector `#(x xs ...)` and a dotted list "
                    "`(x . xs)` — and the dotted family has the same unquote / unquote-splicing head cases as the proper-list "
                    "family (sibling agreement). A missing shape is quoted wholesale: `((,k . ,v)) keeps its unquotes")
    forms = sexp.load(factsmod.REPO, STDLIB_SCM)
    qq = [f for f in forms if sexp.is_form(f, "define-syntax") and len(f) > 2 and str(f[1]) == "quasiquote"]
    if not qq or not sexp.is_form(qq[0][2], "syntax-rules"):
        raise CheckError("anchor lost: (define-syntax quasiquote (syntax-rules …)) in %s" % STDLIB_SCM)
    rules_ = [r for r in qq[0][2][2:] if isinstance(r, list) and len(r) == 2 and isinstance(r[0], list) and len(r[0]) == 2]
    pats = [r[0][1] for r in rules_]
    where = "%s:%s" % (STDLIB_SCM, getattr(qq[0], "line", 0))

    def shape(p):
        if not isinstance(p, list):
            return ("atom", None)
        vec = bool(p) and str(p[0]) == "#vector"
        body = p[1:] if vec else p
        head = str(body[0][0]) if body and isinstance(body[0], list) and body[0] and not isinstance(body[0][0], list) else None
        if len(body) >= 3 and str(body[-1]) == "...":
            return ("vector" if vec else "proper", head)
        if len(body) >= 3 and str(body[-2]) == ".":
            return ("dotted", head)
        return ("other", head)
    shapes = [shape(p) for p in pats]
    catch = [i for i, sh in enumerate(shapes) if sh[0] == "atom"]
    if not catch:
        raise CheckError("anchor lost: quasiquote has no catch-all rule")
    before = shapes[:catch[0]]
    for kind in ("proper", "vector", "dotted"):
        R.inst("C01.z", "quasiquote / a general rule takes %s templates apart" % kind, (kind, None) in before,
               "the quasiquote macro has no rule `%s` before its catch-all: a template of that shape is quoted as it stands and the "
               "unquotes inside it are never evaluated" % {"proper": "(x xs ...)", "vector": "#(x xs ...)", "dotted": "(x . xs)"}[kind],
               where, sample=True)
    heads = sorted({h for k, h in before if k == "proper" and h and h.startswith("#%unquote")})
    for h in heads:
        R.inst("C01.z", "quasiquote / dotted templates handle a %s head like proper ones" % h, ("dotted", h) in before,
               "the quasiquote macro evaluates (%s x) at the head of a proper list but has no such rule for a dotted list: "
               "`((%s e) . rest)` would be rebuilt with the form unevaluated" % (h, h), where, sample=True)
    R.floor("C01.z", "unquote head cases of the proper-list family", len(heads), 2)


def inline_count_rule(F, R):
    R.rule("C01.f", "a call is replaced by the body of a definition only if it comes after that definition: at every place where "
                    "the compiler overwrites a call's operator with a lambda expression taken from a definition (the C01.i sites), "
                    "one side of a dominating branch on an ordering comparison that reads the call's List.syntax_object_id leads "
                    "to the overwrite (ids grow in source order)")
    R.rule("C01.i", "a call is replaced by the body of the function it calls only if it passes the number of arguments the "
                    "function takes: every place in the compiler that overwrites a call's operator (List.args[0]) with a lambda "
                    "expression taken from a definition (an ExprKind::LambdaFunction aggregate stored into the argument vector "
                    "of a `&mut List`) is dominated by a branch whose condition is computed from the call's argument list "
                    "(List.args) and the function's parameter list (LambdaFunction.args) — directly or in a helper both are "
                    "handed to. nc: after the replacement the later passes bind parameters to operands positionally, so "
                    "`(define (f a b) …) (define (caller x) (f x 2 3))` answered instead of raising an arity mismatch")
    n = 0
    for name, fn in sorted(F.fns.items()):
        if not name.startswith("steel::compiler::"):
            continue
        sites = []
        for i, b in enumerate(fn.blocks):
            if b["c"]:
                continue
            if any(e[0] == "agg" and e[1] == "ExprKind" and e[2] == "LambdaFunction" for e in b["e"]) and \
                    any(e[0] == "fld" and e[1] == "List" and e[2] == "args" and "m" in e[3] for e in b["e"]):
                sites.append(i)
        if not sites:
            continue
        dom = fn.dominators()
        for i in sites:
            n += 1
            ok = False
            for sb in dom[i]:
                blk = fn.blocks[sb]
                if blk["k"] != "switch" or blk["on"] != "bool" or sb == i:
                    continue
                sides = [t for t in set(blk["s"]) if t == i or i in fn.reachable_from([t], avoid={sb})]
                if len(sides) != 1:
                    continue
                reads_call = reads_fn = False
                for b2 in dom[sb]:
                    cb = fn.blocks[b2]
                    evs = list(cb["e"])
                    if cb["k"] == "call" and cb["callee"] in F.fns and cb["callee"].startswith("steel::"):
                        # a helper that is handed both: look inside (one level)
                        sig = F.fns[cb["callee"]].d["in"]
                        if any("List" in t for t in sig) and any("LambdaFunction" in t for t in sig):
                            evs += [e for _, e in lib.family_events(F, F.fns[cb["callee"]])]
                    for e in evs:
                        if e[0] == "fld" and e[1] == "List" and e[2] == "args" and "m" not in e[3]:
                            reads_call = True
                        if e[0] == "fld" and e[1] == "LambdaFunction" and e[2] == "args":
                            reads_fn = True
                if reads_call and reads_fn:
                    ok = True
            ordered = False
            for sb in dom[i]:
                blk = fn.blocks[sb]
                if sb == i:
                    continue
                if any(e[0] == "fld" and e[1] == "List" and e[2] == "syntax_object_id" for e in blk["e"]) and \
                        any(e[0] == "binop" and e[1] in ("Gt", "Lt", "Ge", "Le") for e in blk["e"]):
                    nxt = sb
                    for _ in range(3):
                        if fn.blocks[nxt]["k"] == "switch":
                            break
                        nxt = fn.succ(nxt)[0] if len(fn.succ(nxt)) == 1 else nxt
                    sw_ = fn.blocks[nxt]
                    if sw_["k"] == "switch":
                        sides = [t for t in set(sw_["s"]) if t == i or i in fn.reachable_from([t], avoid={nxt})]
                        ordered = ordered or len(sides) == 1
            if name not in _reach(F) and (fn.d.get("parent") or "") not in _reach(F):
                R.inst("C01.f", "%s (not reachable from the engine: test-only entry point)" % fn.short(), True, nontrivial=False)
            else:
              R.inst("C01.f", "%s / operator replaced by a lambda only in calls that come after the definition" % fn.short(), ordered,
                     "%s overwrites the operator of a call with the lambda of the function it names (line %s) without having compared "
                     "the position of the call (List.syntax_object_id) with the position of the definition: a call that is evaluated "
                     "before the definition is replaced by its body — `(f 1) (define (f x) …)` runs where every other configuration "
                     "reports a reference before definition, and in a REPL history the piece rebinds the global" % (
                         fn.short(), fn.blocks[i].get("line") or fn.d.get("line")), fn.loc(fn.blocks[i].get("line")), sample=True)
            R.inst("C01.i", "%s / operator replaced by a lambda only after the counts were compared" % fn.short(), ok,
                   "%s overwrites the operator of a call with the lambda of the function it names (line %s) and no dominating "
                   "branch compares the call's argument count with the lambda's parameter count: a call with the wrong number "
                   "of arguments is inlined, and is then not reported" % (fn.short(), fn.blocks[i].get("line") or fn.d.get("line")),
                   fn.loc(fn.blocks[i].get("line")), sample=True)
    R.floor("C01.i", "call-site inlining closures", n, 3)


def constant_truth_rule(F, R):
    R.rule("C01.k", "the constant folder prunes an `if` only on what it can decide: ConstantEvaluator::visit_if asks is_constant(test) "
                    "and then is_truthy_constant(test); for every kind of expression (variant of ExprKind), if the truthiness "
                    "predicate has to look further (its arm consults a predicate of the evaluator on the sub-expression) the "
                    "constness predicate looks as far (its arm consults a predicate too) — it never answers `constant` on the "
                    "kind alone (sibling agreement, derived from the two match statements). nc: an expression that counts as "
                    "constant but whose truth the other predicate cannot establish is pruned to the else branch — every quoted "
                    "list is true in Scheme, `(if '(1 2) a b)` must take a")
    ic = F.one(r"const_evaluation::\{impl ConstantEvaluator\}::is_constant$")
    it = F.one(r"const_evaluation::\{impl ConstantEvaluator\}::is_truthy_constant$")
    vi = [f for f in F.find(r"\{impl ConsumingVisitor for ConstantEvaluator[^}]*\}::visit_if$")]
    if not vi or not vi[0].call_blocks(r"\{impl ConstantEvaluator\}::is_constant$") or \
            not vi[0].call_blocks(r"\{impl ConstantEvaluator\}::is_truthy_constant$"):
        raise CheckError("anchor lost: ConstantEvaluator::visit_if no longer asks is_constant and is_truthy_constant")
    PRED = r"\{impl ConstantEvaluator\}::(is_constant|is_truthy_constant)$"

    def arms(fn):
        sws = lib.enum_switches(fn, "ExprKind")
        if not sws:
            raise CheckError("anchor lost: %s does not match on ExprKind" % fn.short())
        sb = min(sws)
        ac = lib.arm_calls(fn, sb)
        return {v: any(re.search(PRED, c) for c, _ in cs) for v, cs in ac.items()}
    ac, at = arms(ic), arms(it)
    n = 0
    for v in sorted(set(ac) | set(at)):
        if v == "_":
            continue
        n += 1
        consults_t = at.get(v, at.get("_", False))
        consults_c = ac.get(v, ac.get("_", False))
        R.inst("C01.k", "ExprKind::%s / constness looks as far as truthiness" % v, (not consults_t) or consults_c,
               "ConstantEvaluator::is_truthy_constant has to look inside an ExprKind::%s to decide it (its arm asks a predicate "
               "about the sub-expression), but is_constant answers for the kind alone: some %s expressions count as constant "
               "although their truth cannot be established, and visit_if prunes them to the else branch" % (v, v),
               ic.loc(), sample=True)
    R.floor("C01.k", "expression kinds with an arm in the constant predicates", n, 2)
    # every truthiness predicate over expressions looks at what is quoted before it answers for a quotation ('#f is #f)
    m = 0
    for name, fn in sorted(F.fns.items()):
        if not re.search(r"^steel::(compiler|steel_vm::const_evaluation)", name) or fn.d["out"] != "bool" or \
                not re.search(r"truthy", lib.split_path(name)[-1]) or "&ExprKind" not in fn.d["in"]:
            continue
        sws = lib.enum_switches(fn, "ExprKind")
        if not sws:
            continue
        sb = min(sws)
        am = lib.arm_map(fn, sb)
        if "Quote" not in am or am["Quote"] == am.get("_"):
            continue
        m += 1
        arm = lib.arm_reach(fn, sb, am["Quote"])
        looks = any(e[0] == "fld" and e[1] == "Quote" and e[2] == "expr" for x in arm for e in fn.blocks[x]["e"]) or \
            any(e[0] == "mv" and re.search(r"as Quote\.0|\.expr", e[2]) for x in arm for e in fn.blocks[x]["e"])
        R.inst("C01.k", "%s / the Quote arm looks at the quoted expression" % fn.short(), looks,
               "%s answers for every quotation alike: a quoted #f counts as true, and an `if` whose test is '#f is pruned to its "
               "then branch" % fn.short(), fn.loc(), sample=True)
    R.floor("C01.k", "truthiness predicates over expressions", m, 2)


def alias_substitution_rule(F, R):
    from .c07 import _backward, _origins
    R.rule("C01.j", "a pass that replaces one variable by another knows which variables are assigned: "
                    "RemoveLetsBoundToOtherLocalVars (`(let ((a b)) …)` ⇒ uses of a become b) is built with a collection that "
                    "derives from a visitor overriding visit_set (the names that are targets of a set! somewhere in the "
                    "expression), and its visit_let consults that collection (a contains test on a field other than the "
                    "lexical-scope tables) before it records an alias. nc: with an assignment to either variable in reach the "
                    "two are not the same variable — `(let ((y x)) (set! y (+ y 1)) (list x y))` answered (2 2) for x = 1")
    vl = F.one(r"\{impl VisitorMutRefUnit for RemoveLetsBoundToOtherLocalVars\}::visit_let$")
    from . import c14
    fields = {}
    maps_v = _backward(vl)
    raw_v = c14._raw_sources(vl)
    for i, b in vl.calls():
        if re.search(r"::contains$", b["callee"]) and b["args"]:
            for o in _origins(vl, re.match(r"_\d+", b["args"][0]).group(0), maps_v, depth=10):
                for s_ in raw_v.get(o.split(".")[0], ()):
                    m = re.search(r"\(\*_1\)\.(\w+)", s_)
                    if m:
                        fields.setdefault(m.group(1), []).append(i)
    extra = sorted(set(fields) - {"args", "scope"})
    R.inst("C01.j", "RemoveLetsBoundToOtherLocalVars::visit_let consults assignment information before aliasing", bool(extra),
           "RemoveLetsBoundToOtherLocalVars::visit_let decides to replace a let-bound variable by its initialiser looking only at "
           "the lexical tables (%s): it does not know whether either variable is assigned" % ", ".join(sorted(fields)) , vl.loc(), sample=True)
    # the collection comes from the set! forms of the expression
    setters = {m.group(1) for n in F.fns for m in [re.search(r"\{impl VisitorMut\w* for (\w+)\}::visit_set$", n)] if m}
    n = 0
    for name, fn in sorted(F.fns.items()):
        if not name.startswith("steel::compiler::"):
            continue
        for i, _, e in fn.events("agg"):
            if e[1] != "RemoveLetsBoundToOtherLocalVars":
                continue
            n += 1
            maps = _backward(fn)
            recv = set()
            for j, b in fn.calls():
                m = re.search(r"\{impl VisitorMut\w* for (\w+)\}::visit$|for (\w+)\}::visit$", b["callee"])
                t = (m.group(1) or m.group(2)) if m else None
                if t is None and re.search(r"::VisitorMut\w*::visit$", b["callee"]) and b["targs"]:
                    t = b["targs"][0]           # the trait's default `visit`, instantiated for the visitor type
                if t in setters and b["args"]:
                    recv |= {x for x in lib.alias_sources(fn, re.match(r"_\d+", b["args"][0]).group(0), 4) if re.match(r"^_\d+$", x)}
            ok = False
            for op in e[4]:
                for t in lib.TOK.findall(str(op)):
                    if ({o.split(".")[0] for o in _origins(fn, t, maps, depth=10)} | {t.split(".")[0]}) & recv:
                        ok = True
            R.inst("C01.j", "%s builds the pass with the names assigned in the expression" % fn.short(), ok,
                   "%s constructs RemoveLetsBoundToOtherLocalVars (line %s) without handing it a collection that comes from a "
                   "visitor of the expression's set! forms" % (fn.short(), e[3]), fn.loc(e[3]), sample=True)
    R.floor("C01.j", "constructions of the let-alias pass", n, 1)


def cond_arrow_rule(F, R):
    from . import sexp
    from . import facts as factsmod
    R.rule("C01.y", "`cond` evaluates the receiver of a `=>` clause only when the test was true, and handles `=>` in every position "
                    "(syntax-tree rule over the library source, stdlib.scm): in each rule of the cond macro whose first clause is "
                    "`[test => receiver …]`, the receiver's pattern variable occurs in the template only inside the consequent of "
                    "an `if` / the body of a `when` — never in a binding list, which is evaluated before the test is looked at — "
                    "and a rule for `[test => receiver …]` as the ONLY clause comes before the general single-clause rule (which "
                    "would otherwise read `=>` as an expression). nc: `(cond [#f => (error …)] [else 1])` raised")
    forms = sexp.load(factsmod.REPO, STDLIB_SCM)
    cd = [f for f in forms if sexp.is_form(f, "define-syntax") and len(f) > 2 and str(f[1]) == "cond"]
    if not cd or not sexp.is_form(cd[0][2], "syntax-rules"):
        raise CheckError("anchor lost: (define-syntax cond (syntax-rules …)) in %s" % STDLIB_SCM)
    rules_ = [r for r in cd[0][2][2:] if isinstance(r, list) and len(r) == 2 and isinstance(r[0], list)]
    where = "%s:%s" % (STDLIB_SCM, getattr(cd[0], "line", 0))
    n = 0
    only_arrow = None
    single_general = None
    for idx, (pat, tmpl) in enumerate(rules_):
        clauses = [c for c in pat[1:] if isinstance(c, list)]
        if not clauses:
            continue
        first = clauses[0]
        rest_ = pat[2:]
        is_arrow = len(first) >= 3 and str(first[1]) == "=>" and str(first[0]) != "else"
        if len(pat) == 2 and len(first) >= 2 and str(first[0]) != "else":
            if is_arrow and only_arrow is None:
                only_arrow = idx
            if not is_arrow and single_general is None and len(first) >= 2 and str(first[-1]) == "...":
                single_general = idx
        if not is_arrow:
            continue
        n += 1
        recv = str(first[2])

        def occurrences(x, ctx):
            out = []
            if isinstance(x, list):
                head = str(x[0]) if x and not isinstance(x[0], list) else None
                for k, y in enumerate(x):
                    c2 = ctx
                    if head in ("let", "let*", "letrec") and k == 1:
                        c2 = ctx + ["binding"]
                    elif head == "if" and k == 2:
                        c2 = ctx + ["then"]
                    elif head in ("when",) and k >= 2:
                        c2 = ctx + ["then"]
                    out += occurrences(y, c2)
            elif str(x) == recv:
                out.append(ctx)
            return out
        occ = occurrences(tmpl, [])
        # every occurrence lies under a consequent, and no binding list sits between the root and that consequent
        ok = bool(occ) and all("then" in c and "binding" not in c[:c.index("then")] for c in occ)
        R.inst("C01.y", "cond rule %d / the receiver of => is evaluated only after the test was found true" % idx, ok,
               "rule %d of the cond macro evaluates the receiver expression of a `=>` clause in a binding list (before the test is "
               "examined): (cond [#f => (error …)] [else 1]) raises" % idx, where, sample=True)
    R.inst("C01.y", "cond / `[test => receiver]` as the only clause has its own rule before the general one",
           only_arrow is not None and (single_general is None or only_arrow < single_general),
           "the cond macro has no rule for a `=>` clause that is the only (last) clause ahead of `[(cond [e1 e2 ...]) (when e1 e2 "
           "...)]`: (cond [(assv k al) => cdr]) expands to (when … => cdr) and `=>` is a free identifier", where, sample=True)
    R.floor("C01.y", "cond rules with a => clause", n, 2)


_REACH = {}


def _reach(F):
    k = id(F)
    if k not in _REACH:
        from . import shared
        _REACH[k] = shared.script_reach(F)
    return _REACH[k]
