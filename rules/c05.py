"""C05 — reference counting is sound under every interleaving (DESIGN §4 C05).

Interleavings are out of reach of static analysis.  Decided structural clauses of the biased scheme in steel-rc, each
a necessary condition that holds for every schedule because it is a statement about code, not time:
  a  the non-atomic owner counter (RcWord.biased_counter) and owner id are touched only on owner-only paths,
  b  destruction is control-dependent on a zero test of the merged count (or a won CAS),
  c  the shared word is only modified by compare-exchange loops / flag fetch_or|fetch_and,
  d  exclusive access (&mut) is handed out only after has_unique_ref,
  e  clone/drop pairing with increment/decrement and exhaustive handling of the decrement outcome.
"""
import re

from . import lib
from .lib import CheckError

RC = r"^steel_rc::"


def switch_after_call(fn, call_block, maxhops=3):
    """(switch_block) reached right after a call (through gotos / the comparison statement)"""
    nxt = fn.blocks[call_block].get("ret")
    hops = 0
    while nxt is not None and hops <= maxhops:
        b = fn.blocks[nxt]
        if b["k"] == "switch":
            return nxt
        if b["k"] == "goto" and len(b["s"]) == 1:
            nxt = b["s"][0]
            hops += 1
            continue
        return None
    return None


def zero_target(fn, sw):
    """target taken when the tested integer is 0 / the `== 0` comparison is true"""
    b = fn.blocks[sw]
    if b["on"] == "bool":
        # produced by `x == 0` (true -> otherwise) or `x != 0` (false -> '0' target); decide by the binop in block
        ops = [e for e in b["e"] if e[0] == "binop"]
        f = [t for v, t in b["targets"] if v == "0"]
        if ops and ops[-1][1] == "Ne":
            return f[0] if f else None
        return b["otherwise"]
    for v, t in b["targets"]:
        if v == "0":
            return t
    return None


def dominated_by_any(fn, block, doms):
    d = fn.dominators().get(block, set())
    return any(x in d for x in doms if x is not None)


def owner_branch_checks_shared(fn):
    """has_unique_ref, owner arm: every path to the return either leaves through the 'owner count is not 1' side of the
    comparison of biased_counter with 1, or passes through the read of the shared counter (Packed::get_counter).
    returns (ok, detail)"""
    eqs = fn.call_blocks(r"\{impl PartialEq(<ThreadId>)? for ThreadId\}::eq$")
    if not eqs:
        return False, "no owner test"
    entry = lib.bool_branch(fn, eqs[0])[0]
    if entry is None:
        return False, "owner test is not branched on"
    gets = set(fn.call_blocks(r"\{impl Packed\}::get_counter$"))
    if not gets:
        return False, "shared counter never read"
    # the comparison of the owner count with 1
    seen, stack = set(), [entry]
    while stack:
        b = stack.pop()
        if b in seen or b in gets:
            continue
        seen.add(b)
        blk = fn.blocks[b]
        succ = fn.succ(b)
        if blk["k"] == "switch":
            ops = [e for e in blk["e"] if e[0] == "binop" and e[2] == "u32" and "const:1" in (e[5], e[6])]
            if ops and blk["on"] == "bool":
                zero = [t for v, t in blk["targets"] if v == "0"]
                if ops[-1][1] == "Eq":      # true (otherwise) = count is 1 -> must go on to the shared check
                    succ = [blk["otherwise"]]
                elif ops[-1][1] == "Ne":    # true = count is not 1 -> legitimate early 'false'
                    succ = zero
        if blk["k"] == "return":
            return False, "a path of the owner branch reaches the return without reading the shared counter"
        stack.extend(succ)
    return True, ""


def unique_predicate_instances(F, R, rid, hu_):
    """shared by C05.d and C03.b"""
    # the uniqueness test only asks: it is used by get_mut / make_mut, whose caller keeps its reference, so it must leave
    # the count as it is (the first form of this instance required the compare_exchange(1 -> 0) that the code had, which
    # zeroed the count of a live box — the check was wrong, see DESIGN §6 fix F6)
    writers = [lib.short_name(b["callee"]) for _, b in lib.family_calls(F, hu_)
               if re.search(r"\{impl SharedPacked\}::(compare_exchange|fetch_\w+|store|swap)$|\{impl Cell<T>\}::(set|replace|swap|take)$",
                            b["callee"])]
    R.inst(rid, "has_unique_ref only asks: it writes neither counter", not writers,
           "RcBox::has_unique_ref modifies the count it is asked about (%s): get_mut / make_mut keep their reference after a "
           "successful test, so a count changed here no longer matches the holders — the next clone+drop frees a value that is "
           "still held, or the last drop never frees it" % ", ".join(sorted(set(writers))), hu_.loc(), sample=True)
    sw_owner = [sb for sb in lib.enum_switches(hu_, "Option")]
    none_ok = False
    for sb in sw_owner:
        am = lib.arm_map(hu_, sb)
        t = am.get("None")
        if t is None:
            continue
        loads = set(hu_.call_blocks(r"\{impl SharedPacked\}::load$"))
        none_ok = bool(loads) and hu_.every_path_passes_from([t], hu_.returns(), loads)[0]
        break
    R.inst(rid, "has_unique_ref / merged branch reads the shared count on every path", none_ok,
           "RcBox::has_unique_ref's ownerless (merged) branch can answer without reading the shared counter", hu_.loc(),
           sample=True)


def run(F, R, ctx):
    R.rule("C05.a", "RcWord.biased_counter (a Cell) is accessed only in owner-only code: the fast paths called on the "
                    "owner==current-thread branch, arms dominated by `tid == ThreadId::current_thread()`, the merge "
                    "routines run from the owner's queue, and the constructor")
    R.rule("C05.b", "every call that frees the payload/box (drop_contents_and_maybe_box*, RcBox::dealloc) is dominated by "
                    "DecrementAction::Deallocate, by the zero branch of a get_counter() test, or by a won compare_exchange")
    R.rule("C05.c", "SharedPacked's atomic word is modified only by compare_exchange and the flag fetch_or/fetch_and; the "
                    "destructive fetch_and 'readers' (SharedPacked::is_merged/is_queued/value) have no callers")
    R.rule("C05.d", "get_mut/make_mut reach get_mut_unchecked only after has_unique_ref() returned true (make_mut: or after "
                    "replacing *this with a fresh allocation); nothing else outside steel-rc's destructor calls "
                    "get_mut_unchecked")
    R.rule("C05.e", "Clone increments, Drop decrements and handles DoNothing/Queue/Deallocate; increment/decrement choose "
                    "the fast path exactly on the owner branch")
    if "steel_rc" not in F.crates:
        raise CheckError("facts for steel_rc missing")
    owner_count_positive_rule(F, R)
    rcfns = {n: f for n, f in F.fns.items() if n.startswith("steel_rc::")}

    # ---------------- a
    touch = {}
    for n, fn in rcfns.items():
        for i, j, e in fn.events("fld", cleanup=True):
            if e[1] == "RcWord" and e[2] == "biased_counter":
                touch.setdefault(n, set()).add(i)
    R.floor("C05.a", "functions touching RcWord.biased_counter", len(touch), 6)
    for n in sorted(touch):
        fn = rcfns[n]
        sn = fn.short()
        if re.search(r"\{impl RcWord\}::new$", n):
            R.inst("C05.a", "%s (constructor, not yet shared)" % sn, True, sample=True, nontrivial=False)
            continue
        if re.search(r"\{impl RcBox<T>\}::fast_(increment|decrement)$", n):
            # owner-only by contract: checked at their call sites below (C05.e)
            R.inst("C05.a", "%s (owner-only by call-site contract, see C05.e)" % sn, True, sample=True)
            continue
        if re.search(r"(\{impl BiasedMerge for BiasedRc<T>\}::merge|\{impl QueueHandle\}::explicit_merge)(::\{closure#\d+\})*$", n):
            R.inst("C05.a", "%s (runs from the owner's queue)" % sn, True, sample=True)
            continue
        # otherwise: every access dominated by true edge of ThreadId::eq(.., current_thread())
        eqs = fn.call_blocks(r"\{impl PartialEq(<ThreadId>)? for ThreadId\}::eq$") + \
            fn.call_blocks(r"\{impl PartialEq(<Option<T>>)? for Option<T>\}::eq$")
        trues = []
        for b in eqs:
            t, f = lib.bool_branch(fn, b)
            trues.append(t)
        cur = fn.call_blocks(r"\{impl ThreadId\}::current_thread$")
        for blk in sorted(touch[n]):
            ok = bool(cur) and dominated_by_any(fn, blk, trues)
            R.inst("C05.a", "%s / biased_counter access guarded by owner test" % sn, ok,
                   "%s reads or writes the non-atomic owner counter RcWord.biased_counter on a path that is not dominated "
                   "by `owner == ThreadId::current_thread()`: a non-owner thread would race with the owner's unsynchronised "
                   "Cell updates (lost increments/decrements => premature or double free)" % sn, fn.loc(), sample=True)
    # explicit_merge is only entered for the current thread's queue
    for nm in ("run_explicit_merge", "finish_thread_merge"):
        fn = F.one(r"^steel_rc::\{impl QueueHandle\}::%s$" % nm)
        R.inst("C05.a", "QueueHandle::%s keys the queue by the current thread" % nm,
               bool(fn.call_blocks(r"\{impl ThreadId\}::current_thread$", wrappers=True)),
               "QueueHandle::%s no longer derives the queue key from ThreadId::current_thread(): it would merge another "
               "thread's objects and touch their owner-only counters" % nm, fn.loc(), sample=True)
    # who may run the merge routines (they read the owner-only counter without an owner test, "from the owner's queue"):
    # only the drains of the CURRENT thread's queue, each other, or code dominated by the owner test
    _, callers_ = F.graph()
    merge_rx = re.compile(r"^steel_rc::(\{impl BiasedMerge for BiasedRc<T>\}::merge|\{impl QueueHandle\}::explicit_merge)$")
    drains = re.compile(r"^steel_rc::\{impl QueueHandle\}::(run_explicit_merge|finish_thread_merge)(::\{closure#\d+\})*$")
    nm_ = 0
    for mname in [x for x in F.fns if merge_rx.search(x)]:
        for c in sorted(callers_.get(mname, ())):
            if c not in F.fns or not c.startswith("steel_rc::"):
                continue
            nm_ += 1
            cf = F.fns[c]
            ok = bool(drains.search(c)) or bool(merge_rx.search(re.sub(r"(::\{closure#\d+\})+$", "", c)))
            if not ok:
                eqs = cf.call_blocks(r"\{impl PartialEq(<ThreadId>)? for ThreadId\}::eq$")
                trues = [lib.bool_branch(cf, b_)[0] for b_ in eqs]
                sites = [i_ for i_, b_ in cf.calls() if b_["callee"] == mname]
                ok = bool(eqs) and all(dominated_by_any(cf, i_, trues) for i_ in sites)
            R.inst("C05.a", "%s runs %s only for the current thread's objects" % (cf.short(), lib.short_name(mname)), ok,
                   "%s calls %s — which reads and folds the owner-only counter RcWord.biased_counter without an owner test — "
                   "outside the drains of the current thread's own queue and not under `owner == current_thread()`: a "
                   "non-owner thread merges while the owner may still be on its fast path, increments made in that window are "
                   "lost and the value is freed while the owner holds references" % (cf.short(), lib.short_name(mname)),
                   cf.loc(), sample=True)
    # thread_id writes
    for n, fn in rcfns.items():
        for i, j, e in fn.events("fld"):
            pass
    tid_writers = set()
    for n, fn in rcfns.items():
        for i, b in fn.calls():
            if re.search(r"core::cell::\{impl Cell<T>\}::(set|replace|take)$", b["callee"]) and "Option<ThreadId>" in " ".join(b["targs"]):
                tid_writers.add(n)
    allowed_tid = re.compile(r"(fast_decrement|\{impl BiasedMerge for BiasedRc<T>\}::merge|\{impl QueueHandle\}::explicit_merge)(::\{closure#\d+\})*$")
    for n in sorted(tid_writers):
        R.inst("C05.a", "%s writes RcWord.thread_id" % rcfns[n].short(), bool(allowed_tid.search(n)),
               "%s clears/sets the owner id outside the owner-only merge paths" % rcfns[n].short(), rcfns[n].loc(), sample=True)

    # ---------------- b
    free_rx = r"(drop_contents_and_maybe_box(_outer)?|\{impl RcBox<T>\}::dealloc)$"
    nfree = 0
    for n, fn in sorted(rcfns.items()):
        blocks = fn.call_blocks(free_rx)
        if not blocks:
            continue
        if re.search(r"drop_contents_and_maybe_box(_outer)?$", n):
            continue  # the freeing routine itself (its callers are the instances)
        if re.search(r"\{impl Drop for SliceBuilder<T>\}::drop$", n):
            # construction guard of from_iter/slice builders: frees an allocation that has never been shared
            R.inst("C05.b", "%s (unshared allocation under construction)" % fn.short(), True, sample=True, nontrivial=False)
            continue
        guards = []
        for sb in lib.enum_switches(fn, "DecrementAction"):
            m = lib.arm_map(fn, sb)
            if "Deallocate" in m and m["Deallocate"] != m.get("DoNothing") and m["Deallocate"] != m.get("Queue"):
                guards.append(m["Deallocate"])
        for gb in fn.call_blocks(r"\{impl Packed\}::get_counter$"):
            sw = switch_after_call(fn, gb)
            if sw is not None:
                guards.append(zero_target(fn, sw))
        for ie in fn.call_blocks(r"\{impl Result<T,E>\}::is_err$"):
            t, f = lib.bool_branch(fn, ie)
            if fn.call_blocks(r"\{impl SharedPacked\}::compare_exchange$"):
                guards.append(f)
        for b in blocks:
            nfree += 1
            ok = dominated_by_any(fn, b, guards)
            R.inst("C05.b", "%s / %s guarded by zero test" % (fn.short(), lib.short_name(fn.blocks[b]["callee"]).split("::")[-1]), ok,
                   "%s frees the value (line %s) on a path that is not control-dependent on the merged count being zero "
                   "(DecrementAction::Deallocate, get_counter()==0, or a won compare_exchange): a holder on another thread "
                   "would be left with a dangling pointer" % (fn.short(), fn.blocks[b]["line"]), fn.loc(fn.blocks[b]["line"]),
                   sample=True)
    R.floor("C05.b", "deallocation sites", nfree, 5)

    # ---------------- c
    at = {}
    for n, fn in rcfns.items():
        for i, b in fn.calls():
            m = re.search(r"core::sync::atomic::\{impl Atomic(U32|<u32>)\}::(\w+)$", b["callee"])
            if m:
                at.setdefault(m.group(2), set()).add(n)
    R.floor("C05.c", "atomic operations on the shared word", sum(len(v) for v in at.values()), 5)
    for op in sorted(at):
        for n in sorted(at[op]):
            sn = rcfns[n].short()
            if op in ("load", "compare_exchange", "compare_exchange_weak", "new"):
                ok = True
            elif op in ("fetch_or", "fetch_and"):
                ok = bool(re.search(r"\{impl SharedPacked\}::(set_flag_queued|set_flag_merged|is_merged|is_queued|value)$", n))
            else:
                ok = False
            R.inst("C05.c", "%s uses AtomicU32::%s" % (sn, op), ok,
                   "%s modifies the shared count word with AtomicU32::%s, which is not a compare-exchange loop: concurrent "
                   "updates of counter and flags packed in the same word can be lost" % (sn, op), rcfns[n].loc(), sample=True)
    # compare-exchange retry loops: the value to install is recomputed from the freshly observed word on every retry
    ncas = 0
    for n, fn in sorted(rcfns.items()):
        cas = fn.call_blocks(r"\{impl SharedPacked\}::compare_exchange$")
        recompute = set(fn.call_blocks(r"\{impl Packed\}::(update_counter|set_counter|set_merged|set_queued|set_value)$"))
        for c in cas:
            cyc = fn.reachable_from(fn.succ(c))
            if c not in cyc:
                continue  # single-shot CAS (has_unique_ref, try_unwrap_internal)
            ncas += 1
            stale = c in fn.reachable_from(fn.succ(c), avoid=recompute)
            R.inst("C05.c", "%s / CAS retry recomputes the new word from the observed one" % fn.short(), not stale,
                   "%s retries compare_exchange on a cycle that does not recompute the word to install (no Packed::"
                   "update_counter/set_* on the retry path): after a failed exchange it installs a value derived from a "
                   "stale observation and overwrites the other thread's concurrent update of counter/flags" % fn.short(),
                   fn.loc(fn.blocks[c]["line"]), sample=True)
    R.floor("C05.c", "compare-exchange retry loops", ncas, 5)
    _, callers = F.graph()
    for nm in ("is_merged", "is_queued", "value"):
        n = "steel_rc::{impl SharedPacked}::%s" % nm
        if n in F.fns:
            cs = sorted(callers.get(n, ()))
            R.inst("C05.c", "destructive reader SharedPacked::%s is unused" % nm, not cs,
                   "SharedPacked::%s reads with fetch_and(mask), which clears every other bit of the shared word; it is "
                   "called from %s" % (nm, ", ".join(lib.short_name(c) for c in cs)), F.fns[n].loc(), sample=True)

    # ---------------- f: the hand-over protocol between owner and non-owners
    R.rule("C05.f", "hand-over protocol: the merge routines add the owner's count into the shared word and set the merged flag "
                    "in the same compare-exchange (update_counter + set_merged(true) on the retry path); the owner's last "
                    "decrement sets merged; a non-owner decrement that drives the shared count negative sets queued "
                    "(set_queued(true)) and reports Queue; Deallocate is reported only with merged set and count zero")
    def calls_with(fn, rx, const=None):
        out = []
        for i, b in fn.calls():
            if re.search(rx, b["callee"]) and (const is None or const in b["args"]):
                out.append(i)
        return out
    for rx in (r"^steel_rc::\{impl BiasedMerge for BiasedRc<T>\}::merge$", r"^steel_rc::\{impl QueueHandle\}::explicit_merge$"):
        fn = F.one(rx)
        cas = fn.call_blocks(r"\{impl SharedPacked\}::compare_exchange$")
        upd = [b for b in fn.call_blocks(r"\{impl Packed\}::update_counter$")]
        mer = calls_with(fn, r"\{impl Packed\}::set_merged$", "const:1")
        reads_biased = any(e[1] == "RcWord" and e[2] == "biased_counter" for _, e in lib.family_events(F, fn, "fld"))
        ok = bool(cas) and bool(upd) and bool(mer) and reads_biased
        for c in cas:
            cyc = fn.reachable_from(fn.succ(c))
            ok = ok and any(m_ in cyc or m_ in fn.dominators().get(c, ()) for m_ in mer)
        R.inst("C05.f", "%s merges the owner count and sets merged" % fn.short(), ok,
               "%s no longer adds RcWord.biased_counter into the shared word and sets the merged flag in its compare-exchange: "
               "non-owner decrements can then never observe 'merged and zero', so the value leaks — or the owner frees it "
               "while its own count is not accounted for" % fn.short(), fn.loc(), sample=True)
    fd = F.one(r"^steel_rc::\{impl RcBox<T>\}::fast_decrement$")
    R.inst("C05.f", "fast_decrement sets merged when the owner count reaches zero",
           bool(calls_with(fd, r"\{impl Packed\}::set_merged$", "const:1")) and bool(fd.call_blocks(r"\{impl SharedPacked\}::compare_exchange$", wrappers=True)),
           "RcBox::fast_decrement no longer publishes the merged flag when the owner drops its last reference: the remaining "
           "non-owner references can never trigger deallocation", fd.loc(), sample=True)
    sd = F.one(r"^steel_rc::\{impl RcBox<T>\}::slow_decrement$")
    q = calls_with(sd, r"\{impl Packed\}::set_queued$", "const:1")
    okq = bool(q)
    if okq:
        # only under a test of the counter's sign
        gc_ = sd.call_blocks(r"\{impl Packed\}::get_counter$")
        dom = sd.dominators()
        okq = all(any(g in dom[x] for g in gc_) for x in q)
    aggs = sorted(set(e[2] for _, _, e in sd.events("agg") if e[1] == "DecrementAction"))
    R.inst("C05.f", "slow_decrement queues on a negative shared count and can report Queue/Deallocate/DoNothing",
           okq and {"Queue", "Deallocate", "DoNothing"} <= set(aggs) and bool(sd.call_blocks(r"\{impl Packed\}::get_merged$", wrappers=True)),
           "RcBox::slow_decrement no longer sets the queued flag under a test of the shared count, or cannot report one of "
           "Queue / Deallocate / DoNothing (reports: %s)" % aggs, sd.loc(), sample=True)

    # ---------------- d
    gm = F.one(r"^steel_rc::\{impl BiasedRc<T>\}::get_mut$")
    hu = gm.call_blocks(r"\{impl RcBox<T>\}::has_unique_ref$")
    un = gm.call_blocks(r"\{impl BiasedRc<T>\}::get_mut_unchecked$")
    trues = [lib.bool_branch(gm, b)[0] for b in hu]
    R.inst("C05.d", "BiasedRc::get_mut / unchecked access only after has_unique_ref", bool(hu) and bool(un) and
           all(dominated_by_any(gm, b, trues) for b in un),
           "BiasedRc::get_mut reaches get_mut_unchecked on a path not dominated by has_unique_ref()==true: it hands out "
           "&mut T to a value other holders still see", gm.loc(), sample=True)
    mm = F.one(r"^steel_rc::\{impl BiasedRc<T>\}::make_mut$")
    hu = mm.call_blocks(r"\{impl RcBox<T>\}::has_unique_ref$")
    un = mm.call_blocks(r"\{impl BiasedRc<T>\}::get_mut_unchecked$")
    news = mm.call_blocks(r"\{impl BiasedRc<T>\}::new$")
    ok = bool(hu) and bool(un)
    for b in hu:
        t, f = lib.bool_branch(mm, b)
        if f is None:
            ok = False
            continue
        o, w = mm.every_path_passes_from([f], un, news)
        ok = ok and o
    R.inst("C05.d", "BiasedRc::make_mut / shared value is cloned before mutation", ok,
           "BiasedRc::make_mut can reach get_mut_unchecked from the has_unique_ref()==false edge without first replacing "
           "*this by a fresh clone: copy-on-write would mutate the shared original", mm.loc(), sample=True)
    allowed_unchecked = re.compile(r"^steel_rc::\{impl BiasedRc<T>\}::(get_mut|make_mut|drop_contents_and_maybe_box)$|"
                                   r"^steel::gc::shared::|^steel::gc::\{impl Gc<T>\}::(get_mut|make_mut)$")
    cs = sorted(callers.get("steel_rc::{impl BiasedRc<T>}::get_mut_unchecked", ()))
    R.floor("C05.d", "callers of get_mut_unchecked", len(cs), 3)
    for c in cs:
        R.inst("C05.d", "%s calls get_mut_unchecked" % lib.short_name(c), bool(allowed_unchecked.search(c)),
               "%s obtains &mut to the payload through the unchecked accessor, bypassing the uniqueness test" % lib.short_name(c),
               F.fns[c].loc() if c in F.fns else "", sample=True)
    hu_ = F.one(r"^steel_rc::\{impl RcBox<T>\}::has_unique_ref$")
    setc = [b["args"] for _, b in hu_.calls() if re.search(r"\{impl Packed\}::set_counter$", b["callee"])]
    okb, why = owner_branch_checks_shared(hu_)
    R.inst("C05.d", "has_unique_ref / owner branch: local count == 1 and shared count == 0", okb,
           "RcBox::has_unique_ref: %s — it can report uniqueness on the owner thread while another thread still holds a "
           "reference counted in the shared word" % why, hu_.loc(), sample=True)
    unique_predicate_instances(F, R, "C05.d", hu_)
    tu = F.one(r"^steel_rc::\{impl BiasedRc<T>\}::try_unwrap$")
    R.inst("C05.d", "BiasedRc::try_unwrap consults the owner id and the owner counter",
           bool(tu.call_blocks(r"\{impl ThreadId\}::current_thread$", wrappers=True)) and bool(tu.call_blocks(r"try_unwrap_internal(_same_thread)?$", wrappers=True)),
           "BiasedRc::try_unwrap no longer distinguishes owner/non-owner before moving the payload out", tu.loc(), sample=True)

    # ---------------- e
    cl = F.one(r"^steel_rc::\{impl Clone for BiasedRc<T>\}::clone$")
    R.inst("C05.e", "Clone for BiasedRc increments", bool(cl.call_blocks(r"\{impl RcBox<T>\}::increment$", wrappers=True)),
           "BiasedRc::clone creates a new handle without incrementing the count", cl.loc(), sample=True)
    dr = F.one(r"^steel_rc::\{impl Drop for BiasedRc<T>\}::drop$")
    decs = dr.call_blocks(r"\{impl RcBox<T>\}::decrement$")
    R.inst("C05.e", "Drop for BiasedRc decrements", bool(decs),
           "BiasedRc::drop no longer decrements the count", dr.loc(), sample=True)
    sws = lib.enum_switches(dr, "DecrementAction")
    ok_q = ok_d = False
    for sb in sws:
        ac = lib.arm_calls(dr, sb)
        ok_q = ok_q or any(re.search(r"\{impl QueueHandle\}::enqueue$", c) for c, _ in ac.get("Queue", []))
        ok_d = ok_d or any(re.search(r"drop_contents_and_maybe_box$", c) for c, _ in ac.get("Deallocate", []))
        # DoNothing must not free
        nd = ac.get("DoNothing", [])
        m = lib.arm_map(dr, sb)
        if m.get("DoNothing") not in (m.get("Deallocate"),):
            pass
    R.inst("C05.e", "Drop / Queue outcome enqueues for the owner", ok_q,
           "BiasedRc::drop ignores DecrementAction::Queue: a non-owner's last decrement is never merged, the value leaks "
           "(or the owner frees while the debt is outstanding)", dr.loc(), sample=True)
    R.inst("C05.e", "Drop / Deallocate outcome frees", ok_d,
           "BiasedRc::drop ignores DecrementAction::Deallocate: values are never destroyed", dr.loc(), sample=True)
    for nm, fast, slow in (("increment", "fast_increment", "slow_increment"), ("decrement", "fast_decrement", "slow_decrement")):
        fn = F.one(r"^steel_rc::\{impl RcBox<T>\}::%s$" % nm)
        eqs = fn.call_blocks(r"\{impl PartialEq(<Option<T>>)? for Option<T>\}::eq$") + fn.call_blocks(r"\{impl PartialEq(<ThreadId>)? for ThreadId\}::eq$")
        tt, ff = [], []
        for b in eqs:
            t, f = lib.bool_branch(fn, b)
            tt.append(t)
            ff.append(f)
        fb = fn.call_blocks(r"\{impl RcBox<T>\}::%s$" % fast)
        sb_ = fn.call_blocks(r"\{impl RcBox<T>\}::%s$" % slow)
        cur = fn.call_blocks(r"\{impl ThreadId\}::current_thread$")
        # the fast path only on the owner's edge; a non-owner (the false edge) reaches the slow path and never the fast one. The
        # owner may take the slow path as well (its own count is 0 and the reference it drops was cloned by another thread)
        ok = bool(cur) and bool(fb) and bool(sb_) and all(dominated_by_any(fn, b, tt) for b in fb) and \
            all(f_ is not None and not (set(fb) & (fn.reachable_from([f_]) | {f_})) and
                bool(set(sb_) & (fn.reachable_from([f_]) | {f_})) for f_ in ff)
        R.inst("C05.e", "RcBox::%s / fast path exactly on the owner branch" % nm, ok,
               "RcBox::%s does not keep %s to the `owner == current thread` edge, or a non-owner does not reach %s: a non-owner "
               "would update the non-atomic counter (or skip the shared one)" % (nm, fast, slow), fn.loc(), sample=True)
        others = [c for c in callers.get("steel_rc::{impl RcBox<T>}::%s" % fast, ()) if not c.endswith("::" + nm)]
        R.inst("C05.e", "RcBox::%s is called only from RcBox::%s" % (fast, nm), not others,
               "%s (owner-only) is also called from %s without the owner test" % (fast, ", ".join(lib.short_name(c) for c in others)),
               fn.loc(), sample=True)
    retry_rule(F, R)
    queued_rule(F, R)


RETRY_PURE = re.compile(
    r"^steel_rc::\{impl Packed\}::(set_\w+|get_\w+|update_counter)$|"
    r"^steel_rc::.*::(meta|meta_outer)$|"
    r"^steel_rc::\{impl SharedPacked\}::(load|compare_exchange)$|"
    r"^core::cell::\{impl Cell<T>\}::get$|"
    r"::\{impl Deref(Mut)? for [^}]*\}::deref(_mut)?$|"
    r"^core::hint::spin_loop$|^std::thread::yield_now$|"
    r"^core::(clone::Clone::clone|intrinsics::\w+)$|^core::ops::function::Fn\w*::call\w*$")


def retry_rule(F, R):
    R.rule("C05.g", "compare-exchange retry loops are idempotent: the blocks re-executed after a lost compare_exchange (from "
                    "its Err arm back to the compare_exchange), and the closures they build, only read shared state and edit "
                    "the local copy of the packed word (Packed::set_*/update_counter, Cell::get, load, meta); no Cell "
                    "set/replace/take, atomic read-modify-write, store through a reference or other call appears there — a "
                    "retry must compute the new word from the same owner count as the first attempt")
    n = 0
    for name, fn in sorted(F.fns.items()):
        if not name.startswith("steel_rc::"):
            continue
        for c, cb in fn.calls():
            if not re.search(r"\{impl SharedPacked\}::compare_exchange$", cb["callee"]):
                continue
            fwd = fn.reachable_from(fn.succ(c))
            if c not in fwd:
                continue
            sw = switch_after_call(fn, c)
            m = lib.arm_map(fn, sw) if sw is not None and fn.blocks[sw]["on"] == "enum:Result" else {}
            key = "%s / retry path of compare_exchange #%d" % (fn.short(), n_in(fn, c))
            n += 1
            if "Err" not in m:
                R.inst("C05.g", key, False, "%s: the compare_exchange in a loop is not followed by a match on its Result; the "
                       "retry path cannot be identified" % fn.short(), fn.loc(cb.get("line")))
                continue
            retry = fn.reachable_from([m["Err"]], avoid={c})
            bad = []
            for b in sorted(retry):
                blk = fn.blocks[b]
                if blk["c"]:
                    continue
                if blk["k"] == "call" and not RETRY_PURE.search(blk["callee"]):
                    bad.append("calls %s (line %s)" % (lib.short_name(blk["callee"]), blk.get("line")))
                for e in blk["e"]:
                    if e[0] == "st":
                        bad.append("stores through %s" % e[1])
                    if e[0] == "closure" and e[1] in F.fns:
                        for _, ccb in lib.family_calls(F, F.fns[e[1]]):
                            if not RETRY_PURE.search(ccb["callee"]):
                                bad.append("closure calls %s (line %s)" % (lib.short_name(ccb["callee"]), ccb.get("line")))
                        for _, _, ce in F.fns[e[1]].events("st"):
                            bad.append("closure stores through %s" % ce[1])
            # the blocks reachable only because the loop exits elsewhere (break to code after the loop) are not re-executed:
            # keep only what can come back to the compare_exchange
            R.inst("C05.g", key, not bad,
                   "%s: the path re-executed after a lost compare_exchange %s — each retry repeats the effect, so the word "
                   "finally installed no longer reflects the owner's count taken at the first attempt (references are "
                   "lost or invented: early free / leak)" % (fn.short(), "; ".join(sorted(set(bad))[:4])),
                   fn.loc(cb.get("line")), sample={"blocks": len(retry)})
    R.floor("C05.g", "compare-exchange retry loops", n, 5)


def n_in(fn, c):
    cs = [i for i, b in fn.calls() if re.search(r"\{impl SharedPacked\}::compare_exchange$", b["callee"])]
    return cs.index(c) + 1


def queued_rule(F, R):
    R.rule("C05.q", "an object that is queued for its owner is not handed over by the owner's fast paths: the queue holds a plain "
                    "pointer (no count) until the owner's next explicit merge, so RcBox::fast_decrement publishes `merged` (its "
                    "compare-exchange) and BiasedRc::try_unwrap_internal_same_thread frees the box only on the not-queued side "
                    "of a test of Packed::get_queued (re-tested on every retry of the compare-exchange loop). nc: once merged, "
                    "any thread dropping the last reference frees the box while the owner's queue still points at it — the next "
                    "explicit merge reads and writes freed memory")
    for rx, target_rx, what in (
            (r"^steel_rc::\{impl RcBox<T>\}::fast_decrement$", r"\{impl SharedPacked\}::compare_exchange$", "publishes merged"),
            (r"^steel_rc::\{impl BiasedRc<T>\}::try_unwrap_internal_same_thread$", r"\{impl RcBox<T>\}::dealloc$", "frees the box")):
        fn = F.one(rx)
        targets = fn.call_blocks(target_rx, wrappers=True)
        if not targets:
            raise CheckError("anchor lost: %s no longer %s" % (fn.short(), what))
        tests = fn.call_blocks(r"\{impl Packed\}::get_queued$")
        ok = bool(tests)
        for t in targets:
            reach_ok = False
            for q in tests:
                br = lib.bool_branch(fn, q)
                if not br or br[0] is None:
                    continue
                # the queued (true) side must not lead to the target without passing the test again
                bad = fn.reachable_from([br[0]], avoid=set(tests))
                # every path from the entry to the target passes a test
                free = fn.reachable_from([0], avoid=set(tests))
                if t not in bad and t not in free:
                    reach_ok = True
            ok = ok and reach_ok
        R.inst("C05.q", "%s %s only while the object is not queued" % (fn.short(), what), ok,
               "%s %s without testing the queued flag of the shared word first (or on its queued side): an object whose "
               "pointer is parked in the owner's queue becomes freeable by other threads, and the owner's next explicit merge "
               "touches freed memory" % (fn.short(), what), fn.loc(), sample=True)


def owner_count_positive_rule(F, R):
    R.rule("C05.u", "the owner's count is lowered only when it is positive: every subtraction from the non-atomic owner counter "
                    "(RcWord.biased_counter) in steel-rc is dominated by a branch on a comparison of that counter — in the function "
                    "or at every call of it. The counter can be 0 while the object is still biased to the owner (it reached 0 while "
                    "the object sat in the owner's queue); a reference the owner drops then was cloned by another thread and is "
                    "counted in the shared word: subtracting from 0 panics in Drop (debug) or wraps to u32::MAX (release)")

    def counter_reads(fn):
        out = []
        for i, b in fn.calls():
            if re.search(r"Cell<T>\}::get$", b["callee"]) and b["args"] and \
                    any(re.search(r"biased_counter", s_) for s_ in lib.alias_sources(fn, b["args"][0])):
                out.append((i, b["dest"]))
        return out

    def guarded(fn, site):
        dom = fn.dominators()
        reads = [d for i, d in counter_reads(fn) if i in dom.get(site, ())]
        if not reads:
            return False
        taint = lib.tainted_locals(fn, reads)
        for sb in dom.get(site, ()):
            blk = fn.blocks[sb]
            if sb == site or blk["k"] != "switch":
                continue
            if not any(x in taint for x in lib.TOK.findall(str(blk.get("place", "")))):
                continue
            sides = [t for t in set(blk["s"]) if t == site or site in fn.reachable_from([t], avoid={sb})]
            if len(sides) == 1:
                return True
        return False
    n = 0
    for name, fn in sorted(F.fns.items()):
        if not name.startswith("steel_rc::"):
            continue
        reads = {d for _, d in counter_reads(fn)}
        if not reads:
            continue
        taint = lib.tainted_locals(fn, sorted(reads))
        for i, b in enumerate(fn.blocks):
            if b["c"]:
                continue
            subs = [e for e in b["e"] if e[0] == "binop" and e[1] in ("Sub", "SubWithOverflow") and
                    any(x in taint for x in lib.TOK.findall(str(e[5])))]
            if not subs:
                continue
            n += 1
            ok = guarded(fn, i)
            if not ok:
                callers = [(g, j) for g in F.fns.values() if g.name.startswith("steel_rc::") for j, cb in g.calls() if cb["callee"] == name]
                ok = bool(callers) and all(guarded(g, j) for g, j in callers)
            R.inst("C05.u", "%s / the owner counter is compared before it is lowered" % fn.short(), ok,
                   "%s subtracts from RcWord.biased_counter (line %s) and neither it nor every caller tested the counter first: with "
                   "the owner's count at 0 and the object still biased to the owner, dropping a reference another thread cloned "
                   "underflows it (owner: x, y = x.clone(); a thread drops y; another thread sends three clones of x back; the owner "
                   "drops them: the third drop panics)" % (fn.short(), subs[0][3]), fn.loc(subs[0][3]), sample=True)
    R.floor("C05.u", "subtractions from the owner counter", n, 1)
