"""C09 — tail calls run in constant space (DESIGN §4 C09).

Decided clauses: (a) interpreter arms of tail-call opcodes never push a frame and reach the frame-reuse routine,
(b) the compiler maps tail call kinds to tail-class opcodes (class agreement), (c) every frame push is depth-checked,
(d) where one function serves both tail and non-tail calls, the two paths are separated by a single decision.
Not decided: value-level correctness of the argument shuffle; memory held by values (C19).
"""
import re

from . import lib, shared
from .lib import CheckError

TAIL_REUSE = r"\{impl VmCore\}::new_handle_tail_call_closure$"


def push_blocks(fn):
    return [i for i, b in fn.calls() if re.search(r"Vec<T,A>\}::push$", b["callee"]) and b["targs"] and b["targs"][0] == "StackFrame"]


def is_tail_op(op):
    return "TAIL" in op or op == "TCOJMP"


def run(F, R, ctx):
    _run9(F, R, ctx)
    classification_rule(F, R)
    depth_balance_rule(F, R)
    if "jit2" in (F.meta.get("features") or []):
        native_tail_rule(F, R)


def _run9(F, R, ctx):
    R.rule("C09.a", "for every interpreter arm of a tail-class opcode (name contains TAIL, or TCOJMP): no function that "
                    "pushes a StackFrame is reachable from the arm through VmCore methods (depth <= 3), and the arm reaches "
                    "the frame-reuse routine new_handle_tail_call_closure or reuses the frame inline (operand stack drain)")
    R.rule("C09.b", "CodeGenerator::visit_list maps every CallKind whose name marks tail position to a tail-class opcode "
                    "and every other CallKind to a non-tail opcode; program.rs rewrites keep the class")
    R.rule("C09.c", "every function that pushes a StackFrame checks the depth: it calls check_stack_overflow, or compares "
                    "stack_frames.len() with STACK_LIMIT, or continues into call_with_instructions_and_reset_state whose "
                    "depth counter is checked at the top of vm(); check_stack_overflow really compares and errors")
    R.rule("C09.d", "in functions serving both tail and non-tail calls (apply, eval_program) the frame-reuse call and the "
                    "frame-pushing call are separated by one decision: no decision outcome leads to both")
    vm, sb = shared.vm_dispatch(F)
    pf = {n for n, f in F.fns.items() if n.startswith("steel::steel_vm::") and push_blocks(f)}
    R.floor("C09.c", "frame-pushing functions", len(pf), 8)

    def reach_push(c, depth=3, seen=None):
        seen = seen if seen is not None else set()
        if c in pf:
            return [c]
        if depth == 0 or c not in F.fns or c in seen:
            return None
        seen.add(c)
        if not re.search(r"^steel::steel_vm::vm::\{impl VmCore\}::", c):
            return None
        for d in sorted(F.callees(F.fns[c], expand_unresolved=False)):
            p = reach_push(d, depth - 1, seen)
            if p:
                return [c] + p
        return None

    ac = lib.arm_calls(vm, sb)
    em = shared.emit_set(F)
    ntail = 0
    for op, calls in sorted(ac.items()):
        if op == "_":
            continue
        hit = None
        for c, b in calls:
            if re.search(r"Vec<T,A>\}::push$", c) and vm.blocks[b]["targs"] and vm.blocks[b]["targs"][0] == "StackFrame":
                hit = ["<inline push>"]
                break
            p = reach_push(c)
            if p:
                hit = p
                break
        if is_tail_op(op):
            ntail += 1
            R.inst("C09.a", "arm %s never pushes a frame" % op, hit is None,
                   "the interpreter arm for the tail-call opcode %s reaches a frame push (%s): a loop expressed through "
                   "such tail calls keeps one frame per iteration" % (op, " -> ".join(lib.short_name(x) for x in (hit or []))),
                   vm.loc(), sample={"emittable": op in em})
            reuse = any(re.search(TAIL_REUSE, c) for c, _ in calls) or \
                any(F.reaches(c, TAIL_REUSE, maxdepth=2) for c, _ in calls
                    if c in F.fns and re.search(r"\{impl VmCore\}::handle_tail_call", c))
            inline = any(re.search(r"Vec<T,A>\}::(drain|truncate)$", c) for c, _ in calls)
            if not ("CALL" in op or op in ("TCOJMP", "UNBOXTAIL")):
                continue  # arithmetic-in-tail-position opcodes return a value, they do not call
            R.inst("C09.a", "arm %s reuses the frame" % op, reuse or inline,
                   "the interpreter arm for %s neither reaches new_handle_tail_call_closure nor drains the operand stack "
                   "inline" % op, vm.loc(), sample=True)
        elif op in ("FUNC", "FUNCNOARITY", "CALLGLOBAL", "CALLGLOBALNOARITY"):
            R.inst("C09.a", "non-tail arm %s pushes a frame (class sanity)" % op, hit is not None,
                   "the interpreter arm for the non-tail call opcode %s does not reach a frame push: the call classes "
                   "derived by this rule are not what the VM does" % op, vm.loc(), nontrivial=False)
    R.floor("C09.a", "tail-class arms", ntail, 6)
    # the reuse routine itself must not push and must drain
    th = F.one(r"^steel::steel_vm::vm::" + TAIL_REUSE)
    R.inst("C09.a", "new_handle_tail_call_closure does not push a frame and drains the operand stack",
           not push_blocks(th) and bool(th.call_blocks(r"Vec<T,A>\}::(drain|truncate)$", wrappers=True)) and reach_push(th.name) is None,
           "new_handle_tail_call_closure pushes a frame or no longer removes the caller's operands", th.loc(), sample=True)
    ht = F.one(r"^steel::steel_vm::vm::\{impl VmCore\}::handle_tail_call$")
    sws = lib.enum_switches(ht, "SteelVal")
    okc = False
    for s_ in sws:
        acs = lib.arm_calls(ht, s_)
        okc = okc or any(re.search(TAIL_REUSE, c) for c, _ in acs.get("Closure", []))
        for v, calls in acs.items():
            for c, _ in calls:
                p = reach_push(c)
                R.inst("C09.a", "handle_tail_call / %s callee does not push a frame" % v, p is None,
                       "handle_tail_call dispatches a %s callee to %s which pushes a frame" % (v, lib.short_name(c)),
                       ht.loc(), sample=False) if p is not None or v in ("Closure", "CustomStruct") else None
    R.inst("C09.a", "handle_tail_call / Closure callee goes to the frame-reuse routine", okc,
           "handle_tail_call no longer sends closures to new_handle_tail_call_closure", ht.loc(), sample=True)

    # ---- b
    vl = F.one(r"\{impl VisitorMut for CodeGenerator\}::visit_list$")
    sws = lib.enum_switches(vl, "CallKind")
    if not sws:
        raise CheckError("anchor lost: visit_list no longer matches on CallKind")
    kinds = [v["name"] for v in F.adts["steel::compiler::passes::analysis::CallKind"]["variants"]]
    for sw in [max(sws, key=lambda b: len(vl.blocks[b]["targets"]))]:
        m = lib.arm_map(vl, sw)
        for k in kinds:
            t = m.get(k, m["_"])
            blocks = lib.arm_reach(vl, sw, t)
            # opcodes constructed first in this arm (before arms merge): restrict to blocks dominated by the arm target
            dom = vl.dominators()
            ops = sorted({e[2] for b in blocks if t in dom.get(b, ()) for e in vl.blocks[b]["e"] if e[0] == "agg" and e[1] == "OpCode"}
                         - {"PASS"})
            want_tail = "Tail" in k
            ok = bool(ops) and all(is_tail_op(o) == want_tail for o in ops)
            R.inst("C09.b", "CallKind::%s -> %s" % (k, ",".join(ops)), ok,
                   "code generation maps the call kind %s (%s position) to opcode(s) %s of the other class: %s" % (
                       k, "tail" if want_tail else "non-tail", ops,
                       "tail calls would push frames" if want_tail else "a non-tail call would discard the caller's frame"),
                   vl.loc(vl.blocks[sw]["line"]), sample=True)
    R.floor("C09.b", "CallKind variants", len(kinds), 6)
    # rewrites in program.rs: an arm matching a tail opcode only constructs tail opcodes
    for fn in F.find(r"^steel::compiler::program::(convert_call_globals|unbox_function_call|inline_num_operations)$"):
        for i, j, e in fn.events("agg"):
            pass
    cg = F.one(r"^steel::compiler::program::convert_call_globals$")
    made = {e[2] for _, _, e in cg.events("agg") if e[1] == "OpCode"}
    R.inst("C09.b", "convert_call_globals produces both CALLGLOBAL and CALLGLOBALTAIL families",
           {"CALLGLOBAL", "CALLGLOBALTAIL", "CALLGLOBALNOARITY", "CALLGLOBALTAILNOARITY"} <= made,
           "convert_call_globals no longer emits a tail variant for global calls in tail position (emits %s)" % sorted(made),
           cg.loc(), sample={"emits": sorted(made)})

    # ---- c
    cso = F.one(r"^steel::steel_vm::vm::\{impl VmCore\}::check_stack_overflow$")
    cmp_ = [e for _, _, e in cso.events("binop") if e[1] in ("Ge", "Gt", "Eq") and e[2] == "usize"]
    R.inst("C09.c", "check_stack_overflow compares the frame count and errors",
           bool(cmp_) and bool(cso.call_blocks(r"\{impl SteelErr\}::new$", wrappers=True)) and
           any(e[1] == "SteelThread" and e[2] == "stack_frames" for _, _, e in cso.events("fld")),
           "check_stack_overflow no longer compares stack_frames.len() with the limit and raises", cso.loc(), sample=True)
    dchk = [e for _, _, e in vm.events("binop") if e[1] in ("Gt", "Ge") and e[2] == "usize"]
    reads_depth = any(e[1] == "VmCore" and e[2] == "depth" for _, _, e in vm.events("fld"))
    R.inst("C09.c", "vm() checks the re-entrancy depth", reads_depth and bool(dchk),
           "VmCore::vm no longer tests VmCore.depth on entry", vm.loc(), sample=True)
    allow = {
        "steel::steel_vm::vm::{impl SteelThread}::execute": "dummy frame replacing the frame just popped by the unwind loop",
        "steel::steel_vm::vm::{impl VmCore}::call_with_instructions_and_reset_state": "dummy frame replacing the frame just popped by the unwind loop; depth counter checked in vm()",
    }
    for n in sorted(pf):
        fn = F.fns[n]
        if n in allow:
            R.inst("C09.c", "%s (allowlisted)" % fn.short(), True, sample={"reason": allow[n]}, nontrivial=False)
            continue
        a = bool(fn.call_blocks(r"\{impl VmCore\}::check_stack_overflow$", wrappers=True))
        b = any(e[2] == "usize" and e[1] in ("Eq", "Ge", "Gt") and ("const:10000000" in (e[5], e[6])) for _, _, e in fn.events("binop"))
        c = bool(fn.call_blocks(r"\{impl VmCore\}::call_with_instructions_and_reset_state$", wrappers=True))
        R.inst("C09.c", "%s / frame push is depth-checked" % fn.short(), a or b or c,
               "%s pushes a StackFrame without check_stack_overflow, a STACK_LIMIT comparison or the depth-guarded "
               "re-entry: unbounded non-tail recursion through it overflows the host instead of raising" % fn.short(),
               fn.loc(), sample={"check_stack_overflow": a, "limit_compare": b, "guarded_reentry": c})

    # ---- d
    both = []
    for n, fn in F.fns.items():
        if not n.startswith("steel::steel_vm::"):
            continue
        t = fn.call_blocks(TAIL_REUSE)
        p = [i for i, b in fn.calls() if b["callee"] in pf]
        if t and p:
            both.append((fn, t, p))
    R.floor("C09.d", "functions with both a tail and a pushing path", len(both), 2)
    for fn, ts, ps in both:
        dom = fn.dominators()
        for t in ts:
            for p in ps:
                common = dom[t] & dom[p]
                d = max(common, key=lambda x: len(dom[x]))
                blk = fn.blocks[d]
                ok = blk["k"] == "switch"
                detail = ""
                if ok:
                    sides_t, sides_p = set(), set()
                    for s_ in set(fn.succ(d)):
                        r = fn.reachable_from([s_], avoid={d})
                        if t in r:
                            sides_t.add(s_)
                        if p in r:
                            sides_p.add(s_)
                    ok = not (sides_t & sides_p)
                    detail = "outcomes leading to frame reuse: %s, to frame push: %s" % (sorted(sides_t), sorted(sides_p))
                R.inst("C09.d", "%s / tail path and push path separated by one decision" % fn.short(), ok,
                       "%s: the decision at line %s does not separate the tail path (new_handle_tail_call_closure) from the "
                       "frame-pushing path (%s) — one of its outcomes can still reach both, so some calls in tail position "
                       "push a frame (%s)" % (fn.short(), blk.get("line"), lib.short_name(fn.blocks[p]["callee"]), detail),
                       fn.loc(blk.get("line")), sample=True)


def classification_rule(F, R):
    R.rule("C09.e", "tail position alone decides the call kind: in AnalysisPass::visit_list, once a call site has been "
                    "classified as a tail call (CallKind::TailCall / SelfTailCall assigned), no later assignment turns it back "
                    "into CallKind::Normal — the only construction of Normal is the sibling branch of the position test. A "
                    "downgrade by callee kind (a primitive, an unknown global) makes `(apply f args)` or `(eval …)` in tail "
                    "position push a frame per iteration, since those builtins reuse the frame only for a tail-class opcode")
    fn = F.one(r"\{impl VisitorMutUnitRef(<'a>)? for AnalysisPass(<'a>)?\}::visit_list$")
    assigns = {"Normal": [], "TailCall": [], "SelfTailCall": [], "SelfTailCallNoArity": []}
    for i, b in enumerate(fn.blocks):
        if b["c"]:
            continue
        for e in b["e"]:
            if e[0] == "kv" and str(e[2]).startswith("variant:CallKind::"):
                assigns.setdefault(str(e[2]).split("::")[-1], []).append(i)
            if e[0] == "agg" and e[1] == "CallKind":
                assigns.setdefault(e[2], []).append(i)
    tails = [b for k, v in assigns.items() if k != "Normal" for b in v]
    if not tails or not assigns["Normal"]:
        raise CheckError("anchor lost: AnalysisPass::visit_list no longer constructs CallKind::TailCall and CallKind::Normal")
    after_tail = set()
    for t in tails:
        after_tail |= fn.reachable_from(fn.succ(t))
    for k, nb in enumerate(sorted(set(assigns["Normal"]))):
        R.inst("C09.e", "AnalysisPass::visit_list / CallKind::Normal #%d is not a downgrade of a tail call" % k, nb not in after_tail,
               "AnalysisPass::visit_list assigns CallKind::Normal (line %s) on a path that has already classified the call as a "
               "tail call: a call in tail position is compiled as an ordinary, frame-pushing call for reasons other than its "
               "position (e.g. because the callee is a primitive) — a loop whose tail call goes through apply / eval then "
               "grows by one frame per iteration" % fn.blocks[nb].get("line"), fn.loc(fn.blocks[nb].get("line")), sample=True)
    R.floor("C09.e", "constructions of CallKind::Normal in the classifier", len(set(assigns["Normal"])), 1)


def native_tail_rule(F, R):
    R.rule("C09.f", "a tail call made from compiled code returns to the dispatch loop: a JIT runtime helper that hands the current "
                    "frame to the callee (calls the frame-reuse routine new_handle_tail_call_closure) does not run anything "
                    "through a function pointer afterwards (no indirect call reachable from the reuse) — the callee's native "
                    "code is entered by the dispatch loop, from a native frame that has returned. nc: entering the callee's "
                    "native code from inside the helper nests one native activation per tail call: the VM frame stack stays "
                    "flat, the process stack grows linearly and overflows after a few hundred thousand iterations")
    n = 0
    for name, fn in sorted(F.fns.items()):
        if not name.startswith("steel::steel_vm::vm::jit::"):
            continue
        reuse = fn.call_blocks(TAIL_REUSE)
        if not reuse:
            continue
        n += 1
        after = set()
        for r in reuse:
            after |= fn.reachable_from(fn.succ(r))
        ind = [i for i, b in fn.calls() if i in after and (b.get("how") == "p" or b["callee"] == "<fnptr>")]
        R.inst("C09.f", "%s / nothing is run through a function pointer after the frame was handed over" % fn.short(), not ind,
               "%s reuses the current frame for the callee (new_handle_tail_call_closure) and then calls through a function "
               "pointer (line %s): the callee's native code runs nested inside the tail call's helper, one native activation "
               "per iteration of a tail-recursive loop" % (fn.short(), fn.blocks[ind[0]].get("line") if ind else ""),
               fn.loc(fn.blocks[ind[0]].get("line") if ind else None), sample=True)
    R.floor("C09.f", "JIT helpers that hand the frame over to a tail callee", n, 2)


def depth_balance_rule(F, R):
    R.rule("C09.g", "the interpreter's nesting counter (VmCore.depth, compared with the limit that raises 'stack overflow') counts "
                    "nested runs, not iterations: in every function that raises it, no increment lies on a cycle that can come "
                    "round again without passing a decrement, and every path from an increment to a return passes a decrement. "
                    "An increment inside the retry loop of a nested run (one turn per error handled in a native callback) with a "
                    "single decrement after the loop leaks one unit per turn, and a flat tail-recursive loop is later refused "
                    "with a bogus stack overflow")
    n = 0
    for name, fn in sorted(F.fns.items()):
        if not name.startswith("steel::steel_vm::"):
            continue
        incs, decs = [], []
        for i, b in enumerate(fn.blocks):
            if b["c"]:
                continue
            for e in b["e"]:
                if e[0] == "binop" and e[1] in ("AddWithOverflow", "SubWithOverflow", "Add", "Sub") and \
                        any(re.search(r"^\(\*_1\)\.depth$", str(x)) for x in e[5:]) and \
                        any(ev[0] == "fld" and ev[1] == "VmCore" and ev[2] == "depth" for ev in b["e"]):
                    (incs if e[1].startswith("Add") else decs).append(i)
        if not incs:
            continue
        n += 1
        bad = None
        for i in incs:
            if i in fn.reachable_from(fn.succ(i), avoid=set(decs)):
                bad = (i, "comes round to itself without a decrement")
                break
            # (only where the function pairs them itself: an `enter` helper that only raises the counter is judged at its callers'
            # cycle clause above, not here)
            if decs and set(fn.returns()) & fn.reachable_from(fn.succ(i), avoid=set(decs)):
                bad = (i, "reaches a return without a decrement")
                break
        R.inst("C09.g", "%s / every increment of VmCore.depth is paired with a decrement" % fn.short(), bad is None,
               bad and ("%s raises VmCore.depth (line %s) on a path that %s: the counter grows with the number of turns, not with "
                        "the nesting — after enough errors handled inside native callbacks a flat loop is refused as a stack "
                        "overflow" % (fn.short(), fn.blocks[bad[0]].get("line") or "?", bad[1])), fn.loc(), sample=True)
    R.floor("C09.g", "functions raising VmCore.depth", n, 1)
