"""C06 — earlier definitions keep their meaning (DESIGN §4 C06).

Decided clauses (structural, necessary conditions):
  T  table agreement: every opcode the compiler gives a global-slot index (GIDX_C) is treated as a global
     index by the VM (GIDX_V), and every scanner that decides slot liveness or rewrites slot numbers covers
     every emittable global-index opcode that can occur in a closure body.
  H  trampoline header: a scanner of ByteCodeLambda.body_exp must look at ByteCodeLambda.header (the first
     opcode saved by jit_compile_lambda before it is overwritten) or match the trampoline opcode itself.
  B  rollback: the failure exit of program building restores the symbol table / module table.
  S  shadowed-slot bookkeeping: who may write the free list of global slots.
"""
import re

from . import lib, shared, c04, heapmodel
from .lib import CheckError


def scanners(F):
    """functions that walk a *closure body* and single out global-index opcodes: they read
    ByteCodeLambda.body_exp / SerializedLambda.body_exp and have a switch on OpCode in which CALLGLOBAL and PUSH
    share an arm — in their own body or in a predicate helper taking an OpCode that they call (one or two calls deep).
    Discovered, not listed, so a new scanner is covered. (Top-level Executable scanners such as eval_program are out of
    scope: top-level code does not outlive its evaluation.) Yields (scanner, switch block, opcodes of the arm, body
    kinds, function owning the switch)."""
    out = []
    for n, fn in F.fns.items():
        if not n.startswith("steel::") or "::jit2::" in n:
            continue
        body = [e[1] for _, _, e in fn.events("fld")
                if e[2] == "body_exp" and e[1] in ("ByteCodeLambda", "SerializedLambda", "SerializedLambdaPrototype")]
        if not body:
            continue
        owners = [fn]
        seen = {n}
        frontier = [fn]
        for _ in range(2):
            nxt = []
            for g in frontier:
                for _, cb in lib.family_calls(F, g):
                    c = cb["callee"]
                    if c in seen or c not in F.fns or not c.startswith("steel::"):
                        continue
                    seen.add(c)
                    h = F.fns[c]
                    if any("OpCode" in t for t in h.d.get("in", [])) and len(h.blocks) < 60:
                        owners.append(h)
                        nxt.append(h)
            frontier = nxt
        for own in owners:
            for sb in lib.enum_switches(own, "OpCode"):
                m = lib.arm_map(own, sb)
                if "CALLGLOBAL" in m and "PUSH" in m and m["CALLGLOBAL"] == m["PUSH"] and m["PUSH"] != m["_"]:
                    arm = sorted(v for v, t in m.items() if t == m["PUSH"] and v != "_")
                    out.append((fn, sb, arm, set(body), own))
    return out


def rollback_rule(F, R, rid):
    """failure exits of program building restore the symbol map / module table (shared by C06.B and C07.b)"""
    rollback_threshold_rule(F, R, rid)
    # ---- B rollback
    eng = F.one(r"\{impl Engine\}::raw_program_to_executable$")
    builds = eng.call_blocks(r"\{impl RawProgramWithSymbols\}::build$")
    if not builds:
        raise CheckError("anchor lost: Engine::raw_program_to_executable no longer calls RawProgramWithSymbols::build")
    for bb in builds:
        after = eng.reachable_from(eng.succ(bb))
        rb = [b for b in eng.call_blocks(r"\{impl SymbolMap\}::roll_back$") if b in after]
        mm = [b for b in eng.call_blocks(r"\{impl ModuleManager\}::rollback_metadata$") if b in after]
        dom = eng.dominators()
        lens = [b for b in eng.call_blocks(r"\{impl SymbolMap\}::len$") if b in dom.get(bb, ())]
        R.inst(rid, "Engine::raw_program_to_executable / symbol map rolled back after failed build", bool(rb),
               "no call to SymbolMap::roll_back is reachable after RawProgramWithSymbols::build: indices interned by "
               "a failed build stay in the symbol map and shift later definitions", eng.loc(), sample=True)
        R.inst(rid, "Engine::raw_program_to_executable / offset read before build", bool(lens),
               "SymbolMap::len is not read on every path before build(): the rollback offset would include the "
               "failed program's own symbols", eng.loc())
        R.inst(rid, "Engine::raw_program_to_executable / module metadata rolled back", bool(mm),
               "ModuleManager::rollback_metadata is not reachable after build()", eng.loc())
        # the Err edge: is_err()==true must lead to the rollback on every path to return
        for ie in [b for b in eng.call_blocks(r"\{impl Result<T,E>\}::is_err$") if b in after]:
            t, f = lib.bool_branch(eng, ie)
            if t is None:
                continue
            ok, w = eng.every_path_passes_from([t], eng.returns(), rb)
            R.inst(rid, "Engine::raw_program_to_executable / Err edge passes through roll_back", ok,
                   "a path from the is_err()==true edge reaches the return without SymbolMap::roll_back", eng.loc())
    comp = F.one(r"\{impl Compiler\}::compile_raw_program$")
    snap_w = [(i, e) for i, _, e in comp.events("fld") if e[1] == "ModuleManager" and e[2] == "compiled_modules"]
    writes = [i for i, e in snap_w if e[3].startswith("w") or e[3].startswith("d")]
    reads = [i for i, e in snap_w if not (e[3].startswith("w") or e[3].startswith("d"))]
    impl = comp.call_blocks(r"\{impl Compiler\}::compile_raw_program_impl$")
    if not impl:
        raise CheckError("anchor lost: Compiler::compile_raw_program no longer calls compile_raw_program_impl")
    dom = comp.dominators()
    after = comp.reachable_from(comp.succ(impl[0]))
    R.inst(rid, "Compiler::compile_raw_program / module table snapshot before compile",
           any(r in dom[impl[0]] for r in reads),
           "ModuleManager.compiled_modules is not read (snapshotted) before compile_raw_program_impl", comp.loc())
    R.inst(rid, "Compiler::compile_raw_program / module table restored on failure",
           any(w in after for w in writes),
           "ModuleManager.compiled_modules is never written back after compile_raw_program_impl: modules compiled by "
           "a failing evaluation stay registered", comp.loc())



RUNS_PROGRAM = (r"\{impl SteelThread\}::(run_executable|execute)$|\{impl VmCore(<'a>)?\}::vm$|"
                r"\{impl Engine\}::(run_raw_program|run_executable)$")


def rollback_only_before_run_rule(F, R, rid):
    """the symbol map is rolled back only while nothing of the program has run"""
    R.rule(rid, "roll-back is for programs that did not run: no call of SymbolMap::roll_back (nor of a function of the "
                "repository that calls it) is reachable, within its function, from a call that executes a program "
                "(SteelThread::run_executable / execute, VmCore::vm, Engine::run_raw_program). Once part of a program ran, "
                "the globals it bound are live and closures carry their slot numbers; forgetting the names makes "
                "SymbolMap::add hand the same slots to the next definitions, which then overwrite what those closures "
                "refer to")
    rb_rx = re.compile(r"^steel::compiler::map::\{impl SymbolMap\}::roll_back$")
    level0 = set(n for n, fn in F.fns.items() if n.startswith("steel::") and fn.call_blocks(rb_rx))
    if not level0:
        raise CheckError("anchor lost: nobody calls SymbolMap::roll_back")
    targets = {}
    for n, fn in F.fns.items():
        if not n.startswith("steel::"):
            continue
        blocks = [(i, "SymbolMap::roll_back") for i in fn.call_blocks(rb_rx)]
        blocks += [(i, lib.short_name(b["callee"])) for i, b in fn.calls() if b["callee"] in level0 and b["callee"] != n]
        if blocks:
            targets[n] = blocks
    k = 0
    for n, blocks in sorted(targets.items()):
        fn = F.fns[n]
        runs = fn.call_blocks(RUNS_PROGRAM)
        after_run = fn.reachable_from([s for r in runs for s in fn.succ(r)]) if runs else set()
        for i, what in blocks:
            k += 1
            R.inst(rid, "%s / %s only before the program ran" % (fn.short(), what), i not in after_run,
                   "%s calls %s (line %s) on a path that has already executed the program (line %s): the names the program "
                   "bound before it failed are forgotten although their slots hold live values; the next definitions are "
                   "given those slots and overwrite what surviving closures refer to" % (
                       fn.short(), what, fn.blocks[i].get("line"), fn.blocks[runs[0]].get("line") if runs else "?"),
                   fn.loc(fn.blocks[i].get("line")), sample=True)
    R.floor(rid, "roll-back call sites", k, 2)


def rollback_threshold_rule(F, R, rid):
    """SymbolMap::roll_back(index) keeps exactly the half-open range [0, index) in BOTH tables: either the map entries are
    removed by the names drained from `values` (coupled form), or the map's keep-predicate is `slot < index` — the same
    range that truncate(index)/drain(index..) keeps."""
    rb = F.one(r"^steel::compiler::map::\{impl SymbolMap\}::roll_back$")
    fam_calls = list(lib.family_calls(F, rb))
    drains = [b for _, b in fam_calls if re.search(r"Vec<T,A>\}::(drain|truncate|split_off)$", b["callee"])]
    removes = [b for _, b in fam_calls if re.search(r"HashMap<K,V,S[^}]*\}::remove$", b["callee"])]
    retains = [b for _, b in fam_calls if re.search(r"HashMap<K,V,S[^}]*\}::(retain|extract_if)$", b["callee"])]
    R.inst(rid, "SymbolMap::roll_back shrinks the value table", bool(drains),
           "SymbolMap::roll_back no longer drains/truncates SymbolMap.values", rb.loc(), sample=True)
    coupled = bool(removes) and any(re.search(r"::drain$", b["callee"]) for b in drains)
    pred_ok = None
    if retains and not coupled:
        pred_ok = False
        closures = [F.fns[e[1]] for _, _, e in rb.events("closure") if e[1] in F.fns]
        for c in closures:
            for _, _, e in c.events("binop"):
                if e[2] != "usize":
                    continue

                def is_capture(op):
                    return any(re.search(r"_1\)?\.0|\(\*_1\)", s_) for s_ in lib.alias_sources(c, op)) if op.startswith("_") else False

                lhs_cap, rhs_cap = is_capture(e[5]), is_capture(e[6])
                if (e[1] == "Lt" and rhs_cap and not lhs_cap) or (e[1] == "Gt" and lhs_cap and not rhs_cap):
                    pred_ok = True     # keep when slot < index
                elif e[1] in ("Le", "Ge", "Eq", "Ne", "Lt", "Gt"):
                    pred_ok = False
                    break
    R.inst(rid, "SymbolMap::roll_back / name table cut at the same point as the value table", coupled or bool(pred_ok),
           "SymbolMap::roll_back does not remove the names of exactly the drained slots: it neither feeds map.remove from "
           "values.drain(index..) nor keeps map entries with `slot < index`; a name registered by the failed program at the "
           "checkpoint index survives the rollback and resolves to a slot that no longer exists (host panic on use) or is "
           "handed to the next definition", rb.loc(), sample={"coupled": coupled, "retain_predicate_strict": pred_ok})

    # a name the rolled-back program REdefined must mean its previous definition again: after the cut the function writes
    # the name table (map.insert) with a slot it takes out of FreeList.shadowed_slots (the slot stops being a recycling
    # candidate). Without it the name is unbound after a failed build although nothing of the program ran.
    inserts = [i for i, b in fam_calls if re.search(r"HashMap<K,V,S[^}]*\}::insert$", b["callee"])]
    cut = [i for i, b in fam_calls if re.search(r"Vec<T,A>\}::(drain|truncate|split_off)$|HashMap<K,V,S[^}]*\}::(remove|retain|extract_if)$", b["callee"])]
    after_cut = rb.reachable_from([s_ for c in cut for s_ in rb.succ(c)]) if cut else set()
    reads_shadowed = any(e[1] == "FreeList" and e[2] == "shadowed_slots" for _, e in lib.family_events(F, rb, "fld"))
    takes = [i for i, b in fam_calls if re.search(r"Vec<T,A>\}::(remove|swap_remove|retain|pop|drain)$", b["callee"])]
    R.inst(rid, "SymbolMap::roll_back / a redefined name gets its previous slot back",
           any(i in after_cut for i in inserts) and reads_shadowed and any(i in after_cut for i in takes),
           "SymbolMap::roll_back only forgets the names of the failed program: a name that the program redefined is left "
           "unbound (its previous slot is still in FreeList.shadowed_slots and nothing maps to it) — after "
           "(define x 1) and a failing (begin (define x 2) (undefined-fn)), x is a free identifier", rb.loc(), sample=True)
    # … and it is the MOST RECENT of its earlier slots: shadowed_slots is in the order the slots were shadowed, so the previous
    # definition is found from the back (rposition / rfind / rev / pop / last / next_back); a forward search or a forward
    # retain pass hands back the OLDEST pending slot when the name was redefined more than once
    REV = r"::(rposition|rfind|rev|next_back|pop|last|rsplit|last_mut|nth_back|rfold|try_rfold)$"
    has_rev = any(re.search(REV, b["callee"]) for _, b in fam_calls)
    R.inst(rid, "SymbolMap::roll_back / the slot handed back is the most recently shadowed one", has_rev or not reads_shadowed,
           "SymbolMap::roll_back picks the slot that a redefined name gets back with a forward pass over "
           "FreeList.shadowed_slots (oldest first): a name with two or more earlier definitions still pending reverts to its "
           "OLDEST definition after a failed build — later code reads a stale value, and set! through the name writes a slot "
           "that the current functions do not read", rb.loc(), sample=True)


def shadow_bookkeeping_rule(F, R, rid):
    """every replacement of a name's slot in SymbolMap::add hands the previous slot to FreeList::add_shadowed
    (shared by C06.S and C19.g): the previous index returned by each map.insert must flow into add_shadowed"""
    add = F.one(r"^steel::compiler::map::\{impl SymbolMap\}::add$")
    ins = [i for i, b in add.calls() if re.search(r"HashMap<K,V,S[^}]*\}::insert$|::insert$", b["callee"])
           and any("InternedString" in t for t in b["targs"])]
    sh = add.call_blocks(r"\{impl FreeList\}::add_shadowed$")
    R.inst(rid, "SymbolMap::add records shadowed slot", bool(sh) and bool(ins),
           "SymbolMap::add no longer calls FreeList::add_shadowed for the previous index of a redefined name", add.loc(), sample=True)
    for i in ins:
        d = re.match(r"_\d+", add.blocks[i].get("dest") or "")
        flows = False
        if d:
            t = lib.tainted_locals(add, [d.group(0)])
            flows = any(any(x in t for x in re.findall(r"_\d+", a)) for s_ in sh for a in add.blocks[s_]["args"][1:])
        R.inst(rid, "SymbolMap::add / previous slot of a redefined name reaches add_shadowed", flows,
               "SymbolMap::add replaces the slot of an existing name (map.insert at line %s) and drops the previous slot "
               "index instead of recording it with FreeList::add_shadowed: the old global keeps its value alive forever "
               "and its slot is never reclaimed" % add.blocks[i]["line"], add.loc(add.blocks[i]["line"]), sample=True)


def run(F, R, ctx):
    _run(F, R, ctx)
    transitive_rescue_rule(F, R)
    later_assignment_rule(F, R)
    rollback_covers_slot_lists_rule(F, R)


def _run(F, R, ctx):
    R.rule("C06.T1", "GIDX_C ⊆ GIDX_V: every opcode that the index interner (DebruijnIndicesInterner) stamps with a "
                     "SymbolMap index is executed by an interpreter arm that uses the payload as a global-slot index")
    R.rule("C06.T2", "every bytecode scanner that singles out global-index opcodes (GlobalSlotRecycler::visit_closure, "
                     "ByteCodeLambda::from_serialized, …) lists every opcode in GIDX_V ∩ EMIT except BIND")
    R.rule("C06.H", "every such scanner reads ByteCodeLambda.header or matches OpCode::DynSuperInstruction, because "
                    "jit_compile_lambda overwrites body_exp[0].op_code with the trampoline opcode")
    R.rule("C06.B", "failure exits of program building roll the symbol map / module table back to a snapshot taken before")
    R.rule("C06.S", "global slots enter SymbolMap.free_list.free_list only in GlobalSlotRecycler (who-may-write) and "
                    "SymbolMap::add records the shadowed previous slot")
    R.assume("BIND never occurs inside a closure body (code_gen::visit_define is its only emitter and internal defines "
             "are rewritten to let forms before code generation) — assumed, not checked")

    gv = shared.gidx_vm(F)
    gc = shared.gidx_compiler(F)
    em = shared.emit_set(F)
    R.floor("C06.T1", "GIDX_C", len(gc), 6)
    R.floor("C06.T1", "GIDX_V", len(gv), 6)
    for op in sorted(gc):
        R.inst("C06.T1", "compiler-indexed opcode %s" % op, op in gv,
               "the compiler stores a global-slot index in %s (in %s) but no interpreter arm for it reaches "
               "Env::repl_*_idx" % (op, ",".join(sorted(gc[op]))),
               sample={"opcode": op, "vm_path": [lib.short_name(x) for x in gv.get(op, [])]})

    need = sorted(op for op in gv if op in em and op != "BIND")
    R.note("GIDX_V=%s; GIDX_C=%s; required in scanners (GIDX_V∩EMIT minus BIND)=%s." % (sorted(gv), sorted(gc), need))
    sc = scanners(F)
    R.floor("C06.T2", "scanners", len(sc), 3)
    names = [fn.name for fn, _, _, _, _ in sc]
    for want in (r"for GlobalSlotRecycler\}::visit_closure$", r"\{impl ByteCodeLambda\}::from_serialized$",
                 r"threads::closure_into_serializable$"):
        if not any(re.search(want, n) for n in names):
            raise CheckError("anchor lost: scanner /%s/ not recognised as a global-index scanner" % want)
    # does jit_compile_lambda (still) overwrite the first opcode?
    jl = F.one(r"^steel::steel_vm::vm::jit::jit_compile_lambda$")
    trampoline = any(e[1] == "OpCode" and e[2] == "DynSuperInstruction" for _, _, e in jl.events("agg"))
    for fn, sb, arm, body, own in sc:
        for op in need:
            R.inst("C06.T2", "%s / missing OpCode::%s" % (fn.short(), op), op in arm,
                   "%s scans closure bodies for global-slot references but its opcode set %s lacks %s, which the VM "
                   "executes as a global-slot access: a slot referenced only through %s is treated as dead / not "
                   "rewritten" % (fn.short(), arm, op, op), own.loc(own.blocks[sb]["line"]),
                   sample={"scanner": fn.short(), "arm": arm})
        if trampoline and "ByteCodeLambda" in body:
            hdr = [i for i, _, e in fn.events("fld") if e[1] == "ByteCodeLambda" and e[2] == "header"]
            before = bool(hdr)
            m = lib.arm_map(own, sb)
            matches_tramp = "DynSuperInstruction" in m and m["DynSuperInstruction"] != m["_"]
            R.inst("C06.H", "%s / ignores trampoline header" % fn.short(), before or matches_tramp,
                   "%s matches on ByteCodeLambda.body_exp[i].op_code but does not consult ByteCodeLambda.header before "
                   "or during the scan (nor match DynSuperInstruction); after jit_compile_lambda the first "
                   "instruction's opcode is the trampoline, so a global referenced by the first instruction is "
                   "invisible to this scanner" % fn.short(),
                   own.loc(own.blocks[sb]["line"]), sample={"scanner": fn.short(), "header_reads": len(hdr)})
    # ---- R recycler traversal: slot liveness is decided by walking every value reachable from the live globals
    R.rule("C06.R", "the global-slot recycler's walk is complete: each GlobalSlotRecycler::visit_<kind> reads every "
                    "handle-bearing field of the kind's payload on every path (same rule as C04.a), and visit_closure "
                    "scans the closure body on every path")
    c04.tracing_rule(F, R, "C06.R", ["GlobalSlotRecycler"], heapmodel.handle_bearing(F))
    vc = F.one(r"for GlobalSlotRecycler\}::visit_closure$")
    rb = heapmodel.reader_blocks(F, vc, "ByteCodeLambda", "body_exp")
    cut, _ = vc.every_path_passes_from([0], vc.returns(), rb)
    R.inst("C06.R", "GlobalSlotRecycler::visit_closure / body scanned on every path", bool(rb) and cut,
           "GlobalSlotRecycler::visit_closure can return without scanning ByteCodeLambda.body_exp: global slots referenced "
           "only by that closure's instructions are recycled while the closure is live", vc.loc(), sample=True)

    rollback_rule(F, R, "C06.B")
    rollback_only_before_run_rule(F, R, "C06.P")

    # ---- S bookkeeping
    writers = {}
    for n, fn in F.fns.items():
        if not n.startswith("steel::"):
            continue
        for i, j, e in fn.events("fld"):
            if e[1] == "FreeList" and e[2] == "free_list" and e[3][0] in "wm":
                writers.setdefault(n, set()).add(e[3])
    allowed = re.compile(r"(\{impl FreeList\}::pop_next_free$|\{impl SymbolMap\}::new$|for GlobalSlotRecycler\}|\{impl GlobalSlotRecycler\}|"
                         r"\{impl [^}]* for (FreeList|SymbolMap)\}|compiler::map::_::)")
    R.floor("C06.S", "writers of FreeList.free_list", len(writers), 2)
    for n in sorted(writers):
        R.inst("C06.S", "%s writes FreeList.free_list" % lib.short_name(n), bool(allowed.search(n)),
               "%s mutates the global-slot free list; only the recycler may add slots and only pop_next_free may take "
               "them" % lib.short_name(n), F.fns[n].loc(), sample=True)
    shadow_bookkeeping_rule(F, R, "C06.S")


def transitive_rescue_rule(F, R):
    R.rule("C06.Q", "the recycler keeps everything a rescued global refers to: a shadowed slot that the walk finds referenced "
                    "(removed from GlobalSlotRecycler.slots by the bytecode scan) holds a function that is still callable, so "
                    "its own references must be scanned too — (1) in the scanner the result of every `slots.remove(..)` is "
                    "branched on and the removed slot is recorded in a work-list field of the recycler, (2) "
                    "GlobalSlotRecycler::recycle drains that work-list in a loop, pushing the slot's value and visiting "
                    "again. Otherwise old f -> old g -> old h loses h: its slot is voided / handed to a later definition "
                    "while f can still reach it")
    sc = F.one(r"\{impl BreadthFirstSearchSteelValVisitor for GlobalSlotRecycler\}::visit_closure$")
    rec = F.one(r"\{impl GlobalSlotRecycler\}::recycle$")
    # the scan itself, or a method of the recycler it hands the slot to (two calls deep)
    owners = [sc]
    seen = {sc.name}
    for _, cb in lib.deep_calls(F, sc, depth=2):
        c = cb["callee"]
        if c in F.fns and c not in seen and re.search(r"GlobalSlotRecycler", c):
            seen.add(c)
            owners.append(F.fns[c])
    removes = [(g, i, b) for g in owners for i, b in g.calls() if re.search(r"HashSet<T,S,A>\}::remove$", b["callee"])]
    if not removes:
        raise CheckError("anchor lost: GlobalSlotRecycler::visit_closure no longer removes referenced slots from its candidate set")
    ok1 = True
    for g, i, b in removes:
        t, f = lib.bool_branch(g, i)
        rec_push = False
        if t is not None:
            region = g.reachable_from([t], avoid=[f] if f is not None else [])
            for x in region:
                blk = g.blocks[x]
                if blk["k"] == "call" and re.search(r"Vec<T,A>\}::push$", blk["callee"]) and blk["targs"] and \
                        blk["targs"][0] in ("usize",):
                    rec_push = True
        ok1 = ok1 and rec_push
    R.inst("C06.Q", "GlobalSlotRecycler::visit_closure / a rescued slot is recorded for scanning", ok1,
           "GlobalSlotRecycler::visit_closure drops the result of slots.remove(..): a shadowed global that is still referenced "
           "is kept, but the globals its own body refers to are not — after >100 redefinitions, old f -> old g -> old h calls "
           "#<void> or an unrelated later definition", removes[0][0].loc(removes[0][2]["line"]), sample=True)
    visits = [i for i, b in rec.calls() if re.search(r"GlobalSlotRecycler\}::visit$", b["callee"])]
    looped = [v for v in visits if v in rec.reachable_from(rec.succ(v))]
    reads_roots = any(re.search(r"Index<I> for \[T\]\}::index$|\{impl \[T\]\}::get$", b["callee"]) for i, b in rec.calls()
                      if any(v in rec.reachable_from(rec.succ(i)) and i in rec.reachable_from(rec.succ(v)) for v in looped))
    R.inst("C06.Q", "GlobalSlotRecycler::recycle / re-visits from the rescued slots until none is left",
           bool(looped) and reads_roots,
           "GlobalSlotRecycler::recycle visits once from the globals that are not candidates and never from the values of the "
           "candidate slots it found referenced: the walk is not transitive", rec.loc(), sample=True)


def later_assignment_rule(F, R):
    R.rule("C06.K", "what one evaluation assumes about a global must survive the next evaluation: the constant folder substitutes "
                    "the value of a definition for its uses after checking that nothing in the *current* program assigns it "
                    "(CollectSet); for a top-level definition that is not enough — a later evaluation may `set!` it — so the "
                    "recording of a definition as a constant (ConstantEnv::bind in ConstantEvaluator::visit_define) has to be "
                    "decided by the scope as well: dominated by a branch computed from the environment (its parent link, a "
                    "scope query), not only by 'the value is a constant'")
    fn = F.one(r"const_evaluation::\{impl ConsumingVisitor for ConstantEvaluator(<'a>)?\}::visit_define$")
    binds = fn.call_blocks(r"\{impl ConstantEnv\}::bind$")
    if not binds:
        raise CheckError("anchor lost: ConstantEvaluator::visit_define no longer calls ConstantEnv::bind")
    dom = fn.dominators()
    for k, bnd in enumerate(binds):
        scoped = False
        for sb in dom.get(bnd, ()):
            blk = fn.blocks[sb]
            if blk["k"] != "switch":
                continue
            loc = re.match(r"_\d+", blk.get("place", "").strip("()*"))
            if not loc:
                continue
            srcs = lib.alias_sources(fn, loc.group(0), depth=8) | {loc.group(0)}
            # produced by a query of the environment (a ConstantEnv / ConstantEvaluator method other than the recorders and
            # to_constant), or read from ConstantEnv.parent / a depth field of the evaluator
            for i, cb in fn.calls():
                d = re.match(r"_\d+", cb.get("dest") or "")
                if d and d.group(0) in srcs and re.search(r"\{impl Constant(Env|Evaluator(<'a>)?)\}::(?!bind$|bind_non_constant$|to_constant$)\w+$", cb["callee"]):
                    scoped = True
            if any(re.search(r"\.(parent|depth|scope_depth|lambda_depth)\b", x) for x in srcs):
                scoped = True
        R.inst("C06.K", "ConstantEvaluator::visit_define / a definition becomes a constant only where no later evaluation can assign it",
               scoped,
               "ConstantEvaluator::visit_define records every definition with a constant value for substitution, top-level ones "
               "included (line %s): a later evaluation that assigns the global is not seen by the code compiled earlier — "
               "one evaluation `(define x 10) (define (f) (+ x 1))`, then `(set! x 20)`, then `(f)` answers 11" % fn.blocks[bnd].get("line"),
               fn.loc(fn.blocks[bnd].get("line")), sample=True)


def rollback_covers_slot_lists_rule(F, R):
    R.rule("C06.L", "a rolled-back program leaves no slot number behind: every list of FreeList into which SymbolMap::add (in its "
                    "live code: branches on compile-time constants resolved) records a slot it hands out — directly or through a "
                    "FreeList method — is also adjusted by SymbolMap::roll_back. A slot number left in a candidate list after its "
                    "name was rolled back is given to the next definition, and the recycler later frees that definition's slot: "
                    "an unrelated later define takes it over")
    add = F.one(r"^steel::compiler::map::\{impl SymbolMap\}::add$")
    rb = F.one(r"^steel::compiler::map::\{impl SymbolMap\}::roll_back$")
    live = shared.live_blocks(add)

    def pushed_fields(fn, blocks=None):
        out = set()
        for i, b in fn.calls():
            if blocks is not None and i not in blocks:
                continue
            if re.search(r"Vec<T,A>\}::(push|insert|extend\w*)$", b["callee"]) and b["args"]:
                for s_ in lib.alias_sources(fn, b["args"][0]):
                    m = re.search(r"\.(\w+)$", s_)
                    if m and m.group(1) in FIELDS:
                        out.add(m.group(1))
        return out
    fl = [a_ for a_ in F.adts_short.get("FreeList", []) if a_["name"].startswith("steel::compiler::map::")]
    if len(fl) != 1:
        raise CheckError("anchor lost: compiler::map::FreeList")
    fl = fl[0]
    FIELDS = {f["name"] for v in fl["variants"] for f in v["fields"] if re.search(r"^Vec<usize", f["ty"])}
    rec = pushed_fields(add, live)
    for i, b in add.calls():
        if i in live and re.search(r"\{impl FreeList\}::", b["callee"]) and b["callee"] in F.fns:
            rec |= pushed_fields(F.fns[b["callee"]])
    R.inst("C06.L", "slot lists SymbolMap::add records into (derived)", bool(rec),
           "SymbolMap::add no longer records slots in any FreeList list (anchor changed)", add.loc(),
           sample={"lists": sorted(rec), "candidates": sorted(FIELDS)}, nontrivial=False)
    touched = {e[2] for _, e in lib.deep_events(F, rb, "fld", depth=2) if e[1] == "FreeList" and (e[3][0] in "wm" or "m" in e[3])}
    for fld in sorted(rec):
        R.inst("C06.L", "SymbolMap::roll_back adjusts FreeList.%s" % fld, fld in touched,
               "SymbolMap::add records the slots it hands out in FreeList.%s, but SymbolMap::roll_back never touches that list: "
               "after a failed build (a form with a liftable lambda and a free identifier) the list keeps slot numbers that the "
               "next definitions receive; at the next recycling those live definitions are voided and their slots handed to "
               "unrelated defines" % fld, rb.loc(), sample=True)
