"""C18 — deep, wide and cyclic values do not exhaust the host (DESIGN §4 C18).

Decided clauses:
  a  every value kind whose payload owns values again (an ownership cycle through SteelVal) has a Drop impl that goes
     through the iterative drop handler — compiler-generated drop glue recurses once per nesting level,
  b  the value operations hash / equality / printing do not recurse into themselves without a guard (call-graph SCC
     containing the operation's own entry point),
  c  cyclic termination of equality: the recursive equality handler consults its visited set before descending into each
     mutable container kind, and bounds its depth.
Out of the claim (stated, not decided): PartialOrd and the thread-send serialisers (into/from_serializable_value), and
nesting through transducers / reducers / continuations / iterators / syntax objects, whose depth is not script-controlled
in the way list/pair/vector/closure nesting is.
"""
import re

from . import lib, heapmodel as hm, c04
from .lib import CheckError

SV = "steel::rvals::SteelVal"
ITER = r"(IterativeDropHandler|DROP_BUFFER|list_drop_handler)"

# payload kinds excluded from C18.a with the reason
A_EXCLUDE = {
    "SteelComplex": "re/im are always real numbers (no nesting)",
    "Syntax": "syntax objects nest as deep as the source text that produced them (reader depth, see C12)",
    "Transducer": "composition depth is bounded by the number of compose calls written in the program, not by data",
    "Reducer": "holds one function and one initial value, no self-nesting constructor",
    "Continuation": "holds a snapshot of the stack; nesting requires capturing continuations inside captured stacks",
    "OpaqueIterator": "wraps one root value",
    "SteelHashSet": "elements must be hashed on insertion, so deep nesting already fails in Hash (reported under C18.b)",
}


def run(F, R, ctx):
    _run(F, R, ctx)
    reentrant_drop_rule(F, R)
    depth_counter_rule(F, R)
    iterative_visitor_rule(F, R)


def _run(F, R, ctx):
    R.rule("C18.a", "for each SteelVal variant whose payload type owns SteelVal again (ownership cycle through Gc/Vec/…; "
                    "weak handles excluded): the payload type (or the newtype wrapping it) has a manual Drop impl that "
                    "reaches the iterative drop handler (IterativeDropHandler / DROP_BUFFER)")
    R.rule("C18.b", "no unguarded self-recursion in value operations: the call-graph SCC containing <SteelVal as Hash>::hash, "
                    "<SteelVal as PartialEq>::eq, <SteelVal as Display/Debug>::fmt is trivial, or contains a depth guard "
                    "(stacker::maybe_grow / an explicit depth counter with an exit)")
    R.rule("C18.c", "RecursiveEqualityHandler consults should_visit (visited set) before descending into mutable containers "
                    "and bounds its depth (eq_depth); the printer's cycle detector bounds its depth")
    sv = F.adt("SteelVal")
    own = {}
    for n, a in F.adts.items():
        s = set()
        for v in a["variants"]:
            for f in v["fields"]:
                if hm.owning(f) and "HeapRef" not in f["ty"]:
                    s |= {m for m in f["mentions"] if m in F.adts}
        own[n] = s

    def reach(src):
        seen = {src}
        st = [src]
        while st:
            x = st.pop()
            for y in own.get(x, ()):
                if y not in seen:
                    seen.add(y)
                    st.append(y)
        return seen

    def iterative_drop(adt):
        d = adt.get("drop")
        if not d or d not in F.fns:
            return False
        fn = F.fns[d]
        if any(e[0] == "staticref" and re.search(ITER, e[1]) for _, _, e in fn.events()):
            return True
        return F.reaches(d, ITER, maxdepth=3) is not None

    n = 0
    for v in sv["variants"]:
        for f in v["fields"]:
            pts = [m for m in f["mentions"] if m in F.adts and m.startswith("steel") and m != SV]
            cyc = [p for p in pts if SV in reach(p)]
            for p in cyc:
                a = F.adts[p]
                n += 1
                if a["short"] in A_EXCLUDE:
                    R.inst("C18.a", "SteelVal::%s payload %s (excluded)" % (v["name"], a["short"]), True,
                           sample={"excluded": A_EXCLUDE[a["short"]]}, nontrivial=False)
                    continue
                ok = iterative_drop(a)
                R.inst("C18.a", "SteelVal::%s / %s has an iterative Drop" % (v["name"], a["short"]), ok,
                       "SteelVal::%s owns %s which owns SteelVal again, and %s has no Drop impl going through the iterative "
                       "drop handler: dropping a chain of n such values recurses n levels in compiler-generated drop glue "
                       "and overflows the native stack" % (v["name"], a["short"], a["short"]),
                       "%s:%s" % (a["file"], a["line"]), sample={"drop_impl": a.get("drop")})
    R.floor("C18.a", "value kinds with an ownership cycle", n, 8)

    # ---- d: the iterative drop handler descends into every owning field of every kind it takes apart
    R.rule("C18.d", "IterativeDropHandler::visit_<kind> reads every value-owning field of the kind's payload (the fields it "
                    "does not move onto its work-list are dropped by recursive drop glue)")
    DROP_ALLOW = {
        ("IterativeDropHandler", "ByteCodeLambda", "contract"): "a contract is a small fixed-shape struct, not a nesting constructor",
        ("IterativeDropHandler", "StackFrame", "attachments"): "frame attachments hold one handler closure and a weak mark",
        ("IterativeDropHandler", "StackFrameAttachments", "handler"): "see StackFrame.attachments",
    }
    c04.tracing_rule(F, R, "C18.d", ["IterativeDropHandler"], hm.handle_bearing(F), every_path=False, allow=DROP_ALLOW, floor=15)
    dh = F.one(r"\{impl IterativeDropHandler(<'a>)?\}::bfs$")
    R.inst("C18.d", "IterativeDropHandler::bfs runs the work-list visitor", bool(dh.call_blocks(r"::visit$", wrappers=True)),
           "IterativeDropHandler::bfs no longer drains its work-list", dh.loc(), sample=True)

    # ---- e: the printer looks cycle nodes up under the key the collector registered them with
    R.rule("C18.e", "sibling agreement between the cycle collector and the cyclic printer: for each container kind, "
                    "CycleDetector::start_format computes the node's key with the same address function "
                    "(Gc::as_ptr / HeapRef::as_ptr_usize / identity_tuple / SteelVal::as_ptr_usize) that "
                    "CycleCollector::visit_<kind> used when it registered the node; a different key makes the lookup's "
                    "unwrap() fail, i.e. printing such a cyclic value aborts the host")
    KEY = re.compile(r"::(as_ptr|as_ptr_usize|identity_tuple)$")
    kinds = {"heap_allocated": "HeapAllocated", "steel_struct": "CustomStruct", "list": "ListV", "immutable_vector": "VectorV",
             "hash_map": "HashMapV", "hash_set": "HashSetV", "boxed_value": "Boxed", "syntax_object": "SyntaxObject",
             "mutable_vector": "MutableVector", "pair": "Pair"}
    sf = F.one(r"\{impl CycleDetector\}::start_format$")
    sws_ = lib.enum_switches(sf, "SteelVal")
    if not sws_:
        raise CheckError("anchor lost: CycleDetector::start_format does not match on SteelVal")
    sw_ = max(sws_, key=lambda s_: len(sf.blocks[s_]["targets"]))
    m_ = lib.arm_map(sf, sw_)
    dom_ = sf.dominators()
    ne = 0
    for k, v in sorted(kinds.items()):
        fns = [f for n_, f in F.fns.items() if re.search(r"for CycleCollector(<[^}]*>)?\}::visit_%s$" % k, n_)]
        if not fns or v not in m_ or m_[v] == m_["_"]:
            continue
        ck = sorted(set(lib.short_name(b["callee"]) for _, b in lib.family_calls(F, fns[0])
                        if KEY.search(b["callee"]) and not re.search(r"HashMap|Option|RwLock", b["callee"])))
        if not ck:
            continue
        t_ = m_[v]
        region = [x for x in sf.reachable_from([t_], avoid={sw_}) if t_ in dom_.get(x, ())]
        dk = sorted(set(lib.short_name(sf.blocks[x]["callee"]) for x in region if sf.blocks[x]["k"] == "call"
                        and KEY.search(sf.blocks[x]["callee"]) and not re.search(r"HashMap|Option", sf.blocks[x]["callee"])))
        ne += 1
        R.inst("C18.e", "cycle key of %s: collector %s / printer %s" % (v, ",".join(ck), ",".join(dk)), ck == dk,
               "CycleCollector::visit_%s registers a %s node under %s but CycleDetector::start_format looks it up under %s: "
               "when such a node is itself the recorded cycle participant the lookup returns None and the unwrap() panics "
               "(printing the value aborts the host)" % (k, v, ck, dk), sf.loc(), sample=True)
    R.floor("C18.e", "container kinds compared", ne, 8)

    # ---- b
    ce, _ = F.graph()
    roots = {
        "hash": r"\{impl Hash for SteelVal\}::hash$",
        "eq": r"\{impl PartialEq(<SteelVal>)? for SteelVal\}::eq$",
        "display": r"\{impl Display for SteelVal\}::fmt$",
        "debug": r"\{impl Debug for SteelVal\}::fmt$",
    }
    for k, rx in roots.items():
        rs = [n_ for n_ in F.fns if re.search(rx, n_)]
        if len(rs) != 1:
            raise CheckError("anchor lost: %s root /%s/ found %d times" % (k, rx, len(rs)))
        root = rs[0]
        reach_ = F.reach([root], stop=lambda x: not x.startswith("steel"))
        reach_ = {x for x in reach_ if x in F.fns}
        comps = lib.sccs(sorted(reach_), lambda x: [c for c in ce.get(x, ()) if c in reach_])
        mine = [c for c in comps if root in c]
        guarded = False
        if mine:
            for fn_name in mine[0]:
                fn = F.fns[fn_name]
                if fn.call_blocks(r"stacker::(maybe_grow|grow)$") or fn.call_blocks(r"(increment_eq_depth|eq_depth)$"):
                    guarded = True
        R.inst("C18.b", "%s / recursion without depth guard" % lib.short_name(root), not mine or guarded,
               "%s is part of a call-graph cycle of %d functions (%s) with no depth guard on it: a value nested n levels "
               "deep — or a box that contains itself — recurses without bound and overflows the native stack" % (
                   lib.short_name(root), len(mine[0]) if mine else 0,
                   ", ".join(sorted(lib.short_name(x) for x in (mine[0] if mine else []))[:5])),
               F.fns[root].loc(), sample={"scc_size": len(mine[0]) if mine else 0})
    # ---- c
    hv = F.find(r"\{impl RecursiveEqualityHandler\}::visit$") or F.find(r"RecursiveEqualityHandler\}::visit$")
    if not hv:
        raise CheckError("anchor lost: RecursiveEqualityHandler::visit")
    fn = hv[0]
    # per arm: a kind whose payload is a mutable cell that can hold a SteelVal (HeapRef<..> / Gc<RwLock<..>>) is what closes
    # a cycle; its (kind, kind) arm must consult the visited set on every path before it descends into the contents
    from . import c11
    vfn, tup, top, pair_arm, hdr = c11._visit_tree(F)
    inserters = [n for n, f in F.fns.items() if "{impl RecursiveEqualityHandler" in n and f is not vfn and
                 any(e[1] == "RecursiveEqualityHandler" and e[2] == "visited" for _, _, e in f.events("fld"))]
    if not inserters:
        raise CheckError("anchor lost: no RecursiveEqualityHandler method touches .visited")
    fall = pair_arm("Void", "BoolV")
    cells = []
    for v in F.adt("SteelVal")["variants"]:
        for f in v["fields"]:
            if re.search(r"HeapRef<|RwLock<|RefCell<", f["ty"]) and ("SteelVal" in f["ty"]):
                cells.append(v["name"])
    R.floor("C18.c", "mutable cell kinds of SteelVal", len(cells), 3)
    DESC = r"EqualityVisitor as BreadthFirstSearchSteelValVisitor>::(visit_\w+|push_back)$"
    for k in sorted(set(cells)):
        e = pair_arm(k, k)
        if e == fall:
            R.inst("C18.c", "equality arm of mutable cell kind %s guards its descent" % k, True,
                   sample={"note": "no (kind,kind) arm: never descends"}, nontrivial=False)
            continue
        region = vfn.reachable_from([e], avoid=hdr)
        desc = [b for b in region if vfn.blocks[b]["k"] == "call" and re.search(DESC, lib.short_name(vfn.blocks[b]["callee"]))]
        guards = [b for b in region if vfn.blocks[b]["k"] == "call" and vfn.blocks[b]["callee"] in inserters]
        ok = True
        if desc:
            ok, _ = vfn.every_path_passes_from([e], desc, guards) if guards else (False, None)
        R.inst("C18.c", "equality arm of mutable cell kind %s guards its descent" % k, ok,
               "the (%s, %s) arm of RecursiveEqualityHandler::visit descends into the cell's contents without consulting "
               "the visited set: a cycle that runs only through cells of this kind (a box holding itself, two boxes "
               "holding each other) makes equal? loop forever" % (k, k), vfn.loc(vfn.blocks[e].get("line")),
               sample={"descend_calls": len(desc), "visited_tests": len(guards)})
    # cross-kind arms one side of which is a mutable cell (a mutable vector can hold the immutable vector that holds it)
    kinds = [v["name"] for v in F.adt("SteelVal")["variants"]]
    for k in sorted(set(cells)):
        for o in kinds:
            for (l_, r_) in ((k, o), (o, k)):
                if l_ == r_ or "Custom" in (l_, r_):
                    continue
                e = pair_arm(l_, r_)
                if e == fall:
                    continue
                region = vfn.reachable_from([e], avoid=hdr)
                desc = [b for b in region if vfn.blocks[b]["k"] == "call" and re.search(DESC, lib.short_name(vfn.blocks[b]["callee"]))]
                guards = [b for b in region if vfn.blocks[b]["k"] == "call" and vfn.blocks[b]["callee"] in inserters]
                ok = True
                if desc:
                    ok, _ = vfn.every_path_passes_from([e], desc, guards) if guards else (False, None)
                R.inst("C18.c", "equality arm (%s, %s) guards its descent" % (l_, r_), ok,
                       "the (%s, %s) arm of RecursiveEqualityHandler::visit descends into the contents without consulting the "
                       "visited set: a cycle that alternates between the two kinds (a mutable vector holding the immutable "
                       "vector that holds it) makes equal? loop forever" % (l_, r_), vfn.loc(vfn.blocks[e].get("line")),
                       sample={"descend_calls": len(desc), "visited_tests": len(guards)})
    depth = fn.call_blocks(r"rvals::cycles::eq_depth$") or [i for i, b in lib.family_calls(F, fn) if re.search(r"eq_depth$", b["callee"])]
    R.inst("C18.c", "RecursiveEqualityHandler::visit bounds its recursion depth", bool(depth),
           "RecursiveEqualityHandler::visit no longer tests eq_depth()", fn.loc(), sample=True)
    sh = F.one(r"RecursiveEqualityHandler\}::should_visit$")
    R.inst("C18.c", "should_visit records what it has seen", bool(sh.call_blocks(r"::(insert|contains)$", wrappers=True)) or
           any(re.search(r"::(insert|contains)$", b["callee"]) for _, b in lib.family_calls(F, sh)),
           "should_visit no longer inserts into / tests the visited set", sh.loc(), sample=True)
    ins = [i for i, b in sh.calls() if re.search(r"::insert$", b["callee"])]
    cut, _ = sh.every_path_passes_from([0], sh.returns(), ins)
    R.inst("C18.c", "should_visit records every pair it is asked about (no path bypasses the visited set)", bool(ins) and cut,
           "RecursiveEqualityHandler::should_visit can return without inserting the pair into the visited set: shared "
           "substructure is then compared once per path that reaches it (exponential in the depth of a value that shares "
           "its children) and a cycle through such a path does not terminate", sh.loc(), sample=True)
    fc = F.one(r"\{impl CycleDetector\}::format_with_cycles$")
    cmpd = [e for _, _, e in fc.events("binop") if e[1] in ("Gt", "Ge", "Lt", "Le") and e[2] == "usize"]
    R.inst("C18.c", "CycleDetector::format_with_cycles bounds its depth", bool(cmpd) or bool(fc.call_blocks(r"stacker::", wrappers=True)),
           "the recursive printer has no depth comparison: printing a deeply nested value overflows the native stack",
           fc.loc(), sample=True)


def reentrant_drop_rule(F, R):
    R.rule("C18.f", "a value dropped from inside the drop handler is still taken apart iteratively: in every Drop impl / drop "
                    "handler that borrows the shared DROP_BUFFER with try_borrow_mut, both outcomes — buffer free, buffer "
                    "already in use (the value is being dropped while IterativeDropHandler::bfs is running, e.g. as part of a "
                    "message owned by a value that is being discarded) — reach IterativeDropHandler::bfs on every path to the "
                    "return; otherwise the re-entrant case falls back to the recursive drop glue and a deep value overflows "
                    "the native stack")
    n = 0
    for name, fn in sorted(F.fns.items()):
        if not name.startswith("steel::"):
            continue
        tb = fn.call_blocks(r"RefCell<T>\}::try_borrow_mut$")
        if not tb:
            continue
        uses_buffer = any(e[0] in ("staticref", "constref") and "DROP_BUFFER" in e[1] for _, _, e in fn.events()) or \
            (fn.d.get("parent") and any(e[0] in ("staticref", "constref") and "DROP_BUFFER" in e[1]
                                        for _, _, e in F.fns[fn.d["parent"]].events())) if fn.d.get("parent") in F.fns else False
        bfs = fn.call_blocks(r"IterativeDropHandler\}::bfs$")
        if not bfs and not uses_buffer:
            continue
        n += 1
        starts = [fn.blocks[t]["ret"] for t in tb if fn.blocks[t].get("ret") is not None]
        ok = bool(bfs) and fn.every_path_passes_from(starts, fn.returns(), bfs)[0]
        owner = lib.short_name(fn.d.get("parent") or fn.name)
        R.inst("C18.f", "%s / iterative on both outcomes of try_borrow_mut" % owner, ok,
               "%s only uses the iterative drop handler when the shared drop buffer could be borrowed; when it is already in "
               "use (re-entrant drop) the contents are dropped by the recursive drop glue: a deeply nested value held by, "
               "say, an undelivered channel message overflows the native stack when its owner is discarded" % owner,
               fn.loc(), sample=True)
    R.floor("C18.f", "drop handlers borrowing the shared drop buffer", n, 5)


def depth_counter_rule(F, R):
    R.rule("C18.g", "a recursion-depth counter counts every level: in each function that bounds its own recursion with a counter "
                    "field (a field that it increments, compares with a constant and decrements: CycleDetector.depth in the "
                    "printer), no call back into the function is reachable from a decrement of the counter without passing an "
                    "increment again — the counter is given back only on the way out. A level that is entered with the "
                    "counter lowered does not count against the limit, so native recursion is no longer bounded by it "
                    "(a long chain of that kind of value overflows the host stack)")
    n = 0
    for name, fn in sorted(F.fns.items()):
        if not name.startswith("steel::rvals::"):
            continue
        selfcalls = [i for i, cb in fn.calls() if cb["callee"] == name]
        if not selfcalls:
            continue
        # counter fields: read in a block with an Add/Sub on usize of that field, written in the successor
        incs, decs = {}, {}
        for i, b in enumerate(fn.blocks):
            if b["c"]:
                continue
            for e in b["e"]:
                if e[0] == "binop" and e[1] in ("AddWithOverflow", "Add", "AddUnchecked", "SubWithOverflow", "Sub", "SubUnchecked") and len(e) > 6:
                    m_ = re.search(r"\.(\w+)$", str(e[5]))
                    if not m_ or e[6] != "const:1":
                        continue
                    fld = m_.group(1)
                    # the write of the same field follows
                    nxt = [i] + list(fn.succ(i))
                    if any(ev[0] == "fld" and ev[2] == fld and ev[3][0] == "w" for x in nxt for ev in fn.blocks[x]["e"]):
                        (incs if e[1].startswith("Add") else decs).setdefault(fld, set()).add(i)
        for fld in sorted(set(incs) & set(decs)):
            cmp_ = any(e[0] == "binop" and e[1] in ("Gt", "Ge", "Lt", "Le") for b in fn.blocks for e in b["e"])
            if not cmp_:
                continue
            n += 1
            bad = []
            for d in sorted(decs[fld]):
                reach = fn.reachable_from(fn.succ(d), avoid=incs[fld])
                hit = [c for c in selfcalls if c in reach]
                if hit:
                    bad.append((fn.blocks[d].get("line"), fn.blocks[hit[0]].get("line")))
            R.inst("C18.g", "%s / counter `%s` is lowered only on the way out" % (fn.short(), fld), not bad,
                   "%s lowers its depth counter `%s` (line %s) and then calls itself (line %s) before raising it again: that level "
                   "of the recursion is not counted, so the depth limit no longer bounds native recursion along that edge"
                   % (fn.short(), fld, bad[0][0] if bad else "", bad[0][1] if bad else ""), fn.loc(bad[0][0] if bad else None),
                   sample={"increments": len(incs[fld]), "decrements": len(decs[fld]), "self_calls": len(selfcalls)})
    R.floor("C18.g", "self-recursive functions with a depth counter", n, 1)


def iterative_visitor_rule(F, R):
    R.rule("C18.m", "the breadth-first value visitors are iterative: for every type that implements one of the "
                    "BreadthFirstSearch…Visitor traits (collector markers, slot recycler, cycle collector, drop handler, equality "
                    "visitor) the call graph over the type's own methods, its trait methods, their closures and the functions of "
                    "the same module that take the visitor has no cycle. Children are handed to the work queue; a visit method "
                    "that calls another visit method which can call it back descends natively once per level of the value")
    types = {}
    for n in F.fns:
        m = re.search(r"\{impl (BreadthFirstSearch\w+)(?:<[^{}]*>)? for ([\w<>',\s]+?)\}::", n)
        if m and n.startswith("steel::"):
            types.setdefault(re.sub(r"<.*", "", m.group(2)), set()).add(m.group(1))
    R.floor("C18.m", "types implementing a breadth-first visitor trait", len(types), 4)
    ce, _ = F.graph()
    for T in sorted(types):
        rx = re.compile(r"\{impl (?:\w+(?:<[^{}]*>)? for )?%s(?:<[^{}]*>)?\}::" % re.escape(T))
        nodes = [n for n in F.fns if rx.search(n)]
        mods = {n.split("::{impl")[0] for n in nodes}
        for n, fn in F.fns.items():
            if n not in nodes and n.split("::")[0] == "steel" and any(n.startswith(m + "::") for m in mods) and \
                    any(re.search(r"\b%s\b" % re.escape(T), t) for t in (fn.d.get("in") or [])):
                nodes.append(n)
        ns = set(nodes)

        def succ(x):
            return [c for c in ce.get(x, ()) if c in ns]
        cyc = [c for c in lib.sccs(nodes, succ) if len(c) > 1 or c[0] in succ(c[0])]
        first = sorted(cyc[0]) if cyc else []
        R.inst("C18.m", "%s visits through its queue (no call cycle among its methods)" % T, not cyc,
               cyc and ("the methods of %s call each other in a cycle: %s — each level of a nested value (a closure capturing a "
                        "variable that holds a closure …) is a native frame, so a deep chain alive at a collection / comparison / "
                        "drop overflows the native stack" % (T, " -> ".join(lib.short_name(x) for x in first))),
               F.fns[first[0]].loc() if first else "", sample={"methods": len(nodes), "traits": sorted(types[T])})
