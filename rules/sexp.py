"""A small S-expression reader for the Scheme library sources that ship inside steel-core (src/scheme/**.scm).

These files are part of the analysed program (they are include_str!'d into the binary and define dynamic-wind, call/cc,
parameterize, the printer, ...), but the MIR driver cannot see them.  This module gives the rule engine their syntax tree:
nested Python lists of `Sym`/`Lit` atoms with line numbers, plus `seq_order`, the order in which the sub-forms of a body are
evaluated (begin / when / unless / let / named-let bodies are sequences; lambda bodies are not entered).
Nothing is executed or expanded: rules are structural queries over the tree.
"""
import os
import re

from .lib import CheckError


class Sym(str):
    line = 0

    def __new__(cls, s, line=0):
        o = str.__new__(cls, s)
        o.line = line
        return o


class Lit(str):
    line = 0

    def __new__(cls, s, line=0):
        o = str.__new__(cls, s)
        o.line = line
        return o


class L(list):
    line = 0


_TOK = re.compile(r"""
    (?P<ws>\s+)|
    (?P<cmt>;[^\n]*)|
    (?P<bcmt>\#\|.*?\|\#)|
    (?P<dcmt>\#;)|
    (?P<open>[\(\[\{])|
    (?P<close>[\)\]\}])|
    (?P<str>"(?:\\.|[^"\\])*")|
    (?P<chr>\#\\(?:x[0-9a-fA-F]+|[A-Za-z]+|.))|
    (?P<q>'|`|,@|,|\#'|\#`|\#,@|\#,)|
    (?P<vec>\#\(|\#u8\()|
    (?P<atom>[^\s\(\)\[\]\{\}";]+)
""", re.X | re.S)

_QNAME = {"'": "quote", "`": "quasiquote", ",": "unquote", ",@": "unquote-splicing",
          "#'": "syntax", "#`": "quasisyntax", "#,": "unsyntax", "#,@": "unsyntax-splicing"}


def parse(text, path="<scheme>"):
    pos = 0
    line = 1
    stack = [L()]
    pending = []  # per depth: list of quote wrappers waiting for the next datum; '#;' is the marker None

    def emit(node):
        while pending and pending[-1][0] == len(stack):
            _, q, ql = pending.pop()
            if q is None:
                return  # datum comment
            w = L([Sym(q, ql), node])
            w.line = ql
            node = w
        stack[-1].append(node)

    n = len(text)
    while pos < n:
        m = _TOK.match(text, pos)
        if not m:
            raise CheckError("cannot tokenise %s at line %d" % (path, line))
        k = m.lastgroup
        s = m.group(0)
        if k == "open" or k == "vec":
            lst = L()
            lst.line = line
            if k == "vec":
                lst.append(Sym("#vector" if s == "#(" else "#bytes", line))
            stack.append(lst)
        elif k == "close":
            if len(stack) == 1:
                raise CheckError("unbalanced ')' in %s at line %d" % (path, line))
            lst = stack.pop()
            emit(lst)
        elif k == "str" or k == "chr":
            emit(Lit(s, line))
        elif k == "q":
            pending.append((len(stack), _QNAME[s], line))
        elif k == "dcmt":
            pending.append((len(stack), None, line))
        elif k == "atom":
            emit(Sym(s, line))
        line += s.count("\n")
        pos = m.end()
    if len(stack) != 1:
        raise CheckError("unbalanced '(' in %s (opened at line %d)" % (path, stack[-1].line))
    return stack[0]


def load(repo, rel):
    p = os.path.join(repo, rel)
    if not os.path.exists(p):
        raise CheckError("anchor lost: %s does not exist" % rel)
    return parse(open(p, encoding="utf-8").read(), rel)


def is_form(x, head=None):
    return isinstance(x, list) and len(x) > 0 and (head is None or x[0] == head)


def definitions(forms):
    """name -> value expression for top-level (define name expr) / (define (name . args) body...)"""
    out = {}
    for f in forms:
        if is_form(f, "define") and len(f) >= 3:
            if isinstance(f[1], list) and f[1]:
                lam = L([Sym("lambda", f.line), L(f[1][1:])] + list(f[2:]))
                lam.line = f.line
                out[str(f[1][0])] = lam
            elif isinstance(f[1], str):
                out[str(f[1])] = f[2]
    return out


def walk(x):
    """all sub-forms (lists), outermost first"""
    if isinstance(x, list):
        yield x
        for c in x:
            for y in walk(c):
                yield y


def lambda_body(lam):
    if is_form(lam, "lambda") or is_form(lam, "λ") or is_form(lam, "#%plain-lambda"):
        return lam[2:]
    return None


def seq_order(body):
    """evaluation order of the effectful forms of a body, as a flat list of call forms. Sequencing forms (begin, when,
    unless, if, let, let*, letrec, named let, cond) are opened; a call form is listed after its argument forms (applicative
    order); lambda bodies are NOT entered (they run later)."""
    out = []

    def ev(x):
        if not isinstance(x, list) or not x:
            return
        h = x[0]
        if isinstance(h, str):
            if h in ("quote", "quasiquote", "syntax"):
                return
            if h in ("lambda", "λ", "#%plain-lambda", "case-lambda"):
                return
            if h in ("begin", "when", "unless", "if", "and", "or"):
                for c in x[1:]:
                    ev(c)
                return
            if h in ("let", "let*", "letrec", "letrec*", "%plain-let"):
                rest = x[1:]
                if rest and isinstance(rest[0], str):  # named let
                    rest = rest[1:]
                if rest and isinstance(rest[0], list):
                    for b in rest[0]:
                        if isinstance(b, list) and len(b) >= 2:
                            ev(b[1])
                for c in rest[1:]:
                    ev(c)
                return
            if h == "cond":
                for cl in x[1:]:
                    if isinstance(cl, list):
                        for c in cl:
                            ev(c)
                return
            if h in ("set!", "define"):
                for c in x[2:]:
                    ev(c)
                out.append(x)
                return
        for c in x:
            ev(c)
        out.append(x)

    for b in body:
        ev(b)
    return out


def named_lets(x):
    """(name, bindings, body forms, form) for every named let inside x"""
    for f in walk(x):
        if is_form(f, "let") and len(f) >= 4 and isinstance(f[1], str) and isinstance(f[2], list):
            yield str(f[1]), f[2], f[3:], f


def show(x):
    if isinstance(x, list):
        return "(" + " ".join(show(c) for c in x) + ")"
    return str(x)
