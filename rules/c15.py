"""C15 — world-stopping sees other threads only while they are stopped (DESIGN §4 C15).

Decided clauses: (a) publish/retract pairing of the thread context pointer at safepoints, (c) who may dereference a
foreign thread pointer, and that every such use is bracketed by stop_threads / resume_threads, (s) stop/resume reach every
registered thread's controller.  Not decided: interleavings (two concurrent stoppers, registration races).
"""
import re

from . import lib
from .lib import CheckError


def ctx_stores(fn):
    out = []
    for i, b in fn.calls():
        if re.search(r"AtomicCell<T>\}::store$", b["callee"]) and any("SteelThread" in t for t in b["targs"]):
            val = b["args"][1] if len(b["args"]) > 1 else ""
            publish = val.startswith("_") and len(lib.alias_sources(fn, val)) > 1
            out.append((i, publish))
    return out


def run(F, R, ctx):
    _run(F, R, ctx)
    park_loop_rule(F, R)
    world_stop_wait_rule(F, R)
    registry_walk_rule(F, R)


def _run(F, R, ctx):
    R.rule("C15.a", "in every function that publishes its SteelThread pointer into Synchronizer.ctx (store of Some(ptr)), "
                    "every path from the publishing store to the return passes through a store of None (retract)")
    R.rule("C15.c", "raw dereferences of *mut SteelThread occur only in Synchronizer::{call_per_ctx, maybe_call_per_ctx, "
                    "enumerate_stacks}; each caller of those first calls stop_threads (dominating) and resume_threads is "
                    "reachable afterwards in the caller or in its caller")
    R.rule("C15.s", "stop_threads pauses, and resume_threads resumes and unparks, every registered thread (loop over "
                    "Synchronizer.threads) as well as the caller's own controller")
    pubs = []
    for n, fn in F.fns.items():
        if not n.startswith("steel::steel_vm::"):
            continue
        st = ctx_stores(fn)
        if any(p for _, p in st):
            pubs.append((fn, st))
    R.floor("C15.a", "functions publishing their thread context", len(pubs), 3)
    for fn, st in pubs:
        retracts = [i for i, p in st if not p]
        for i, p in st:
            if not p:
                continue
            # the publish and the retract are guarded by the same flag (self.safepoints_enabled): follow only the
            # paths on which the flag has the value it had at the publishing store, provided nothing writes it
            decided = {}
            dom = fn.dominators()
            for d in dom.get(i, ()):
                k = lib.switch_key(fn, d)
                if k:
                    blk = fn.blocks[d]
                    side_true = i in fn.reachable_from([blk["otherwise"]], avoid={d}) and \
                        not any(i in fn.reachable_from([t], avoid={d}) for v, t in blk["targets"] if v == "0")
                    if side_true:
                        fld = k.rsplit(".", 1)[1]
                        written = any(e[2] == fld and e[3][0] in "wm" for _, e in lib.family_events(F, fn, "fld"))
                        if not written:
                            decided[k] = True
            reach = lib.reachable_correlated(fn, fn.succ(i), set(retracts), decided)
            ok = not (reach & set(fn.returns()))
            R.inst("C15.a", "%s / published context is retracted on every exit" % fn.short(), ok,
                   "%s stores a pointer to its own SteelThread into Synchronizer.ctx (line %s) and can return without "
                   "storing None: another thread's collection would later dereference the pointer while this thread is "
                   "running again and mutating its stack" % (fn.short(), fn.blocks[i]["line"]), fn.loc(fn.blocks[i]["line"]),
                   sample=True)
    # the context stays published while the thread waits: the retract comes after the wait
    for fn, st in pubs:
        helpers = lib.park_helpers(F)
        waits = fn.call_blocks(r"Atomic(Bool|<bool>)\}::load$") + [i_ for i_, b_ in fn.calls() if b_["callee"] in helpers]
        dom = fn.dominators()
        for i, p in st:
            if p:
                continue
            R.inst("C15.a", "%s / context retracted only after the wait for resume" % fn.short(),
                   any(w in dom.get(i, ()) for w in waits),
                   "%s stores None into Synchronizer.ctx on a path that has not gone through the wait for the stop request to "
                   "end (paused flag / park): the stopping thread may read the pointer, then this thread resumes and mutates "
                   "its stack while it is being scanned — or the stopper never sees the context and waits forever" % fn.short(),
                   fn.loc(fn.blocks[i]["line"]), sample=True)
    # ---- c
    allowed = re.compile(r"^steel::steel_vm::vm::\{impl Synchronizer\}::(call_per_ctx|maybe_call_per_ctx|enumerate_stacks)(::\{closure#\d+\})*$")
    users = []
    for n, fn in F.fns.items():
        if not n.startswith("steel::") or "::jit2::" in n:
            continue
        k = [e for _, _, e in fn.events("rawderef") if e[1] == "SteelThread"]
        if k:
            users.append(fn)
    R.floor("C15.c", "functions dereferencing *mut SteelThread", len(users), 3)
    for fn in users:
        if re.search(r"^steel::steel_vm::vm::jit::", fn.name):
            continue  # JIT helpers receive their own thread's VmCore pointer from generated code
        R.inst("C15.c", "%s dereferences a SteelThread pointer" % fn.short(), bool(allowed.search(fn.name)),
               "%s dereferences a raw *mut SteelThread outside the three Synchronizer routines that are only used between "
               "stop_threads and resume_threads" % fn.short(), fn.loc(), sample=True)
    _, callers = F.graph()
    for nm in ("call_per_ctx", "maybe_call_per_ctx", "enumerate_stacks"):
        t = "steel::steel_vm::vm::{impl Synchronizer}::%s" % nm
        if t not in F.fns:
            raise CheckError("anchor lost: Synchronizer::%s" % nm)
        for c in sorted(callers.get(t, ())):
            fn = F.fns[c]
            uses = fn.call_blocks(r"\{impl Synchronizer\}::%s$" % nm)
            stops = fn.call_blocks(r"\{impl Synchronizer\}::stop_threads$")
            dom = fn.dominators()
            ok_stop = all(any(s in dom[u] for s in stops) for u in uses)
            R.inst("C15.c", "%s / stop_threads precedes %s" % (fn.short(), nm), ok_stop,
                   "%s calls Synchronizer::%s on a path that has not called stop_threads first: it reads another thread's "
                   "stack while that thread may be running" % (fn.short(), nm), fn.loc(), sample=True)
            res = fn.call_blocks(r"\{impl Synchronizer\}::resume_threads$")
            ok_res = all(any(r in fn.reachable_from(fn.succ(u)) for r in res) for u in uses)
            if not ok_res:
                # resume may be done by the (unique) caller after the call returns
                ok_res = any(F.fns[cc].call_blocks(r"\{impl Synchronizer\}::resume_threads$") for cc in callers.get(c, ()) if cc in F.fns)
            R.inst("C15.c", "%s / resume_threads follows %s" % (fn.short(), nm), ok_res,
                   "after Synchronizer::%s neither %s nor its caller resumes the stopped threads" % (nm, fn.short()), fn.loc(), sample=True)
    # ---- d: the stopper waits for each thread to publish its context (retry loop), it does not skip a running thread
    R.rule("C15.d", "Synchronizer::{enumerate_stacks, call_per_ctx} re-read a thread's published context in a loop until it is "
                    "present (or the thread is gone / its forked handle can be locked): the load of Synchronizer.ctx lies on a "
                    "CFG cycle, so a thread that has not reached its safepoint yet is waited for, not skipped")
    for nm in ("enumerate_stacks", "call_per_ctx"):
        fn = F.one(r"^steel::steel_vm::vm::\{impl Synchronizer\}::%s$" % nm)
        loads = [i for i, b in fn.calls() if re.search(r"AtomicCell<T>\}::load$", b["callee"]) and any("SteelThread" in t for t in b["targs"])]
        ok = bool(loads) and all(l in fn.reachable_from(fn.succ(l)) for l in loads)
        # the retry cycle must not contain the per-thread iterator advance (that would be 'next thread', not 'retry')
        nexts = set(i for i, b in fn.calls() if re.search(r"Iterator[^:]*::next$|::next$", b["callee"]))
        ok = ok and all(l in fn.reachable_from(fn.succ(l), avoid=nexts) for l in loads)
        R.inst("C15.d", "Synchronizer::%s waits for the context to be published" % nm, ok,
               "Synchronizer::%s reads a thread's context pointer once instead of retrying until the thread has parked at a "
               "safepoint: a thread that is still running is skipped, so its stack is not scanned / its environment not "
               "updated while the world is supposedly stopped" % nm, fn.loc(), sample=True)
    # ---- r: every interpreter thread is registered with the synchronizer, so that a stop request reaches it
    R.rule("C15.r", "every function that creates a thread handle for an interpreter thread (constructs ThreadHandle: "
                    "SteelThread::new, Engine::clone, spawn_native_thread, VmCore::make_thread, …) pushes a ThreadContext "
                    "for it into Synchronizer.threads; an unregistered thread is never stopped and its stack never scanned")
    creators = []
    for n, fn in F.fns.items():
        if not n.startswith("steel::") or fn.d["kind"] == "Closure":
            continue
        if re.search(r"\{impl Clone for Thread(Context|Handle)\}", n):
            continue
        if any(e[1] == "ThreadHandle" for _, e in lib.family_events(F, fn, "agg")):
            creators.append(fn)
    R.floor("C15.r", "thread-handle creators", len(creators), 4)
    for fn in creators:
        pushes = [b for _, b in lib.family_calls(F, fn) if re.search(r"Vec<T,A>\}::push$", b["callee"]) and b["targs"] and b["targs"][0] == "ThreadContext"]
        R.inst("C15.r", "%s registers the thread with the synchronizer" % fn.short(), bool(pushes),
               "%s creates a ThreadHandle but never pushes a ThreadContext into Synchronizer.threads: stop_threads / "
               "enumerate_stacks do not know the thread, so a collection runs while it mutates its stack and never marks what "
               "only it references" % fn.short(), fn.loc(), sample=True)
    # ---- e: every interpreter thread takes part in the protocol
    R.rule("C15.e", "SteelThread.safepoints_enabled (which gates publishing the context at safepoints) is initialised to true "
                    "in SteelThread::new, or else every function that creates a further interpreter thread writes it before "
                    "the thread exists")
    newf = F.one(r"^steel::steel_vm::vm::\{impl SteelThread\}::new$")
    st = F.adt("SteelThread")
    names = [f_["name"] for f_ in st["variants"][0]["fields"]]
    if "safepoints_enabled" not in names:
        raise CheckError("anchor lost: SteelThread.safepoints_enabled")
    idx = names.index("safepoints_enabled")
    init = [e[4][idx] for _, _, e in newf.events("agg") if e[1] == "SteelThread" and len(e[4]) == len(names)]
    if not init:
        raise CheckError("anchor lost: SteelThread::new does not construct SteelThread with a literal")
    if init[0] == "const:1":
        R.inst("C15.e", "SteelThread::new enables safepoints", True, sample={"initial": init[0]})
    else:
        for fn in creators:
            if fn.name == newf.name:
                continue
            wr = any(e[1] == "SteelThread" and e[2] == "safepoints_enabled" and e[3][0] == "w" for _, e in lib.family_events(F, fn, "fld"))
            R.inst("C15.e", "%s enables safepoints before the new thread exists" % fn.short(), wr,
                   "SteelThread::new initialises safepoints_enabled to %s and %s creates another interpreter thread without "
                   "setting it: neither thread publishes its context at safepoints, so a stop request waits for it forever or "
                   "proceeds while it runs" % (init[0], fn.short()), fn.loc(), sample=True)
    # ---- s
    for nm, ctl, extra in (("stop_threads", "pause_for_safepoint", None), ("resume_threads", "(resume|resume_from_safepoint)", r"Thread\}::unpark$")):
        fn = F.one(r"^steel::steel_vm::vm::\{impl Synchronizer\}::%s$" % nm)
        own = fn.call_blocks(r"\{impl ThreadStateController\}::%s$" % ctl)
        per = [b for _, b in lib.family_calls(F, fn) if re.search(r"\{impl ThreadStateController\}::%s$" % ctl, b["callee"])]
        reads_threads = any(e[1] == "Synchronizer" and e[2] == "threads" for _, e in lib.family_events(F, fn, "fld"))
        ok = bool(own) and len(per) >= 2 and reads_threads
        if extra:
            ok = ok and any(re.search(extra, b["callee"]) for _, b in lib.family_calls(F, fn))
        R.inst("C15.s", "Synchronizer::%s reaches its own and every registered controller" % nm, ok,
               "Synchronizer::%s no longer calls ThreadStateController::%s on its own state and on each registered thread%s"
               % (nm, ctl, " (and unpark)" if extra else ""), fn.loc(), sample=True)


def park_loop_rule(F, R):
    R.rule("C15.p", "a thread that waits by parking re-tests what it waits for: every call of std::thread::park in the runtime "
                    "lies on a loop (park returns spuriously, and immediately when the thread holds an unpark token left by an "
                    "earlier resume) — a stopped thread that treats the first return from park as 'the pause is over' runs "
                    "on while another thread is inspecting or replacing its stack and the global table")
    n = 0
    for name, fn in sorted(F.fns.items()):
        if not name.startswith("steel::"):
            continue
        for i, b in fn.calls():
            if re.search(r"thread::(functions::)?park(_timeout)?$", b["callee"]):
                n += 1
                on_loop = i in fn.reachable_from(fn.succ(i))
                R.inst("C15.p", "%s / park is inside a re-checking loop" % fn.short(), on_loop,
                       "%s parks once (line %s) and continues when park returns: park may return at once (stale unpark token "
                       "from an earlier resume_threads) or spuriously, so the thread leaves its safepoint while the pause flag "
                       "is still set and executes instructions during a stop-the-world operation" % (fn.short(), b["line"]),
                       fn.loc(b["line"]), sample=True)
    R.floor("C15.p", "park sites", n, 1)


def world_stop_wait_rule(F, R):
    R.rule("C15.w", "a global definition / assignment reaches every thread: SteelThread::with_locked_env hands the global table "
                    "to the other threads (before and after the update) only through Synchronizer functions whose per-thread "
                    "wait cannot give up — the broadcaster it calls (a Synchronizer method dereferencing the published "
                    "*mut SteelThread) neither takes a timeout nor reads a clock (Instant::elapsed / duration_since) on its "
                    "wait loop. A thread skipped after a timeout keeps the old table: it never sees the assignment, and its "
                    "next own definition publishes the stale table to everyone (lost update)")
    wle = F.one(r"^steel::steel_vm::vm::\{impl SteelThread\}::with_locked_env$")
    n = 0
    for i, cb in wle.calls():
        c = cb["callee"]
        g = F.fns.get(c)
        if g is None or not re.search(r"\{impl Synchronizer\}::", c):
            continue
        if not any(e[1] == "SteelThread" for _, _, e in g.events("rawderef")):
            continue
        n += 1
        clock = [lib.short_name(x["callee"]) for _, x in lib.deep_calls(F, g, depth=2)
                 if re.search(r"Instant\}?::(elapsed|duration_since|checked_duration_since|saturating_duration_since)$", x["callee"])]
        R.inst("C15.w", "with_locked_env / broadcast #%d through %s waits without a deadline" % (n, lib.split_path(c)[-1]), not clock,
               "SteelThread::with_locked_env hands the global table to the other threads through %s (line %s), whose wait reads "
               "a clock (%s): a thread that is not at a safepoint when the deadline passes is skipped, keeps the old global "
               "table and later overwrites everyone's with it" % (lib.short_name(c), cb["line"], ", ".join(sorted(set(clock)))),
               wle.loc(cb["line"]), sample=True)
    R.floor("C15.w", "broadcasts of the global table in with_locked_env", n, 2)


def registry_walk_rule(F, R):
    R.rule("C15.v", "a walk over the thread registry visits every entry: in each Synchronizer method that iterates "
                    "Synchronizer.threads (stop_threads, resume_threads, call_per_ctx, maybe_call_per_ctx, enumerate_stacks) "
                    "the outermost loop over the registry is left only where the iteration is exhausted (the None outcome of "
                    "next() / get(i)) or towards a panic — never from inside the body (a `break` at an entry whose thread has "
                    "exited ends the walk for every entry registered after it). nc: the threads behind the break are not "
                    "stopped, drained or handed the new global table, so they never see a completed define / set!")
    n = 0
    for name, fn in sorted(F.fns.items()):
        if not re.search(r"\{impl Synchronizer\}::\w+$", name) or not name.startswith("steel::"):
            continue
        if not any(e[1] == "Synchronizer" and e[2] == "threads" for _, _, e in fn.events("fld")):
            continue
        heads = [(i, b) for i, b in fn.calls()
                 if (re.search(r"Iterator for Iter<T>\}::next$|\{impl \[T\]\}::get$|Iterator for IterMut<T>\}::next$", b["callee"])
                     and any("ThreadContext" in t for t in b["targs"]))]
        if not heads:
            continue
        nodes = [i for i, b in enumerate(fn.blocks) if not b["c"]]
        comps = lib.sccs(nodes, lambda x: [t for t in fn.succ(x)])
        for h, hb in heads:
            comp = [c for c in comps if h in c and len(c) > 1]
            if not comp:
                continue
            comp = set(comp[0])
            # the switch on the iteration's result
            nxt, hops = hb.get("ret"), 0
            while nxt is not None and fn.blocks[nxt]["k"] == "goto" and hops < 3:
                nxt, hops = fn.blocks[nxt]["s"][0], hops + 1
            n += 1
            bad = []
            for u in comp:
                for v in fn.succ(u):
                    if v in comp or u == nxt:
                        continue
                    # leaving towards a panic / unreachable only is fine
                    r = fn.reachable_from([v])
                    if any(x in r for x in fn.returns()):
                        bad.append((u, v))
            R.inst("C15.v", "%s / the registry loop ends only when the registry is exhausted" % fn.short(), not bad,
                   "%s leaves its loop over Synchronizer.threads from inside the body (block at line %s) and goes on to return: "
                   "the entries after that point are never visited — a thread registered after one that has exited is not "
                   "stopped / resumed / handed the new global table" % (
                       fn.short(), fn.blocks[bad[0][0]].get("line") if bad else ""), fn.loc(fn.blocks[bad[0][0]].get("line") if bad else None),
                   sample=True)
    R.floor("C15.v", "walks over the thread registry", n, 3)
