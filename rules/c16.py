"""C16 — threads always make progress (DESIGN §4 C16).

Decided clauses: (a) native primitives are invoked inside a safepoint at every call-dispatch site (sibling agreement
between interpreter and JIT helpers), so a blocking primitive never holds up a stop-the-world request; (b) native loop
back-edges poll; (c) the stop-the-world waits have a liveness exit.  Not decided: deadlock freedom between concurrent
stop requests, exactly-once join results, channel ordering.
"""
import re

from . import lib, c17
from .lib import CheckError

SIG = re.compile(r"^fn\(&\[SteelVal\]\)->Result<SteelVal")

# primitive invocations that are not call dispatch of running script threads: (function regex, reason)
EXEMPT = [
    (r"\{impl ConstantEvaluator\}::eval_function$", "compile-time constant folding, on the compiling thread before the program runs"),
    (r"primitives::lists::list_sort::\{closure#\d+\}$", "comparator callback inside list sort; the list primitive itself is dispatched through a wrapped site"),
    (r"\{impl SteelThread\}::call_function(_from_mut_slice)?$", "embedding API entry: called by the host on its own thread, outside script dispatch"),
    (r"^steel::steel_vm::vm::call_cc$", "call/cc applied directly to a native primitive: the primitive receives a continuation object"),
]


def run(F, R, ctx):
    _run(F, R, ctx)
    if "sync" in (F.meta.get("features") or []):
        world_lock_rule(F, R)
        parked_published_rule(F, R)
        registry_rule(F, R)
        stoppers_serialised_rule(F, R)
        no_foreign_lock_across_stop_rule(F, R)
        protocol_handles_read_only_rule(F, R)
    queue_guard_rule(F, R)


def _run(F, R, ctx):
    R.rule("C16.a", "every indirect call of a native primitive (fn(&[SteelVal]) -> Result<SteelVal>) in the VM's dispatch "
                    "code (steel_vm::vm, jit helpers, transducers, lazy streams) lies inside a closure passed to "
                    "SteelThread::enter_safepoint / enter_safepoint_once")
    R.rule("C16.b", "every native loop back-edge emitter is accompanied by a polling helper")
    R.rule("C16.c", "the unbounded waits of Synchronizer::{enumerate_stacks, call_per_ctx} on another thread's context exit "
                    "when that thread is gone (Weak::upgrade == None)")
    sites = []
    for n, fn in F.fns.items():
        if not re.search(r"^steel::(steel_vm::|primitives::lists::list_sort)", n) or "::jit2::" in n:
            continue
        for i, b in fn.calls():
            if b["how"] == "p" and SIG.match(b["decl"]):
                sites.append((fn, b))
    R.floor("C16.a", "native primitive invocation sites", len(sites), 25)
    seen = set()
    for fn, b in sites:
        key = fn.short()
        if key in seen:
            continue
        seen.add(key)
        ex = [r for rx, r in EXEMPT if re.search(rx, fn.name)]
        if ex:
            R.inst("C16.a", "%s (exempt)" % key, True, sample={"exempt": ex[0]}, nontrivial=False)
            continue
        ok = False
        if fn.d["kind"] == "Closure" and fn.d.get("parent"):
            # the closure must be the argument of an enter_safepoint* call somewhere in its enclosing function tree
            parent = fn.d["parent"]
            holders = [F.fns[parent]] + [f for f in F.fns.values() if f.d.get("parent") == parent]
            for h in holders:
                for _, cb in h.calls():
                    if re.search(r"\{impl SteelThread\}::enter_safepoint(_once)?$", cb["callee"]) and \
                            any(fn.name in t for t in cb["targs"]):
                        ok = True
        R.inst("C16.a", "%s / primitive called inside a safepoint" % key, ok,
               "%s invokes a native primitive (line %s) outside SteelThread::enter_safepoint*: if the primitive blocks "
               "(channel/recv, thread-join!, a read), a collection or definition on another thread waits for this thread "
               "forever, unlike at the sibling dispatch sites which wrap the call" % (key, b["line"]), fn.loc(b["line"]),
               sample=True)
    c17.native_backedge_rule(F, R, "C16.b", "a thread in a compiled loop never reaches a safepoint, so a collection or "
                                            "definition on another thread waits forever")
    for nm in ("enumerate_stacks", "call_per_ctx"):
        fn = F.one(r"^steel::steel_vm::vm::\{impl Synchronizer\}::%s$" % nm)
        ups = [i for i, b in fn.calls() if re.search(r"Weak<T(,A)?>\}::upgrade$", b["callee"]) and any("AtomicCell" in t for t in b["targs"])]
        loads = [i for i, b in fn.calls() if re.search(r"AtomicCell<T>\}::load$", b["callee"]) and any("SteelThread" in t for t in b["targs"])]
        nexts = set(i for i, b in fn.calls() if re.search(r"::next$", b["callee"]))
        ok = bool(ups) and bool(loads)
        for l in loads:
            fwd = fn.reachable_from(fn.succ(l), avoid=nexts)
            cyc = {b for b in fwd if l in fn.reachable_from(fn.succ(b), avoid=nexts)} | ({l} if l in fwd else set())
            # the liveness test of the awaited thread (upgrade of its weak context) is repeated on every spin
            ok = ok and any(u in cyc for u in ups)
        R.inst("C16.c", "Synchronizer::%s / wait exits when the thread is gone" % nm, ok,
               "Synchronizer::%s does not re-check Weak::upgrade of the awaited thread's context inside its wait loop (the "
               "upgrade is missing or hoisted out of the loop, which also pins the context alive): a thread that exits while "
               "it is being waited for is waited for forever, with the heap lock held" % nm, fn.loc(), sample=True)


HEAP_LOCK_ALLOW = {
    "Engine::deep_clone": "copies the heap of an engine into a new, not yet running engine",
}

LOCK_ALLOW = {
    "SteelThread::new": "constructs the first thread of an engine: no other thread of this runtime exists yet",
    "<Engine as Clone>::clone": "host API on the host's own thread (not a running script thread): it is not among the threads a "
                                "stop request waits for until this registration has happened",
}


def world_lock_rule(F, R):
    R.rule("C16.d", "the lock a stop-the-world coordinator holds while it waits is never waited for outside a safepoint: the "
                    "mutex fields locked by the Synchronizer methods that contain an unbounded wait for other threads "
                    "(enumerate_stacks, call_per_ctx, …) are derived; every other function that locks one of them does so "
                    "inside a closure passed to SteelThread::enter_safepoint*, or is a Synchronizer method, or is allowlisted "
                    "(no second thread can exist yet). Otherwise that thread blocks unpublished on the lock while the "
                    "coordinator, holding it, waits for the thread to publish: deadlock")
    # 1. world locks: Synchronizer fields read in a Synchronizer method that has a wait cycle (spin/yield/park on a loop)
    sync_fns = [f for n, f in F.fns.items() if "{impl Synchronizer}::" in n]
    waiters = []
    for f in sync_fns:
        for i, b in f.calls():
            if re.search(r"spin_loop$|yield_now$|thread::.*park$|thread::sleep$|AtomicCell<T>\}::load$", b["callee"]) and \
                    i in f.reachable_from(f.succ(i)):
                waiters.append(f)
                break
    if not waiters:
        raise CheckError("anchor lost: no Synchronizer method with a wait loop")
    locks = set()
    for f in waiters:
        if not f.call_blocks(r"Mutex<T>\}::lock$"):
            continue
        for _, _, e in f.events("fld"):
            if e[1] == "Synchronizer" and re.search(r"Mutex<", _field_ty(F, "Synchronizer", e[2]) or ""):
                locks.add(e[2])
    R.inst("C16.d", "world-stop locks derived", bool(locks), "no mutex field of Synchronizer is locked by a waiting coordinator "
           "(the rule has nothing to protect: anchor changed)", sample={"locks": sorted(locks), "waiters": [f.short() for f in waiters]})
    n = 0
    for name, fn in sorted(F.fns.items()):
        if not name.startswith("steel::") or "{impl Synchronizer}::" in name:
            continue
        touched = [e[2] for _, _, e in fn.events("fld") if e[1] == "Synchronizer" and e[2] in locks]
        if not touched or not fn.call_blocks(r"Mutex<T>\}::(lock|try_lock)$"):
            continue
        n += 1
        key = fn.short()
        if key in LOCK_ALLOW:
            R.inst("C16.d", "%s locks Synchronizer.%s (allowlisted)" % (key, touched[0]), True,
                   sample={"reason": LOCK_ALLOW[key]}, nontrivial=False)
            continue
        ok = False
        if fn.d["kind"] == "Closure" and fn.d.get("parent"):
            parent = fn.d["parent"]
            holders = [F.fns[parent]] + [f for f in F.fns.values() if f.d.get("parent") == parent]
            for h in holders:
                for i, b in h.calls():
                    if re.search(r"\{impl SteelThread\}::enter_safepoint(_once)?$", b["callee"]) and \
                            any(e[0] == "closure" and e[1] == fn.name for e in b["e"]):
                        ok = True
        R.inst("C16.d", "%s locks Synchronizer.%s inside a safepoint" % (key, touched[0]), ok,
               "%s waits for the mutex Synchronizer.%s outside SteelThread::enter_safepoint: a thread that is stopping the "
               "world (global definition / assignment, collection) holds that mutex while it waits for every thread to "
               "publish itself at a safepoint, so this thread — blocked on the mutex, unpublished — is waited for forever" % (
                   key, touched[0]), fn.loc(), sample=True)
    R.floor("C16.d", "mutator-side lock sites of the world-stop lock", n, 3)
    # 2. the heap lock: a collection runs under it (Heap methods reach the stop-the-world wait), so it is a world lock too
    heap_stops = any(F.reaches(f.name, r"\{impl Synchronizer\}::enumerate_stacks$", maxdepth=6)
                     for nme, f in F.fns.items() if re.search(r"closed::\{impl Heap\}::allocate$", nme))
    R.inst("C16.d", "the heap lock is a world-stop lock (Heap::allocate can reach enumerate_stacks)", heap_stops,
           "Heap::allocate no longer reaches the stop-the-world wait: the heap-lock part of this rule has nothing to protect "
           "(anchor changed)", sample=True, nontrivial=False)
    m = 0
    for name, fn in sorted(F.fns.items()):
        if not name.startswith("steel::"):
            continue
        if not any(e[1] == "SteelThread" and e[2] == "heap" for _, _, e in fn.events("fld")):
            continue
        lk = [cb for _, cb in fn.calls() if re.search(r"Mutex<R,T>\}::(lock|lock_arc)$|Mutex<T>\}::lock$", cb["callee"])]
        if not lk:
            continue
        m += 1
        key = fn.short()
        if key in HEAP_LOCK_ALLOW:
            R.inst("C16.d", "%s locks SteelThread.heap (allowlisted)" % key, True,
                   sample={"reason": HEAP_LOCK_ALLOW[key]}, nontrivial=False)
            continue
        ok = False
        if fn.d["kind"] == "Closure" and fn.d.get("parent"):
            parent = fn.d["parent"]
            holders = [F.fns[parent]] + [f for f in F.fns.values() if f.d.get("parent") == parent]
            for h in holders:
                for i, b in h.calls():
                    if re.search(r"\{impl SteelThread\}::enter_safepoint(_once)?$", b["callee"]) and \
                            any(e[0] == "closure" and e[1] == fn.name for e in b["e"]):
                        ok = True
        R.inst("C16.d", "%s locks SteelThread.heap inside a safepoint" % key, ok and heap_stops,
               "%s waits for the heap mutex (line %s) outside SteelThread::enter_safepoint: the thread that holds it may be "
               "running a collection and waiting for every thread to publish itself at a safepoint, so this thread — blocked on "
               "the mutex, unpublished — is waited for forever (several threads allocating boxes under the JIT hang)" % (
                   key, lk[0]["line"]), fn.loc(lk[0]["line"]), sample=True)
    R.floor("C16.d", "lock sites of the heap mutex", m, 8)


def _field_ty(F, adt_short, field):
    a = F.adt(adt_short)
    for v in a["variants"]:
        for f in v["fields"]:
            if f["name"] == field:
                return f["ty"]
    return None


def parked_published_rule(F, R):
    R.rule("C16.e", "a thread that parks at the instruction-boundary poll is visible to a stop-the-world coordinator: in "
                    "VmCore::safepoint_or_interrupt every call of park_thread_while_paused is dominated by a store into "
                    "Synchronizer.ctx (publishing the thread) and followed by another one (retracting it) — sibling agreement "
                    "between the PausedAtSafepoint and the Suspended arm; a thread parked unpublished is waited for forever by "
                    "the next global definition, assignment or collection on another thread")
    fn = F.one(r"^steel::steel_vm::vm::\{impl VmCore\}::safepoint_or_interrupt$")
    park_rx = "^(" + "|".join(re.escape(n_) for n_ in sorted(lib.park_helpers(F)) if n_ != fn.name) + ")$"
    # the poll itself and the VmCore helpers it parks through (two calls deep)
    hosts = [fn]
    seen = {fn.name}
    for _, cb in lib.deep_calls(F, fn, depth=2):
        c = cb["callee"]
        if c in F.fns and c not in seen and re.search(r"\{impl VmCore\}::", c) and not re.search(park_rx, c):
            seen.add(c)
            if F.fns[c].call_blocks(park_rx):
                hosts.append(F.fns[c])
    nparks = 0
    published_hosts = set()
    for g in hosts:
        parks = g.call_blocks(park_rx)
        stores = [i for i, b in g.calls() if re.search(r"AtomicCell<T>\}::store$", b["callee"]) and b["targs"] and
                  "SteelThread" in b["targs"][0]]
        dom = g.dominators()
        allok = bool(parks)
        for k, p in enumerate(sorted(parks)):
            nparks += 1
            before = [s_ for s_ in stores if s_ in dom[p] and p in g.reachable_from(g.succ(s_))]
            # published in this arm: the nearest ThreadState switch target dominating the park also dominates the store
            sws = [sb for sb in lib.enum_switches(g, "ThreadState") if sb in dom[p]]
            in_arm = [s_ for s_ in before if any(sb in dom[s_] for sb in sws)] if sws else before
            after = [s_ for s_ in stores if s_ in g.reachable_from(g.succ(p))]
            ok = bool(in_arm) and bool(after)
            allok = allok and ok
            R.inst("C16.e", "%s / park #%d happens published" % (lib.split_path(g.name)[-1], k), ok,
                   "%s parks the thread (line %s) without publishing it in Synchronizer.ctx first: a "
                   "thread suspended with thread-suspend is never seen at a safepoint, so (define …) / (set! …) / a collection "
                   "on any other thread hangs" % (g.short(), g.blocks[p].get("line")), g.loc(g.blocks[p].get("line")), sample=True)
        if allok:
            published_hosts.add(g.name)
    if nparks == 0:
        raise CheckError("anchor lost: safepoint_or_interrupt no longer parks through a helper that waits by parking in a loop")
    # both pausing states park (sibling agreement between the arms)
    tsw = lib.enum_switches(fn, "ThreadState")
    if not tsw:
        raise CheckError("anchor lost: safepoint_or_interrupt does not match on ThreadState")
    narms = 0
    for sb in tsw:
        am = lib.arm_map(fn, sb)
        for v in ("Suspended", "PausedAtSafepoint"):
            if v not in am:
                continue
            narms += 1
            others = {t for k_, t in am.items() if t != am[v]}
            region = fn.reachable_from([am[v]], avoid=others)
            parks_here = any(fn.blocks[x]["k"] == "call" and (re.search(park_rx, fn.blocks[x]["callee"]) or
                                                             fn.blocks[x]["callee"] in published_hosts) for x in region)
            R.inst("C16.e", "safepoint_or_interrupt / the %s arm parks published" % v, parks_here,
                   "VmCore::safepoint_or_interrupt: the ThreadState::%s arm does not park the thread through a published "
                   "park_thread_while_paused (directly or in a helper): the thread keeps running while it is meant to be "
                   "paused, or parks invisibly" % v, fn.loc(fn.blocks[sb].get("line")), sample=True)
    R.floor("C16.e", "pausing states handled in the poll", narms, 2)


def registry_rule(F, R, rid="C16.r"):
    R.rule(rid, "a thread stays in the registry for as long as it can still park: stop_threads / resume_threads / enumerate_stacks "
                "walk Synchronizer.threads, so a thread that can still reach a safepoint must be in it. The registry only "
                "grows, or — where something shrinks it (retain / remove / swap_remove / drain / clear / pop / truncate on the "
                "field) — what is dropped is decided by the liveness of the entry's context (Weak::upgrade / strong_count in "
                "the predicate), never by identity with the running thread. nc: a thread that unregisters itself and then "
                "finds the world stopped at its next safepoint exit parks, and resume_threads — walking the registry — never "
                "unparks it; thread-join! on it hangs")
    SHR = r"::(retain|retain_mut|remove|swap_remove|drain|clear|pop|truncate|split_off)$"
    grows, n = 0, 0
    for name, fn in sorted(F.fns.items()):
        if not name.startswith("steel::"):
            continue
        acc = [i for i, _, e in fn.events("fld") if e[1] == "Synchronizer" and e[2] == "threads"]
        if not acc:
            continue
        after = set()
        for a in acc:
            after |= fn.reachable_from([a])
        for i, b in fn.calls():
            if i not in after:
                continue
            if re.search(r"Vec<T,A>\}::push$", b["callee"]) and b["targs"] and "ThreadContext" in b["targs"][0]:
                grows += 1
            if re.search(SHR, b["callee"]) and b["targs"] and "ThreadContext" in b["targs"][0]:
                n += 1
                # the predicate: closures handed to the call, and the enclosing function
                fam = [fn] + [F.fns[c] for c in F.fns if c.startswith(fn.name + "::{closure")]
                live = any(re.search(r"Weak<T,A>\}::(upgrade|strong_count)$|Arc<T,A>\}::strong_count$|is_finished$", cb["callee"])
                           for f2 in fam for _, cb in f2.calls())
                ident = any(re.search(r"::ptr_eq$|current\(\)|ThreadId", cb["callee"]) for f2 in fam for _, cb in f2.calls())
                R.inst(rid, "%s / %s on the thread registry drops only dead entries" % (fn.short(), lib.split_path(b["callee"])[-1]),
                       live and not ident,
                       "%s shrinks Synchronizer.threads (%s, line %s) by %s: an entry is dropped while its thread can still "
                       "reach a safepoint; if the world is stopped at that moment the thread parks and is never resumed" % (
                           fn.short(), lib.split_path(b["callee"])[-1], b["line"],
                           "identity with a particular thread" if ident else "a predicate that does not test the context's liveness"),
                       fn.loc(b["line"]), sample=True)
    R.inst(rid, "the thread registry grows by registration only (%d push sites, %d shrinking sites)" % (grows, n), grows >= 2,
           "no registration of a thread in Synchronizer.threads was found", "", sample={"push_sites": grows, "shrinking_sites": n})


GUARD_TY = re.compile(r"(Arc)?MutexGuard<[^>]*\bHeap>")


def _heap_guard_held_at(fn, site):
    """True iff, at call block `site` of fn, a guard of the heap mutex is live on every path: a call whose result is (or is
    moved into) a local of a heap-guard type — found by the type of the local's drop, so it does not matter whether the guard
    comes from SteelThread::enter_safepoint*, from lock / lock_arc, or from a helper that returns it — dominates the site, and
    no drop / mem::drop of the guard lies between the acquisition and the site."""
    dom = fn.dominators()
    if site not in dom:
        return False
    guards = {b["place"] for b in fn.blocks if b["k"] == "drop" and GUARD_TY.search(b.get("ty") or "")}
    if not guards:
        return False
    src = {g: lib.alias_sources(fn, g) for g in guards}
    for c, b in fn.calls():
        if c == site or c not in dom[site]:
            continue
        alias = {g for g in guards if b["dest"] == g or b["dest"] in src[g]}
        if not alias:
            continue
        alias.add(b["dest"])
        released = False
        for i in fn.reachable_from(fn.succ(c)):
            blk = fn.blocks[i]
            gone = (blk["k"] == "drop" and blk.get("place") in alias) or \
                   (blk["k"] == "call" and re.search(r"mem::drop$", blk["callee"]) and any(a in alias for a in blk["args"]))
            if gone and (i == site or site in fn.reachable_from(fn.succ(i))):
                released = True
                break
        if not released:
            return True
    return False


def stoppers_serialised_rule(F, R):
    R.rule("C16.s", "two stop-the-world coordinators never run at once: every path that reaches Synchronizer::stop_threads does so "
                    "with the heap mutex held — in the function itself (a guard acquired before the call and still alive at it), "
                    "by type (the function works on `&mut Heap`, which exists only behind the guard), or in every caller, "
                    "transitively (a function that stops the world without the lock passes the obligation on to its callers). "
                    "Otherwise two threads that each define / assign a global, or one that does and one that collects, pause "
                    "each other and each waits in call_per_ctx / enumerate_stacks for the other to publish itself: neither does")
    stop_rx = re.compile(r"\{impl Synchronizer\}::stop_threads$")
    if not F.find(stop_rx.pattern):
        raise CheckError("anchor lost: Synchronizer::stop_threads")

    def by_type(fn):
        return any(re.search(r"&mut Heap\b", t) or GUARD_TY.search(t) for t in (fn.d.get("in") or []))

    callers = {}
    for n, fn in F.fns.items():
        if not n.startswith("steel::"):
            continue
        for i, b in fn.calls():
            callers.setdefault(b["callee"], []).append((fn, i))
    # closures are "called" where they are built: the obligation goes to the function that builds them
    for n, fn in F.fns.items():
        if fn.d["kind"] == "Closure" and fn.d.get("parent") in F.fns:
            par = F.fns[fn.d["parent"]]
            for i, _, e in par.events("closure"):
                if e[1] == n:
                    callers.setdefault(n, []).append((par, i))
    # requiring[f] = list of (site block, callee name) where f reaches stop_threads without holding the lock
    requiring = {}
    work = [n for n in F.fns if stop_rx.search(n)]
    seen = set(work)
    direct = 0
    while work:
        g = work.pop()
        for fn, site in callers.get(g, []):
            if stop_rx.search(g):
                direct += 1
            if by_type(fn) or _heap_guard_held_at(fn, site):
                R.inst("C16.s", "%s holds the heap lock where it reaches %s" % (fn.short(), lib.short_name(g)), True, sample=True)
                continue
            requiring.setdefault(fn.name, []).append((site, g))
            if fn.name not in seen:
                seen.add(fn.name)
                work.append(fn.name)
    R.floor("C16.s", "call sites of Synchronizer::stop_threads", direct, 2)
    # the obligation ends undischarged at a requiring function nobody calls (an entry point: primitive, VM dispatch, embedding
    # API). Reported at the function a repair would touch: the caller of the routine that stops the world directly (or that
    # routine itself when it is an entry point)
    up = {}
    for n, sites in requiring.items():
        for _, g in sites:
            if g in requiring:
                up.setdefault(g, set()).add(n)
    undis = {n: n for n in requiring if not callers.get(n)}       # function -> a root above it
    work = list(undis)
    while work:
        n = work.pop()
        for _, g in requiring[n]:
            if g in requiring and g not in undis:
                undis[g] = undis[n]
                work.append(g)
    level0 = {n for n, sites in requiring.items() if any(stop_rx.search(g) for _, g in sites)}
    for n in sorted(undis):
        via = [(site, g) for site, g in requiring[n] if g in level0 and g != n]
        if n in level0 and not callers.get(n):
            via = [(site, g) for site, g in requiring[n] if stop_rx.search(g)]
        elif n in level0 or not via:
            continue
        fn = F.fns[n]
        site, g = via[0]
        R.inst("C16.s", "%s stops the world with the heap lock held" % fn.short(), False,
               "%s reaches Synchronizer::stop_threads (%s) without holding the heap mutex, and so does every caller up to %s: "
               "another thread doing the same (a global definition / assignment) or collecting pauses this one and waits for it "
               "to publish itself, while this one has paused the other and waits for it — both wait forever (two threads running "
               "`(set! a n)` / `(set! b n)` loops never finish). A guard bound with `let _ = …` is dropped at once" % (
                   fn.short(), "directly" if stop_rx.search(g) else "through " + lib.short_name(g), lib.short_name(undis[n])),
               fn.loc(fn.blocks[site].get("line")), sample=True)


def queue_guard_rule(F, R):
    R.rule("C16.g", "steel-rc: no entry guard of the merge-queue maps (dashmap Ref / RefMut: the shard's lock) is alive across a call "
                    "that can destroy a payload. A payload's destructor drops the references it holds; dropping one that another "
                    "thread owns queues it for that thread — which locks a shard of the same map; when both keys share a shard the "
                    "thread waits for a lock it holds itself")
    destroy = re.compile(r"^steel_rc::.*drop_contents_and_maybe_box|ptr::drop_in_place$")
    if not any(destroy.search(n) for n in F.fns):
        raise CheckError("anchor lost: steel_rc's payload destructor (drop_contents_and_maybe_box*)")
    GUARD = re.compile(r"^(dashmap::\S*)?Ref(Mut)?<")
    n = 0
    for name, fn in sorted(F.fns.items()):
        if not name.startswith("steel_rc::"):
            continue
        drops = [(i, b) for i, b in enumerate(fn.blocks) if b["k"] == "drop" and not b["c"] and GUARD.search(b.get("ty") or "")]
        for k, (d, db) in enumerate(drops):
            n += 1
            local = db["place"]
            srcs = lib.alias_sources(fn, local)
            origin = [c for c, cb in fn.calls() if cb["dest"] in srcs or cb["dest"].split(".")[0] in srcs]
            region = set(fn.normal_blocks())
            if origin:
                region = set()
                for c in origin:
                    region |= fn.reachable_from(fn.succ(c))
            live = {b for b in region if b != d and d in fn.reachable_from(fn.succ(b))}
            bad = None
            for b in sorted(live):
                blk = fn.blocks[b]
                if blk["k"] != "call":
                    continue
                if destroy.search(blk["callee"]):
                    bad = (blk, [blk["callee"]])
                    break
                if blk["callee"].startswith("steel_rc::"):
                    path = F.reaches(blk["callee"], destroy, stop=lambda x: not x.startswith("steel_rc::"), maxdepth=5)
                    if path:
                        bad = (blk, path)
                        break
            R.inst("C16.g", "%s / entry guard #%d is released before anything that can destroy a payload" % (fn.short(), k), bad is None,
                   bad and ("%s calls %s (line %s) while the map entry guard `%s` (%s) is alive; that call can destroy a payload (%s), "
                            "whose destructor may queue an object for another thread: QUEUE.map.get_mut on a shard this thread has "
                            "locked — the thread deadlocks on itself (harness: an owner's run_explicit_merge destroying a value that "
                            "holds references owned by 300 other live threads never returns)" % (
                                fn.short(), lib.short_name(bad[0]["callee"]), bad[0].get("line"), local, db.get("ty"),
                                " -> ".join(lib.short_name(x) for x in bad[1]))),
                   fn.loc(bad[0].get("line")) if bad else "", sample=True)
    R.floor("C16.g", "entry guards of the merge-queue maps", n, 3)


ANY_GUARD = re.compile(r"^(Arc)?(Mutex|RwLockRead|RwLockWrite|MappedMutex|MappedRwLockRead|MappedRwLockWrite)Guard<(.*)>$")


def _guards_alive_at(fn, site):
    """[(lock type, local)] of lock guards that are alive across call block `site`: acquired by a call that dominates the site,
    dropped (drop terminator) on a path after it, and not released in between"""
    dom = fn.dominators()
    if site not in dom:
        return []
    out = []
    after_site = fn.reachable_from(fn.succ(site))
    for d, b in enumerate(fn.blocks):
        if b["k"] != "drop" or b["c"] or d not in after_site:
            continue
        m = ANY_GUARD.match(b.get("ty") or "")
        if not m:
            continue
        inner = re.sub(r"^(RawMutex|RawRwLock),", "", m.group(3))
        g = b["place"]
        src = lib.alias_sources(fn, g)
        for c, cb in fn.calls():
            if c == site or c not in dom[site] or not (cb["dest"] == g or cb["dest"] in src):
                continue
            alias = {g, cb["dest"]}
            for _ in range(3):
                for _, _, e in fn.events("mv"):
                    if e[2] in alias and re.match(r"^_\d+$", e[1]):
                        alias.add(e[1])
            released = False
            for i in fn.reachable_from(fn.succ(c)):
                blk = fn.blocks[i]
                gone = (blk["k"] == "drop" and blk.get("place") in alias) or \
                       (blk["k"] == "call" and re.search(r"mem::drop$", blk["callee"]) and any(a in alias for a in blk["args"]))
                if gone and (i == site or site in fn.reachable_from(fn.succ(i))):
                    released = True
                    break
            if not released:
                out.append((inner, g))
                break
    return out


def no_foreign_lock_across_stop_rule(F, R):
    R.rule("C16.h", "a thread that stops the world holds no other lock than the heap's: at every call through which "
                    "Synchronizer::stop_threads is reached (with_locked_env and its callers), the lock guards alive across the call "
                    "guard a `Heap`. A script thread blocked on any other lock (the compiler's RwLock in eval / thread start-up / "
                    "span lookups, …) waits outside a safepoint and never publishes itself, and the stopper, holding that lock, "
                    "waits for it in call_per_ctx forever")
    stop_rx = re.compile(r"\{impl Synchronizer\}::stop_threads$")
    through = {n for n in F.fns if stop_rx.search(n)}
    work = list(through)
    sites = []
    callers = {}
    for n, fn in F.fns.items():
        if n.startswith("steel::"):
            for i, b in fn.calls():
                callers.setdefault(b["callee"], []).append((fn, i))
    depth = {n: 0 for n in through}
    while work:
        g = work.pop()
        for fn, site in callers.get(g, []):
            sites.append((fn, site, g))
            if fn.name not in through and depth[g] < 2:
                through.add(fn.name)
                depth[fn.name] = depth[g] + 1
                work.append(fn.name)
    n = 0
    seen = set()
    for fn, site, g in sorted(sites, key=lambda t: (t[0].name, t[1])):
        if (fn.name, g) in seen:
            continue
        seen.add((fn.name, g))
        n += 1
        foreign = [(t, l) for t, l in _guards_alive_at(fn, site) if not re.search(r"\bHeap$", t)]
        R.inst("C16.h", "%s holds only the heap lock across %s" % (fn.short(), lib.short_name(g)), not foreign,
               foreign and ("%s calls %s (line %s), which stops the world, while a guard of the lock on `%s` is alive: every other "
                            "thread that takes that lock does so outside a safepoint (eval, thread start-up, syntax helpers), blocks "
                            "unpublished, and is waited for forever by this thread — the evaluation never completes" % (
                                fn.short(), lib.short_name(g), fn.blocks[site].get("line"), foreign[0][0])),
               fn.loc(fn.blocks[site].get("line")), sample=True)
    R.floor("C16.h", "call sites through which the world is stopped", n, 8)


def protocol_handles_read_only_rule(F, R):
    R.rule("C16.w", "the values the stop-the-world protocol reads are never write-locked by a primitive: every custom type that a "
                    "Synchronizer method looks into (as_underlying_type::<T> on a registry entry's handle, under the value's read "
                    "lock) is accessed through the shared accessor only — no call of <T as AsRefMutSteelVal>::as_mut_ref / "
                    "as_underlying_type_mut::<T> anywhere. thread-join! keeps the read lock of a handle for the whole join; a "
                    "primitive that asks for the write lock parks behind it, parking_lot then turns new readers away, and the next "
                    "stop_threads / resume_threads / enumerate_stacks blocks on that handle with the heap lock held")
    prot = set()
    for n, fn in F.fns.items():
        if "{impl Synchronizer}::" not in n:
            continue
        for _, b in fn.calls():
            if re.search(r"rvals::as_underlying_type$", b["callee"]) and b.get("targs"):
                prot.add(b["targs"][0])
    R.inst("C16.w", "types read by the stop-the-world protocol derived", bool(prot),
           "no Synchronizer method looks into a custom value any more (anchor changed)", sample={"types": sorted(prot)}, nontrivial=False)
    for T in sorted(prot):
        bad = None
        for n, fn in sorted(F.fns.items()):
            if not n.startswith("steel::"):
                continue
            for _, b in fn.calls():
                if re.search(r"AsRefMutSteelVal for T\}::as_mut_ref$|rvals::as_underlying_type_mut$", b["callee"]) and \
                        (b.get("targs") or [None])[0] == T:
                    bad = (fn, b)
                    break
            if bad:
                break
        R.inst("C16.w", "%s is only read-locked" % T, bad is None,
               bad and ("%s takes the write lock of a %s value (line %s) that the stop-the-world protocol reads: while another thread "
                        "holds its read lock (thread-join! for the whole join) the writer parks, later readers queue behind it, and "
                        "stop_threads blocks with the heap lock held — (thread-interrupt t) on a thread that is being joined, then a "
                        "global definition, then an allocation on t: nothing moves again" % (bad[0].short(), T, bad[1].get("line"))),
               bad[0].loc(bad[1].get("line")) if bad else "", sample=True)
