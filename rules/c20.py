"""C20 — the host boundary (DESIGN §4 C20).

Decided clauses:
  a  no unguarded narrowing / sign-changing machine cast inside a value conversion (FromSteelVal, IntoSteelVal, TryFrom,
     From<_> for SteelVal, register_fn argument extraction),
  b  arity: every registered-function wrapper tests args.len() before indexing (shared matcher with C07.c),
  c  lent references: only Engine/LifetimeGuard::with_*_reference allocate nursery objects, each allocation is counted,
     and LifetimeGuard's destructor frees exactly what was counted.
Not decided: value-level faithfulness of each conversion.
"""
import re

from . import lib, c07
from .lib import CheckError

BITS = {"i8": 8, "i16": 16, "i32": 32, "i64": 64, "i128": 128, "isize": 64, "u8": 8, "u16": 16, "u32": 32, "u64": 64,
        "u128": 128, "usize": 64}
# dylib FFI conversion traits (FromFFIVal/IntoFFIVal/…) are a separate surface and not claimed
CONV = re.compile(r"\{impl (FromSteelVal|IntoSteelVal|TryFrom<[^}]*>|From<[^}]*>|AsRefSteelVal[^}]*|AsRefMutSteelVal[^}]*)"
                  r"[^}]* for ")
# (function regex, reason) — conversions outside the claimed surface
ALLOW = [
    (r"\{impl From<usize> for FFIValue\}::from$", "dylib FFI surface (needs a loaded dylib returning > isize::MAX; the source carries 'TODO: Handle this properly for overflow') — not claimed"),
    (r"\{impl From<FFIBoxedDynFunction> for BoxedDynFunction\}::from$", "arity of a dylib-provided function (usize -> u32): a count of parameters, not a script or host number"),
    (r"\{impl FromSteelVal for SourceId\}::from_steelval$", "source ids are produced by the runtime itself (span plumbing), not host data"),
]


def lossy(src, dst):
    if src not in BITS or dst not in BITS:
        return None
    ss, ds = src.startswith("i"), dst.startswith("i")
    sb, db = BITS[src], BITS[dst]
    if ss == ds:
        return db < sb
    if ss and not ds:
        return True
    return db <= sb


def run(F, R, ctx):
    R.rule("C20.a", "inside value conversions every IntToInt cast that cannot represent all source values (narrowing or "
                    "sign-changing) and every FloatToInt cast has a constant operand or is dominated by a comparison of "
                    "that operand (range test); try_from/try_into forms are not casts and pass")
    R.rule("C20.b", "every RegisterFn wrapper closure and native primitive tests args.len() before a constant index into "
                    "args (same matcher as C07.c)")
    R.rule("C20.c", "OpaqueReferenceNursery::allocate_{rw,ro}_object is called only by Engine/LifetimeGuard::"
                    "with_{mut,immutable}_reference; LifetimeGuard counts each allocation and its Drop hands the count to the nursery's release routine; "
                    "NurseryAccessToken's Drop frees all")
    n = 0
    convs = [fn for nme, fn in F.fns.items() if nme.startswith("steel::") and (CONV.search(nme) or "::register_fn::" in nme or
                                                                              re.search(r"\}::register_fn$", nme))]
    R.floor("C20.a", "conversion functions", len(convs), 150)
    for fn in convs:
        dom = None
        for i, j, e in fn.events("cast"):
            if e[1] == "IntToInt":
                l = lossy(e[2], e[3])
            elif e[1] == "FloatToInt":
                l = True
            else:
                l = False
            if not l:
                continue
            n += 1
            operand = e[6]
            ok, why = False, ""
            if operand.startswith("const"):
                ok, why = True, "constant operand"
            elif any(re.search(rx, fn.name) for rx, _ in ALLOW):
                ok, why = True, "allowlisted: " + [r for rx, r in ALLOW if re.search(rx, fn.name)][0]
            else:
                if dom is None:
                    dom = fn.dominators()
                al = lib.alias_sources(fn, operand) if operand.startswith("_") else {operand}
                for b in dom.get(i, ()):
                    blk = fn.blocks[b]
                    if blk["k"] != "switch":
                        continue
                    for ev in blk["e"]:
                        if ev[0] == "binop" and ev[1] in ("Gt", "Ge", "Lt", "Le") and \
                                any(x in al or (x.startswith("_") and al & lib.alias_sources(fn, x)) for x in (ev[5], ev[6])):
                            ok, why = True, "dominated by a range comparison"
            R.inst("C20.a", "%s / %s %s -> %s" % (fn.short(), e[1], e[2], e[3]), ok,
                   "%s converts with `as` from %s to %s (line %s) without a range test: an out-of-range value is silently "
                   "truncated / wrapped instead of being reported as a conversion error" % (fn.short(), e[2], e[3], e[4]),
                   fn.loc(e[4]), sample={"verdict": why})
    R.inst("C20.a", "lossy casts examined in conversions", True, sample={"lossy_casts": n, "conversion_functions": len(convs)})
    # positive control: the checked forms are in use
    tf = sum(1 for fn in convs for _, b in fn.calls() if re.search(r"::(try_from|try_into)$", b["callee"]))
    R.floor("C20.a", "try_from/try_into uses in conversions", tf, 10)

    # ---- b
    wrappers = [(f, "_2") for nme, f in F.fns.items()
                if f.d["kind"] == "Closure" and re.search(r"\{impl RegisterFn<[^}]*\}::register_fn::\{closure#\d+\}$", nme)]
    R.floor("C20.b", "RegisterFn wrapper closures", len(wrappers), 100)
    nidx = 0
    for fn, arg in wrappers:
        asserts = [i for i, b in enumerate(fn.blocks) if b["k"] == "assert" and b["what"] == "bounds" and not b["c"]]
        asserts = [a for a in asserts if c07.arg_indexing(fn, arg, a)]
        if not asserts:
            continue
        lens = set()
        for i, b in fn.calls():
            if re.search(r"slice::\{impl \[T\]\}::len$", b["callee"]) and arg in lib.alias_sources(fn, b["args"][0]):
                lens.add(b["dest"])
        guards = []
        for i, b in enumerate(fn.blocks):
            if b["k"] == "switch":
                for e in b["e"]:
                    if e[0] == "binop" and e[2] == "usize" and e[1] in ("Ne", "Eq", "Lt", "Le", "Gt", "Ge"):
                        if any(x in lens or (lens & lib.alias_sources(fn, x)) for x in (e[5], e[6]) if x.startswith("_")):
                            guards.append(i)
        dom = fn.dominators()
        for a in asserts:
            nidx += 1
            ok = any(g in dom.get(a, ()) for g in guards)
            R.inst("C20.b", "%s / argument index is arity-guarded" % fn.short(), ok,
                   "the registered-function wrapper %s indexes args (line %s) without testing args.len() first: calling the "
                   "host function from a script with too few arguments panics instead of raising an arity error" % (
                       fn.short(), fn.blocks[a]["line"]), fn.loc(fn.blocks[a]["line"]), sample=True if nidx <= 2 else None)
    R.floor("C20.b", "guarded wrapper indexings", nidx, 100)
    R.rule("C20.p", "a registered function receives each of its declared parameters from its own argument position: in every "
                    "RegisterFn wrapper closure the constant indexes into args cover 0 … n−1 (and nothing beyond), where n is the constant "
                    "args.len() is compared with. nc: a wrapper that never reads one position (and reads another twice in its place) hands the "
                    "host function a duplicated argument, and the skipped argument is never converted or type-checked")
    npos = 0
    for fn, arg in wrappers:
        asserts = [i for i, b in enumerate(fn.blocks) if b["k"] == "assert" and b["what"] == "bounds" and not b["c"]]
        asserts = [a for a in asserts if c07.arg_indexing(fn, arg, a)]
        if not asserts:
            continue
        idxs = []
        for a in asserts:
            blk = fn.blocks[a]
            il = [e[2] for e in blk["e"] if e[0] == "der" and len(e) >= 5 and e[3] == "Lt" and e[4] == 0]
            for l_ in il:
                for e in blk["e"]:
                    if e[0] == "kv" and e[1] == l_ and e[2].startswith("const:"):
                        idxs.append(int(e[2][6:]))
        lens = set()
        for i, b in fn.calls():
            if re.search(r"slice::\{impl \[T\]\}::len$", b["callee"]) and arg in lib.alias_sources(fn, b["args"][0]):
                lens.add(b["dest"])
        arity = None
        for b in fn.blocks:
            for e in b["e"]:
                if e[0] == "binop" and e[2] == "usize" and e[1] in ("Ne", "Eq"):
                    ops = (e[5], e[6])
                    if any(x in lens or (x.startswith("_") and lens & lib.alias_sources(fn, x)) for x in ops):
                        for x in ops:
                            if str(x).startswith("const:"):
                                arity = int(x[6:])
        if arity is None or not idxs:
            continue
        npos += 1
        ok = set(idxs) == set(range(arity))
        R.inst("C20.p", "%s / reads every position of args[0..%d)" % (fn.short(), arity), ok,
               "the registered-function wrapper %s (arity %d) reads args at positions %s: position(s) %s never reach the host "
               "function (read more than once: %s)" % (fn.short(), arity, sorted(idxs), sorted(set(range(arity)) - set(idxs)),
                                                     sorted(x for x in set(idxs) if idxs.count(x) > 1)),
               fn.loc(), sample=True if npos <= 2 else None)
    R.floor("C20.p", "wrapper closures with constant argument positions", npos, 30)

    # ---- c
    _, callers = F.graph()
    for kind, want in (("allocate_rw_object", "with_mut_reference"), ("allocate_ro_object", "with_immutable_reference")):
        t = [x for x in F.fns if re.search(r"\{impl OpaqueReferenceNursery\}::%s$" % kind, x)]
        if len(t) != 1:
            raise CheckError("anchor lost: OpaqueReferenceNursery::%s" % kind)
        cs = sorted(callers.get(t[0], ()))
        R.floor("C20.c", "callers of %s" % kind, len(cs), 2)
        for c in cs:
            ok = bool(re.search(r"\{impl (Engine|LifetimeGuard)\}::%s$" % want, c))
            R.inst("C20.c", "%s calls %s" % (lib.short_name(c), kind), ok,
                   "%s lends a host reference to scripts outside the scoped with_*_reference API: nothing guarantees the "
                   "reference is revoked before the host object dies" % lib.short_name(c), F.fns[c].loc() if c in F.fns else "",
                   sample=True)
            if ok and "LifetimeGuard" in c:
                fn = F.fns[c]
                cnt = [e for _, _, e in fn.events("fld") if e[1] == "LifetimeGuard" and e[2] == "count"]
                R.inst("C20.c", "%s counts the allocation" % lib.short_name(c), bool(cnt),
                       "%s allocates a nursery object without incrementing LifetimeGuard.count: the guard's destructor "
                       "frees one object too few and the lent reference outlives the scope" % lib.short_name(c), fn.loc(), sample=True)
            if ok and "{impl Engine}" in c:
                fn = F.fns[c]
                agg = [e for _, _, e in fn.events("agg") if e[1] == "LifetimeGuard"]
                R.inst("C20.c", "%s returns a LifetimeGuard" % lib.short_name(c), bool(agg),
                       "%s no longer constructs the LifetimeGuard that revokes the lent reference" % lib.short_name(c), fn.loc(), sample=True)
    lg = F.adt("LifetimeGuard")
    d = F.fns.get(lg.get("drop") or "")
    rel = []
    if d is not None:
        for _, cb_ in lib.deep_calls(F, d, depth=2):
            f_ = F.fns.get(cb_["callee"])
            if f_ is not None and "{impl OpaqueReferenceNursery}" in f_.name and f_ not in rel and \
                    any(e[1] == "OpaqueReferenceNursery" for _, e in lib.family_events(F, f_, "fld")):
                rel.append(f_)
    R.inst("C20.c", "LifetimeGuard::drop frees what was counted", d is not None and bool(rel)
           and any(e[1] == "LifetimeGuard" and e[2] == "count" for _, e in lib.deep_events(F, d, "fld", depth=2)),
           "LifetimeGuard has no destructor handing its count to a release routine of OpaqueReferenceNursery: lent references stay "
           "reachable from scripts after the scope ends", "%s:%s" % (lg["file"], lg["line"]), sample=True)
    flds = set(e[2] for f_ in rel for _, e in lib.family_events(F, f_, "fld") if e[1] == "OpaqueReferenceNursery")
    fams = [c_ for f_ in rel for c_ in [f_] + [F.fns[e[1]] for _, _, e in f_.events("closure") if e[1] in F.fns]]
    removals = [(c_, b_) for c_ in fams for _, b_ in c_.calls() if re.search(r"Vec<T,A>\}::(pop|truncate|clear|drain)$", b_["callee"])]
    pops = [(c_, b_) for c_, b_ in removals if b_["callee"].endswith("::pop")]
    cond = False
    for c_, b_ in pops:
        d_ = re.match(r"_\d+", b_.get("dest") or "")
        if not d_:
            continue
        t_ = lib.tainted_locals(c_, [d_.group(0)])
        for blk in c_.blocks:
            if blk["k"] == "switch" and not blk["c"]:
                loc_ = re.match(r"_\d+", blk.get("place", "").strip("(*)"))
                if loc_ and loc_.group(0) in t_:
                    cond = True
    R.inst("C20.c", "the guard's release routine releases both tables unconditionally",
           {"memory", "weak_values"} <= flds and len(removals) >= 2 and not cond,
           "the release routine of the lending guard no longer removes entries from both the rooted-pointer table and the weak-value "
           "table unconditionally (a control decision depends on what a pop returned, or a table is not shrunk): after the "
           "scope ends a lent reference can stay registered, so a script can still reach a host object that is gone",
           rel[0].loc() if rel else "", sample={"release": [f_.short() for f_ in rel], "tables": sorted(flds),
                                              "removals": len(removals), "pop_result_decides_control": cond})
    for ty in ("LifetimeGuard",):
        cl = [im for im in F.impls if im["self"].split("<")[0] == ty and im["trait"] and re.search(r"::(Clone|Copy)$", im["trait"])]
        R.inst("C20.c", "%s is not Clone/Copy" % ty, not cl, "%s can be duplicated: the first copy's drop revokes references "
               "still in use through the other" % ty, "", sample=True)
    nt = F.adt("NurseryAccessToken")
    dn = F.fns.get(nt.get("drop") or "")
    R.inst("C20.c", "NurseryAccessToken::drop frees all", dn is not None and bool(dn.call_blocks(r"OpaqueReferenceNursery\}::free_all$", wrappers=True)),
           "NurseryAccessToken's destructor no longer clears the nursery", "%s:%s" % (nt["file"], nt["line"]), sample=True)
    roundtrip_rule(F, R)
    tuple_arity_rule(F, R)
    release_token_rule(F, R)
    lent_release_rule(F, R)


# ---------------------------------------------------------------------------------------------------------------------
# C20.r — what a host type converts INTO, it converts back FROM
def _returned_variants(F, fn, depth=2, seen=None):
    """SteelVal variants of the value a conversion returns (aggregates that flow into the return place; callees in the
    workspace followed `depth` levels). Second result: the value may also come from a conversion we cannot see through."""
    seen = seen if seen is not None else set()
    if fn.name in seen:
        return set(), False
    seen.add(fn.name)
    src = lib.alias_sources(fn, "_0", depth=8)
    bases = {"_0"}
    for s_ in src:
        bases |= {t.split(".")[0] for t in lib.TOK.findall(s_)}
    out, opaque = set(), False
    for b in fn.blocks:
        if b["c"]:
            continue
        last = None
        for e in b["e"]:
            if e[0] == "mv":
                last = e[1].split(".")[0]
            elif e[0] == "kv" and e[2].startswith("variant:SteelVal::") and e[1].split(".")[0] in bases:
                out.add(e[2].split("::")[-1])
            elif e[0] == "agg" and e[1] == "SteelVal" and e[4] and last in bases:
                out.add(e[2])
        if b["k"] == "call" and b.get("dest") and b["dest"].split(".")[0] in bases:
            c = F.fns.get(b["callee"])
            if c is not None and "SteelVal" in c.d["out"] and depth > 0:
                o2, op2 = _returned_variants(F, c, depth - 1, seen)
                out |= o2
                opaque |= op2
            elif re.search(r"into_steelval$|::from$|::into$", b["callee"]):
                opaque = True
    return out, opaque


ROUNDTRIP_EXEMPT = {
}


def roundtrip_rule(F, R):
    R.rule("C20.r", "what a host type converts into, it converts back from: for every type with both an IntoSteelVal and a "
                    "FromSteelVal impl whose from_steelval matches on the value's kind, every SteelVal variant that "
                    "into_steelval can return (aggregates flowing into its return value, workspace callees followed two "
                    "levels) has an explicit arm in from_steelval. nc: a host value of a supported type that is handed to a "
                    "script and handed back is otherwise reported as a conversion error (e.g. a u64 above the fixnum range "
                    "becomes a BigNum, which the integer conversions must accept)")
    into, frm = {}, {}
    for name, fn in F.fns.items():
        m = re.search(r"\{impl IntoSteelVal for (.+)\}::into_steelval$", name)
        if m and name.startswith("steel::"):
            into[m.group(1)] = fn
        m = re.search(r"\{impl FromSteelVal for (.+)\}::from_steelval$", name)
        if m and name.startswith("steel::"):
            frm[m.group(1)] = fn
    n = 0
    for t in sorted(set(into) & set(frm)):
        sws = lib.enum_switches(frm[t], "SteelVal")
        if not sws:
            continue           # delegates (Option<T>: truthiness; SteelVal: identity)
        accepted = set()
        for sb in sws:
            accepted |= {v for v, _ in frm[t].blocks[sb]["targets"]}
        produced, opaque = _returned_variants(F, into[t])
        if not produced:
            continue
        n += 1
        missing = sorted(produced - accepted)
        if t in ROUNDTRIP_EXEMPT:
            R.inst("C20.r", "%s: into ⊆ from (allowlisted)" % t, True, sample={"reason": ROUNDTRIP_EXEMPT[t]}, nontrivial=False)
            continue
        R.inst("C20.r", "%s: every kind into_steelval returns has an arm in from_steelval" % t, not missing,
               "IntoSteelVal for %s can return SteelVal::%s, which FromSteelVal for %s has no arm for (it accepts %s): a %s "
               "that went into a script does not come back — the conversion reports an error for a value of a supported type "
               "that is in range" % (t, "/".join(missing), t, "/".join(sorted(accepted)), t),
               frm[t].loc(), sample={"type": t, "into": sorted(produced), "from": sorted(accepted)})
    R.floor("C20.r", "types with both conversions and a kind match", n, 20)


def tuple_arity_rule(F, R):
    R.rule("C20.t", "a tuple is extracted only from a list of exactly its length: in every FromSteelVal impl for a tuple type "
                    "the successful return is dominated by a branch on a comparison of the list's len(), or — when the elements "
                    "are taken from an iterator — by the None outcome of one more next() than the tuple has fields. nc: "
                    "otherwise a script list with surplus elements is silently cut down to the tuple instead of being reported "
                    "as mistyped (a registered function taking (A, B) is invoked with arguments of the wrong shape)")
    n = 0
    for name, fn in sorted(F.fns.items()):
        m = re.search(r"\{impl FromSteelVal for \((.+)\)\}::from_steelval$", name)
        if not m or not name.startswith("steel::"):
            continue
        arity = m.group(1).count(",") + 1
        n += 1
        oks = [i for i, _, e in fn.events("agg") if e[1] == "Result" and e[2] == "Ok"]
        if not oks:
            # Result is not a workspace type: take the blocks that build the tuple from the converted elements
            convs = [i for i, b in fn.calls() if re.search(r"from_steelval$", b["callee"])]
            oks = convs[-1:] if convs else []
        dom = fn.dominators()
        ok = False
        for o in oks:
            for sb in dom[o]:
                blk = fn.blocks[sb]
                if blk["k"] != "switch":
                    continue
                loc = re.match(r"_\d+", blk.get("place", "").strip("()*"))
                if not loc:
                    continue
                from .c07 import _backward, _origins
                maps = _backward(fn)
                org = {x.split(".")[0] for x in _origins(fn, loc.group(0), maps, depth=10)} | {loc.group(0)}
                for ci, cb in fn.calls():
                    if (cb.get("dest") or "").split(".")[0] in org and re.search(r"::len$", cb["callee"]):
                        ok = True
            nexts = [i for i, b in fn.calls() if re.search(r"::next$", b["callee"]) and i in dom[o]]
            if len(nexts) >= arity + 1:
                ok = True
        R.inst("C20.t", "FromSteelVal for (%s) / length checked" % m.group(1), ok,
               "FromSteelVal for (%s) builds the tuple from the first %d elements of a list without establishing that the list "
               "ends there (no comparison of len(), no %d-th next() that must be None): (take-pair (list 1 2 3)) invokes the "
               "host function with (1, 2)" % (m.group(1), arity, arity + 1), fn.loc(), sample=True)
    R.floor("C20.t", "tuple conversions", n, 1)


WRITE_RX = re.compile(r"atomic::\{impl Atomic\w*(<[^>]*>)?\}::(store|swap|fetch_\w+|compare_exchange\w*)$|Mutex<[^>]*>\}::lock$|RwLock<[^>]*>\}::write$")


def release_token_rule(F, R):
    R.rule("C20.k", "a lent reference's release token is not duplicated: a type of gc::unsafe_erased_pointers whose Drop releases "
                    "something in shared state (clears a borrow flag, lowers a borrow count) and whose Clone acquires nothing is "
                    "never cloned — by `clone`, `cloned`, `to_owned` on it or through a helper. A copy releases a second time when "
                    "it is dropped: the parent object is un-blocked while references derived from it are alive")
    toks = []
    for n, fn in F.fns.items():
        m = re.search(r"^steel::gc::unsafe_erased_pointers::\{impl Drop for (\w+)(<[^{}]*>)?\}::drop$", n)
        if not m:
            continue
        T = m.group(1)
        if not any(WRITE_RX.search(b["callee"]) for _, b in fn.calls()):
            continue
        cl = [f for k, f in F.fns.items() if re.search(r"\{impl Clone for %s(<[^{}]*>)?\}::clone$" % T, k)]
        acquires = any(WRITE_RX.search(b["callee"]) for f in cl for _, b in f.calls())
        toks.append((T, bool(cl), acquires))
    R.floor("C20.k", "release tokens (Drop writes shared state) among the lent-reference types", len(toks), 2)
    for T, has_clone, acquires in sorted(toks):
        if not has_clone or acquires:
            R.inst("C20.k", "%s: %s" % (T, "not Clone" if not has_clone else "Clone acquires what Drop releases"), True, nontrivial=False)
            continue
        sites = []
        for n, fn in F.fns.items():
            if not n.startswith("steel::") or re.search(r"\{impl Clone for %s\b" % T, n):
                continue
            for _, b in fn.calls():
                if re.search(r"\{impl Clone for %s(<[^{}]*>)?\}::clone$" % T, b["callee"]) or \
                        (re.search(r"::(clone|cloned|to_owned|clone_from)$", b["callee"]) and
                         any(re.match(r"^&?(mut )?%s\b" % T, t) for t in (b.get("targs") or []))):
                    sites.append((fn, b))
        R.inst("C20.k", "%s is never cloned" % T, not sites,
               sites and ("%s copies a %s (line %s): its Drop releases the parent's borrow state and its Clone acquires nothing, so "
                          "dropping the copy releases once more — deriving a reference from a derived reference re-opens the "
                          "original lent object while both derived references are alive" % (
                              sites[0][0].short(), T, sites[0][1].get("line"))),
               sites[0][0].loc(sites[0][1].get("line")) if sites else "", sample=True)


def lent_release_rule(F, R):
    R.rule("C20.n", "the end of a lending call releases the owner of every reference created during it: the release reached from "
                    "<LifetimeGuard as Drop>::drop shrinks OpaqueReferenceNursery.weak_values to a recorded length or clears it "
                    "(truncate / clear / drain) — or, if it pops a counted number of entries, every function that pushes onto "
                    "weak_values is called only where the guard's count is written. Owners of references a script derives from a lent "
                    "object (OpaqueReferenceNursery::allocate) are pushed onto the same stack and are not counted: an owner left "
                    "behind keeps its reference usable after the call has ended")
    drops = F.find(r"\{impl Drop for LifetimeGuard(<[^{}]*>)?\}::drop$")
    if not drops:
        R.inst("C20.n", "LifetimeGuard has a destructor that releases the nursery", False,
               "LifetimeGuard has no Drop impl any more: nothing releases the lent references (and the references derived from "
               "them) when the lending call ends by a panic or an early return of the host closure", "", sample=True)
        return

    def touches_weak(fn):
        return any(e[1] == "OpaqueReferenceNursery" and e[2] == "weak_values" for _, e in lib.family_events(F, fn, "fld"))
    rel = []
    for d in drops:
        for _, cb in lib.deep_calls(F, d, depth=2):
            f = F.fns.get(cb["callee"])
            if f is not None and touches_weak(f) and f not in rel:
                rel.append(f)
    if not rel:
        R.inst("C20.n", "LifetimeGuard::drop releases the nursery's weak_values", False,
               "<LifetimeGuard as Drop>::drop no longer reaches a function that removes entries of OpaqueReferenceNursery.weak_values: "
               "the owners of lent and derived references outlive the lending call", drops[0].loc())
        return
    how = set()
    for f in rel:
        for _, cb in lib.family_calls(F, f):
            m = re.search(r"Vec<T,A>\}::(pop|truncate|clear|drain)$", cb["callee"])
            if m:
                how.add(m.group(1))
    whole = bool(how & {"truncate", "clear", "drain"})
    pushers = []
    for n, f in F.fns.items():
        if n.startswith("steel::gc::") and f.d["kind"] != "Closure" and touches_weak(f) and \
                any(re.search(r"Vec<T,A>\}::push$", cb["callee"]) for _, cb in lib.family_calls(F, f)):
            pushers.append(f)
    R.floor("C20.n", "functions pushing onto OpaqueReferenceNursery.weak_values", len(pushers), 3)
    if whole:
        R.inst("C20.n", "the release does not depend on a count of lent objects", True,
               sample={"release": [f.short() for f in rel], "removal": sorted(how), "pushers": [f.short() for f in pushers]})
        return
    for p in sorted(pushers, key=lambda f: f.name):
        bad = None
        for n, g in F.fns.items():
            if not n.startswith("steel::") or g is p:
                continue
            if any(cb["callee"] == p.name for _, cb in lib.family_calls(F, g)):
                counted = any(e[1] == "LifetimeGuard" and (e[0] == "agg" or (e[0] == "fld" and e[2] == "count" and e[3] in ("w", "m")))
                              for _, e in lib.family_events(F, g) if e[0] in ("agg", "fld") and len(e) > 3)
                if not counted:
                    bad = g
                    break
        R.inst("C20.n", "%s pushes only what the guard counts" % p.short(), bad is None,
               bad and ("the release at the end of a lending call (%s) pops as many entries of OpaqueReferenceNursery.weak_values as the "
                        "guard lent objects, but %s — called by %s, which does not touch the guard's count — pushes onto the same "
                        "stack: of two references derived during one call (`room`, then `chest`) the owner of the first stays behind, "
                        "and (room-name room) still answers after the call returned, even after the host dropped the object" % (
                            ", ".join(f.short() for f in rel), p.short(), bad.short())),
               p.loc(), sample=True)
