"""C02 — behaviour is independent of the JIT / optimisation switches (DESIGN §4 C02).

Agreement of the native code generator with the interpreter per opcode and operand type is translation validation,
not static analysis.  Decided clauses: (a) no emittable opcode reaches a panicking translator arm, (b) bytecode scanners
honour the JIT trampoline (shared with C06.H), (c) the native-code helpers dispatch primitives the way the interpreter
does (inside a safepoint — shared with C16.a), (d) the trampoline saves the opcode it overwrites.
"""
import re

from . import lib, shared, c01, c06, jitmodel
from .lib import CheckError

JIT_ALLOW = {
    "DynSuperInstruction": "the trampoline opcode itself: only written into closures that have already been compiled, which are never handed to the translator again",
}


def gated_opcodes(F):
    """opcodes for which the gate in front of the translator (a function in jit2::cgen that is reached from compile_bytecode
    before JIT::compile and matches on the opcode) answers 'do not compile' unconditionally"""
    cb = F.one(r"^steel::jit2::cgen::compile_bytecode$")
    out = set()
    seen = set()
    frontier = [(cb.name, 0)]
    while frontier:
        n, d = frontier.pop()
        if n in seen or d > 3:
            continue
        seen.add(n)
        f = F.fns.get(n)
        if not f or not n.startswith("steel::jit2::") or "FunctionTranslator" in n or "{impl JIT}::compile" in n:
            continue
        if n != cb.name and f.d.get("out") == "bool":
            for sb in lib.enum_switches(f, "OpCode"):
                am = lib.arm_map(f, sb)
                for v, t in am.items():
                    if v == "_" or t == am.get("_"):
                        continue
                    region = f.reachable_from([t], avoid=set(lib.enum_switches(f, "OpCode")))
                    calls = [b for b in region if f.blocks[b]["k"] == "call"]
                    consts = [e[2] for b in region for e in f.blocks[b]["e"] if e[0] == "kv" and e[1] == "_0"]
                    if not calls and consts and all(c == "const:0" for c in consts):
                        out.add(v)
        for c in F.callees(f, expand_unresolved=False):
            frontier.append((c, d + 1))
    return out


def run(F, R, ctx):
    _run(F, R, ctx)
    int_tag_rule(F, R)
    jitmodel.deopt_rule(F, R, "C02.x")
    jitmodel.helper_panic_rule(F, R, "C07.j")
    jitmodel.name_table_gate_rule(F, R, "C02.n")
    jitmodel.branch_facts_rule(F, R, "C02.f")
    jitmodel.assigned_local_rule(F, R, "C02.k")
    jitmodel.tier_error_agreement_rule(F, R, "C02.q")
    from . import c03
    c03.jit_move_rule(F, R, "C02.m")
    trampoline_decision_rule(F, R)
    installer_agreement_rule(F, R)
    # the call-site inliners are optional optimisations: what they may replace is a configuration-independence clause too
    c01.inline_count_rule(F, R)


def _run(F, R, ctx):
    R.rule("C02.a", "in the JIT translator's opcode match (the OpCode switch with the most arms in jit2::cgen) no arm for an "
                    "emittable opcode is a bare todo!/unimplemented!/panic!: with the JIT on, compiling a closure "
                    "containing it would abort the host where the interpreter runs the program")
    R.rule("C02.b", "every scanner of ByteCodeLambda.body_exp honours the trampoline header (same construct as C06.H)")
    R.rule("C02.d", "jit_compile_lambda saves the first opcode in ByteCodeLambda.header before overwriting it with "
                    "DynSuperInstruction, and gives up (returns the closure unchanged) when compilation fails")
    em = shared.emit_set(F)
    best = None
    for n, fn in F.fns.items():
        if n.startswith("steel::jit2::cgen::"):
            for s in lib.enum_switches(fn, "OpCode"):
                k = len(fn.blocks[s]["targets"])
                if best is None or k > best[0]:
                    best = (k, fn, s)
    if best is None or best[0] < 80:
        raise CheckError("anchor lost: JIT translator opcode match not found")
    _, tr, s = best
    m = lib.arm_map(tr, s)
    gidx = shared.gidx_vm(F)
    gated = gated_opcodes(F)
    n = 0
    for op in sorted(em):
        t = m.get(op, m["_"])
        bl = c01.first_call(tr, t)
        bad = bl is not None and "panicking" in bl["callee"]
        n += 1
        if bad and op in gated:
            R.inst("C02.a", "translator arm %s (unimplemented, gated before translation)" % op, True,
                   sample={"gate": "compile_bytecode refuses bytecode containing this opcode"}, nontrivial=True)
            continue
        if op in JIT_ALLOW:
            R.inst("C02.a", "translator arm %s (allowlisted)" % op, True, sample={"reason": JIT_ALLOW[op]}, nontrivial=False)
            continue
        R.inst("C02.a", "translator arm %s is implemented" % op, not bad,
               "%s's arm for the emittable opcode %s is %s!(): with the JIT enabled, defining a function whose body "
               "contains it aborts the host; with STEEL_JIT=false the same program runs" % (
                   tr.short(), op, (bl or {}).get("mac", "panic")), tr.loc(tr.blocks[s]["line"]), sample=True)
    R.floor("C02.a", "emittable opcodes examined", n, 60)

    # ---- e: assignable globals are looked up when the call runs, not when the closure is compiled
    R.rule("C02.e", "in the JIT translator's opcode match only the arm for CALLPRIMITIVE (immutable #%prim bindings) may read "
                    "the compile-time snapshot of the global table (FunctionTranslator._globals); the arms for the opcodes that "
                    "reference assignable globals (CALLGLOBAL*, PUSH, SET) must defer the lookup to a run-time helper, as the "
                    "interpreter does (its arms call Env::repl_*_idx when they execute)")
    snap = "_globals"
    if not any(f_["name"] == snap for v_ in F.adt("FunctionTranslator")["variants"] for f_ in v_["fields"]):
        raise CheckError("anchor lost: FunctionTranslator.%s" % snap)
    for op in sorted(gidx):
        if op == "CALLPRIMITIVE" or op not in m or m[op] == m["_"]:
            continue
        blocks = lib.arm_reach(tr, s, m[op])
        dom_tr = tr.dominators()
        arm_only = [b for b in blocks if m[op] in dom_tr.get(b, ())]
        reads = [b for b in arm_only for e in tr.blocks[b]["e"] if e[0] == "fld" and e[1] == "FunctionTranslator" and e[2] == snap]
        R.inst("C02.e", "translator arm %s does not bake in a global's value" % op, not reads,
               "%s's arm for %s reads FunctionTranslator.%s (the values of the globals at the time the closure is compiled): "
               "with the JIT on, a later (set! g …) or redefinition is ignored by already compiled callers, while the "
               "interpreter looks the global up on every call" % (tr.short(), op, snap), tr.loc(tr.blocks[s]["line"]), sample=True)
    prim_reads = [b for b in lib.arm_reach(tr, s, m.get("CALLPRIMITIVE", m["_"])) for e in tr.blocks[b]["e"]
                  if e[0] == "fld" and e[2] == snap]
    R.inst("C02.e", "positive control: the CALLPRIMITIVE arm is seen reading the snapshot", bool(prim_reads), "matcher broken",
           tr.loc(), sample=True, nontrivial=False)

    # ---- b (shared with C06.H)
    gv = shared.gidx_vm(F)
    jl = F.one(r"^steel::steel_vm::vm::jit::jit_compile_lambda$")
    for fn, sb, arm, body, own in c06.scanners(F):
        if "ByteCodeLambda" not in body:
            continue
        hdr = [i for i, _, e in fn.events("fld") if e[1] == "ByteCodeLambda" and e[2] == "header"]
        mm = lib.arm_map(own, sb)
        tramp = "DynSuperInstruction" in mm and mm["DynSuperInstruction"] != mm["_"]
        R.inst("C02.b", "%s / ignores trampoline header" % fn.short(), bool(hdr) or tramp,
               "%s matches on ByteCodeLambda.body_exp[i].op_code without consulting ByteCodeLambda.header: with the JIT on "
               "the first opcode is the trampoline, so the scanner sees a different program than with the JIT off" % fn.short(),
               own.loc(own.blocks[sb]["line"]), sample=True)
    # ---- d
    wr_hdr = [i for i, _, e in jl.events("fld") if e[1] == "ByteCodeLambda" and e[2] == "header" and e[3][0] == "w"]
    tramp = [i for i, _, e in jl.events("agg") if e[1] == "OpCode" and e[2] == "DynSuperInstruction"]
    dom = jl.dominators()
    R.inst("C02.d", "jit_compile_lambda / header saved before the first opcode is overwritten",
           bool(wr_hdr) and bool(tramp) and all(any(h in dom[t] for h in wr_hdr) for t in tramp),
           "jit_compile_lambda overwrites body_exp[0].op_code with the trampoline without first saving the original opcode "
           "in ByteCodeLambda.header", jl.loc(), sample=True)
    cb = jl.call_blocks(r"::compile_bytecode$")
    R.inst("C02.d", "jit_compile_lambda / compilation failure falls back to the interpreter", bool(cb) and len(jl.returns()) >= 1 and
           any(jl.every_path_passes_from(jl.succ(c), tramp, [])[0] is False for c in cb) and
           bool(lib.enum_switches(jl, "Result")),
           "jit_compile_lambda no longer matches on the Result of compile_bytecode (a failed compilation must leave the "
           "closure interpreted)", jl.loc(), sample=True)


def _kv(fn):
    kv = {}
    for _, _, e in fn.events("kv"):
        kv.setdefault(e[1], set()).add(e[2])
    return kv


def _consts(fn, kv, tok):
    out = set()
    if tok.startswith(("str:", "variant:", "const:")):
        return {tok}
    for a in lib.alias_sources(fn, tok):
        m = re.match(r"^\(?\*?(_\d+)\)?$", a)
        if m:
            out |= kv.get(m.group(1), set())
    return out


def int_tag_rule(F, R):
    R.rule("C02.i", "the JIT's type tags do not promise more than the producing code guarantees: InferredType::Int selects the "
                    "int-specialised comparison / subtraction helpers, which assert (abort the host) on a non-fixnum operand, "
                    "so a value tagged Int by the translator — push(value, Int), or a (value, Int) pair returned to a caller — "
                    "is an immediate of the program (integer constant), never the result of a runtime helper call "
                    "(call_function_returns_value*), whose result kind depends on the run-time operands")
    tr = [f for n, f in F.fns.items() if "jit2::cgen::{impl FunctionTranslator}" in n]
    if len(tr) < 50:
        raise CheckError("anchor lost: methods of jit2::cgen FunctionTranslator (%d)" % len(tr))
    n = 0
    HELPER = r"FunctionTranslator\}::call_function_returns_value"
    for fn in sorted(tr, key=lambda f: f.name):
        kv = _kv(fn)
        if not any("variant:InferredType::Int" in v for v in kv.values()):
            continue
        helper = {}
        for i, b in fn.calls():
            d = re.match(r"_\d+", b.get("dest") or "")
            if d and re.search(HELPER, b["callee"]):
                helper[d.group(0)] = b

        def from_helper(tok):
            for a in lib.alias_sources(fn, tok):
                m = re.match(r"^\(?\*?(_\d+)\)?(\.\d+)?$", a)
                if m and m.group(1) in helper:
                    return helper[m.group(1)]
            return None
        pairs = []
        for i, b in fn.calls():
            if re.search(r"FunctionTranslator\}::push$", b["callee"]) and len(b["args"]) >= 3:
                if "variant:InferredType::Int" in _consts(fn, kv, b["args"][2]):
                    pairs.append((b["args"][1], b["line"], "push(value, Int)"))
        # (value, Int) tuples / StackValue { value, inferred_type: Int }
        fields = {}
        for blk in fn.blocks:
            for e in blk["e"]:
                if e[0] == "mv" and re.match(r"^_\d+\.\d+$", e[1]):
                    fields.setdefault(e[1].split(".")[0], {})[e[1].split(".")[1]] = e[2]
        for base, fl in fields.items():
            for k, src in fl.items():
                if "variant:InferredType::Int" in _consts(fn, kv, src.strip("()*")):
                    for k2, src2 in fl.items():
                        if k2 != k:
                            pairs.append((src2.strip("()*"), fn.line, "(value, Int) aggregate"))
        for tok, line, what in pairs:
            n += 1
            h = from_helper(tok)
            names = sorted(x[4:] for x in _consts(fn, kv, h["args"][1])) if h and len(h["args"]) > 1 else []
            R.inst("C02.i", "%s / %s %s" % (fn.short(), what, ("of helper %s" % "|".join(names)) if h else "#%d is an immediate" % n), h is None,
                   "%s tags the result of the runtime helper %s as InferredType::Int (line %s): the helper's result is a "
                   "flonum, ratnum or bignum for such operands, and the int-specialised helpers selected by the tag assert on "
                   "a non-fixnum — the JIT-compiled function aborts the host where the interpreter returns a value" % (
                       fn.short(), names or "(dynamic name)", line), fn.loc(line), sample={"helper": names})
    R.floor("C02.i", "Int-tagged values in the JIT translator", n, 1)


def trampoline_decision_rule(F, R, rid="C02.t"):
    from . import c09
    R.rule(rid, "the JIT's runtime helpers decide whether to run a callee natively from the frame depth *at the call*: a depth "
                "predicate of the jit module (a bool function of VmCore that only reads stack_frames.len(): should_trampoline) "
                "is never evaluated after the helper installed the callee's frame (a call that pushes a StackFrame, through "
                "VmCore methods two levels deep). nc: the check emitted before the call (check_callable*) evaluates the same "
                "predicate at the call depth and leaves the caller in native mode; a helper that asks again after the push "
                "disagrees with it at the threshold, does not run the callee and hands the native caller #<void> with the "
                "callee's frame still installed — a JIT-on / JIT-off difference at one particular recursion depth")
    preds = set()
    for n, fn in F.fns.items():
        if not n.startswith("steel::steel_vm::vm::jit::") or fn.d["out"] != "bool" or len(fn.blocks) > 12:
            continue
        reads = any(e[1] == "SteelThread" and e[2] == "stack_frames" for _, _, e in fn.events("fld"))
        writes = any(("w" in e[3] or "m" in e[3]) and e[1] == "SteelThread" for _, _, e in fn.events("fld"))
        if reads and not writes and any(re.search(r"Vec<T,A>\}::len$", b["callee"]) for _, b in fn.calls()):
            preds.add(n)
    if not preds:
        raise CheckError("anchor lost: no frame-depth predicate in steel_vm::vm::jit")
    pf = {n for n, f in F.fns.items() if n.startswith("steel::steel_vm::") and c09.push_blocks(f)}
    memo = {}

    def installs(c, depth=2):
        if c in pf:
            return True
        if depth == 0 or c not in F.fns or not re.search(r"\{impl VmCore\}::|steel_vm::vm::jit::", c):
            return False
        k = (c, depth)
        if k not in memo:
            memo[k] = False
            memo[k] = any(installs(d, depth - 1) for d in F.callees(F.fns[c], expand_unresolved=False, closures=False))
        return memo[k]
    n = 0
    for name, fn in sorted(F.fns.items()):
        if not name.startswith("steel::steel_vm::vm::jit::") or name in preds:
            continue
        tests = [i for i, b in fn.calls() if b["callee"] in preds]
        if not tests:
            continue
        n += 1
        inst = [i for i, b in fn.calls() if b["callee"] not in preds and installs(b["callee"])]
        bad = [(p, t) for p in inst for t in tests if t in fn.reachable_from(fn.succ(p))]
        R.inst(rid, "%s / trampoline decision before the frame is installed" % fn.short(), not bad,
               "%s installs the callee's frame (%s, line %s) and evaluates the frame-depth predicate %s afterwards (line %s): "
               "the predicate now sees one frame more than the check made before the call, and the two disagree at the "
               "threshold" % (fn.short(), lib.split_path(fn.blocks[bad[0][0]]["callee"])[-1] if bad else "", fn.blocks[bad[0][0]]["line"] if bad else "",
                              lib.split_path(fn.blocks[bad[0][1]]["callee"])[-1] if bad else "", fn.blocks[bad[0][1]]["line"] if bad else ""),
               fn.loc(fn.blocks[bad[0][1]]["line"] if bad else None), sample=n <= 3)
    R.floor(rid, "runtime helpers that evaluate a frame-depth predicate", n, 20)


def installer_agreement_rule(F, R, rid="C02.u"):
    R.rule(rid, "a JIT runtime helper installs the callee's frame the same way on every branch: the frame installers of VmCore "
                "come in a checking form (reaches adjust_stack_for_multi_arity / raises ArityMismatch: rest arguments are "
                "collected, a wrong count is an error) and a trusting form (`…_no_arity`); a helper that uses the checking form "
                "on one branch (so the call site's count was not verified at compile time) does not use the trusting form on "
                "another (sibling agreement between the native-callee branch and the interpreter fallbacks). nc: otherwise the "
                "result of a call depends on whether the callee happened to be compiled / on the frame depth — "
                "`(many x 2 … 11)` with a rest-argument callee answered (2 3 10 11) from compiled code")
    inst = [fn for n, fn in F.fns.items() if re.search(r"\{impl VmCore\}::handle_function_call_closure_jit\w*$", n)]
    if len(inst) < 2:
        raise CheckError("anchor lost: VmCore's JIT frame installers")
    checking, trusting = set(), set()
    for fn in inst:
        deep = [b["callee"] for _, b in lib.deep_calls(F, fn, depth=2)]
        arity = any(re.search(r"adjust_stack_for_multi_arity$", c) for c in deep) or \
            any(e[0] == "agg" and e[1] == "ErrorKind" and e[2] == "ArityMismatch" for _, e in lib.deep_events(F, fn, "agg", depth=2))
        (checking if arity else trusting).add(fn.name)
    if not checking or not trusting:
        raise CheckError("anchor lost: no checking / trusting pair among the JIT frame installers (%d / %d)" % (len(checking), len(trusting)))
    n = 0
    for name, fn in sorted(F.fns.items()):
        if not name.startswith("steel::steel_vm::vm::jit::"):
            continue
        c = [(i, b) for i, b in fn.calls() if b["callee"] in checking]
        t = [(i, b) for i, b in fn.calls() if b["callee"] in trusting]
        if not c:
            continue
        n += 1
        R.inst(rid, "%s / one way of installing the callee's frame" % fn.short(), not t,
               "%s installs the callee's frame with the arity-checking %s (line %s) on one branch and with the trusting %s "
               "(line %s) on another: on that branch rest arguments are not collected and a wrong argument count is not "
               "reported" % (fn.short(), lib.split_path(c[0][1]["callee"])[-1], c[0][1]["line"],
                             lib.split_path(t[0][1]["callee"])[-1] if t else "", t[0][1]["line"] if t else ""),
               fn.loc(t[0][1]["line"] if t else None), sample=n <= 3)
    R.floor(rid, "helpers using the arity-checking installer", n, 2)
