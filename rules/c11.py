"""C11 — equal values are interchangeable as keys (DESIGN §4 C11, low priority).

Decided clause: class agreement between equality and hashing per value kind — a kind that equal? compares structurally
must be hashed structurally (hashing by address would separate equal keys), and no kind's hash arm is an unfinished-code
macro.  Equivalence-relation laws, sharing-insensitivity and the collections' behaviour are not decided.
"""
import re

from . import lib, c01
from .lib import CheckError

# kinds excluded with the reason
EXCLUDE = {
    "Custom": "equality of host custom types is opt-in per type (CustomType::equality_hint); the built-in types that opt in "
              "(SystemTime, the MutableVector wrapper) cannot be constructed twice with equal contents from a script",
}


def hash_classes(F):
    h = F.one(r"\{impl Hash for SteelVal\}::hash$")
    sws = lib.enum_switches(h, "SteelVal")
    if not sws:
        raise CheckError("anchor lost: <SteelVal as Hash>::hash does not match on SteelVal")
    sw = max(sws, key=lambda s: len(h.blocks[s]["targets"]))
    ac = lib.arm_calls(h, sw)
    out = {}
    for v, calls in ac.items():
        if v == "_":
            continue
        ident = any(re.search(r"::as_ptr$|as_ptr_usize$", c) for c, _ in calls)
        panics = any("panicking" in c for c, _ in calls)
        out[v] = ("panic" if panics else "identity" if ident else "structural", [lib.short_name(c) for c, _ in calls][:3])
    return h, out


def eq_classes(F):
    fns = F.find(r"RecursiveEqualityHandler\}::visit$")
    if len(fns) != 1:
        raise CheckError("anchor lost: RecursiveEqualityHandler::visit")
    fn = fns[0]
    sws = lib.enum_switches(fn, "SteelVal")
    dom = fn.dominators()
    tops = [s for s in sws if not any(o != s and o in dom[s] for o in sws)]
    if not tops:
        raise CheckError("anchor lost: no top-level SteelVal match in RecursiveEqualityHandler::visit")
    m = lib.arm_map(fn, tops[0])
    res = {}
    for v, t in m.items():
        if v == "_":
            continue
        blocks = fn.reachable_from([t], avoid=set(tops))
        for ns in [s for s in sws if s in blocks and s not in tops]:
            nm = lib.arm_map(fn, ns)
            if v in nm and nm[v] != nm["_"]:
                arm = fn.reachable_from([nm[v]], avoid=set(sws))
                calls = [fn.blocks[b]["callee"] for b in arm if fn.blocks[b]["k"] == "call"]
                ident = any(re.search(r"::ptr_eq$", c) for c in calls)
                struct = any(re.search(r"::visit_\w+$|PartialEq.*::(eq|ne)$|should_visit$|::(len|eq|ne)$", c) for c in calls)
                res[v] = "structural" if struct else ("identity" if ident else "scalar")
                break
    return fn, res


def run(F, R, ctx):
    R.rule("C11.a", "for each value kind whose (kind,kind) arm in RecursiveEqualityHandler::visit compares structurally "
                    "(descends / compares contents), the arm of <SteelVal as Hash>::hash hashes contents, not an address")
    R.rule("C11.h", "no arm of <SteelVal as Hash>::hash is an unfinished-code / panicking arm")
    h, hc = hash_classes(F)
    fn, ec = eq_classes(F)
    R.floor("C11.a", "hash arms classified", len(hc), 30)
    R.floor("C11.a", "equality arms classified", len(ec), 10)
    for v in sorted(ec):
        if v in EXCLUDE:
            R.inst("C11.a", "kind %s (excluded)" % v, True, sample={"excluded": EXCLUDE[v]}, nontrivial=False)
            continue
        hcl = hc.get(v, ("missing", []))[0]
        ok = not (ec[v] == "structural" and hcl == "identity")
        R.inst("C11.a", "kind %s: equality %s / hash %s" % (v, ec[v], hcl), ok,
               "equal? compares SteelVal::%s structurally but <SteelVal as Hash>::hash hashes its address: two equal values "
               "of this kind land in different buckets, so an equal key does not find the entry" % v, h.loc(),
               sample={"hash_calls": hc.get(v, ("", []))[1]})
    union_rule(F, R)
    for v in sorted(hc):
        R.inst("C11.h", "hash arm %s is implemented" % v, hc[v][0] != "panic",
               "<SteelVal as Hash>::hash panics for SteelVal::%s: using such a value as a key aborts the host" % v, h.loc(),
               nontrivial=False)


def union_rule(F, R):
    R.rule("C11.u", "hash-union is left-biased in every ownership arm (sibling agreement): each call of the persistent map's "
                    "union in hm_union takes (a value derived from) the left operand as receiver and the right operand as "
                    "argument, so the result on duplicate keys does not depend on which operand happened to be uniquely owned")
    fn = F.one(r"^steel::primitives::hashmaps::hm_union$")
    us = [(i, b) for i, b in fn.calls() if re.search(r"::union$", b["callee"])]
    R.floor("C11.u", "union calls in hm_union", len(us), 3)
    tl = lib.tainted_locals(fn, ["_1"])
    tr = lib.tainted_locals(fn, ["_2"])
    for n_, (i, b) in enumerate(us):
        a0 = set(re.findall(r"_\d+", b["args"][0]))
        a1 = set(re.findall(r"_\d+", b["args"][1])) if len(b["args"]) > 1 else set()
        recv_left = bool(a0 & tl) and not (a0 & tr and not a0 & tl)
        arg_right = bool(a1 & tr)
        # a local can be tainted by both when it was assigned in both arms; require the discriminating direction
        ok = bool(a0 & tl) and bool(a1 & tr) and not (bool(a0 & tr) and not bool(a0 & tl))
        only_right_recv = bool(a0 & tr) and not bool(a0 & tl)
        R.inst("C11.u", "hm_union / union call #%d is left.union(right)" % n_, ok and not only_right_recv,
               "hm_union calls union with the right operand as receiver (line %s): the persistent map keeps the receiver's "
               "value on duplicate keys, so this ownership arm is right-biased while its siblings are left-biased — "
               "(hash-union a b) returns a different value for a shared key depending on how a and b are owned" % b["line"],
               fn.loc(b["line"]), sample={"receiver": b["args"][0], "argument": b["args"][1] if len(b["args"]) > 1 else ""})
