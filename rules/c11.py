"""C11 — equal values are interchangeable as keys (DESIGN §4 C11, low priority).

Decided clause: class agreement between equality and hashing per value kind — a kind that equal? compares structurally
must be hashed structurally (hashing by address would separate equal keys), and no kind's hash arm is an unfinished-code
macro.  Equivalence-relation laws, sharing-insensitivity and the collections' behaviour are not decided.
"""
import re

from . import lib, c01
from .lib import CheckError

# kinds excluded with the reason
EXCLUDE = {
    "Custom": "equality of host custom types is opt-in per type (CustomType::equality_hint); the built-in types that opt in "
              "(SystemTime, the MutableVector wrapper) cannot be constructed twice with equal contents from a script",
}


def hash_classes(F):
    h = F.one(r"\{impl Hash for SteelVal\}::hash$")
    sws = lib.enum_switches(h, "SteelVal")
    if not sws:
        raise CheckError("anchor lost: <SteelVal as Hash>::hash does not match on SteelVal")
    sw = max(sws, key=lambda s: len(h.blocks[s]["targets"]))
    ac = lib.arm_calls(h, sw)
    out = {}
    for v, calls in ac.items():
        if v == "_":
            continue
        ident = any(re.search(r"::as_ptr$|as_ptr_usize$", c) for c, _ in calls)
        panics = any("panicking" in c for c, _ in calls)
        out[v] = ("panic" if panics else "identity" if ident else "structural", [lib.short_name(c) for c, _ in calls][:3])
    return h, out


def eq_classes(F):
    fns = F.find(r"RecursiveEqualityHandler\}::visit$")
    if len(fns) != 1:
        raise CheckError("anchor lost: RecursiveEqualityHandler::visit")
    fn = fns[0]
    sws = lib.enum_switches(fn, "SteelVal")
    dom = fn.dominators()
    tops = [s for s in sws if not any(o != s and o in dom[s] for o in sws)]
    if not tops:
        raise CheckError("anchor lost: no top-level SteelVal match in RecursiveEqualityHandler::visit")
    m = lib.arm_map(fn, tops[0])
    res = {}
    for v, t in m.items():
        if v == "_":
            continue
        blocks = fn.reachable_from([t], avoid=set(tops))
        for ns in [s for s in sws if s in blocks and s not in tops]:
            nm = lib.arm_map(fn, ns)
            if v in nm and nm[v] != nm["_"]:
                arm = fn.reachable_from([nm[v]], avoid=set(sws))
                calls = [fn.blocks[b]["callee"] for b in arm if fn.blocks[b]["k"] == "call"]
                ident = any(re.search(r"::ptr_eq$", c) for c in calls)
                struct = any(re.search(r"::visit_\w+$|PartialEq.*::(eq|ne)$|should_visit$|::(len|eq|ne)$", c) for c in calls)
                res[v] = "structural" if struct else ("identity" if ident else "scalar")
                break
    return fn, res


def run(F, R, ctx):
    R.rule("C11.a", "for each value kind whose (kind,kind) arm in RecursiveEqualityHandler::visit compares structurally "
                    "(descends / compares contents), the arm of <SteelVal as Hash>::hash hashes contents, not an address")
    R.rule("C11.h", "no arm of <SteelVal as Hash>::hash is an unfinished-code / panicking arm")
    h, hc = hash_classes(F)
    fn, ec = eq_classes(F)
    R.floor("C11.a", "hash arms classified", len(hc), 30)
    R.floor("C11.a", "equality arms classified", len(ec), 10)
    for v in sorted(ec):
        if v in EXCLUDE:
            R.inst("C11.a", "kind %s (excluded)" % v, True, sample={"excluded": EXCLUDE[v]}, nontrivial=False)
            continue
        hcl = hc.get(v, ("missing", []))[0]
        ok = not (ec[v] == "structural" and hcl == "identity")
        R.inst("C11.a", "kind %s: equality %s / hash %s" % (v, ec[v], hcl), ok,
               "equal? compares SteelVal::%s structurally but <SteelVal as Hash>::hash hashes its address: two equal values "
               "of this kind land in different buckets, so an equal key does not find the entry" % v, h.loc(),
               sample={"hash_calls": hc.get(v, ("", []))[1]})
    union_rule(F, R)
    fresh_storage_rule(F, R)
    cross_side_rule(F, R)
    nested_arm_rule(F, R)
    unordered_hash_rule(F, R)
    length_rule(F, R)
    identity_field_rule(F, R)
    symbol_identity_rule(F, R)
    visited_rules(F, R)
    shortcut_rule(F, R)
    list_identity_rule(F, R)
    cross_kind_hash_rule(F, R)
    for v in sorted(hc):
        R.inst("C11.h", "hash arm %s is implemented" % v, hc[v][0] != "panic",
               "<SteelVal as Hash>::hash panics for SteelVal::%s: using such a value as a key aborts the host" % v, h.loc(),
               nontrivial=False)


def union_rule(F, R, rid="C11.u"):
    from . import pairmatch
    R.rule(rid, "hash-union is left-biased in every ownership arm (sibling agreement): each call of the persistent map's "
                "union in hm_union takes (a value derived from) the left operand as receiver and the right operand as "
                "argument, and every arm of the match on which operands are uniquely owned (Some/None of the two get_mut "
                "results) computes its result through such a call — so the result on duplicate keys does not depend on "
                "which operand happened to be uniquely owned (an arm that merges by hand, entry by entry, is not checked "
                "against its siblings and is reported)")
    fn = F.one(r"^steel::primitives::hashmaps::hm_union$")
    us = [(i, b) for i, b in fn.calls() if re.search(r"::union$", b["callee"])]
    R.floor(rid, "union calls in hm_union", len(us), 3)
    pms = pairmatch.pair_matches(fn, "Option")
    if not pms:
        raise CheckError("anchor lost: hm_union does not match on the pair of get_mut results")
    pm = max(pms, key=lambda p_: len(p_.side_of))
    entries = {}
    for l in ("Some", "None"):
        for r in ("Some", "None"):
            entries.setdefault(pm.arm(l, r), []).append((l, r))
    ublocks = {i for i, _ in us}
    for e, pairs in sorted(entries.items()):
        region = fn.reachable_from([e], avoid=set(entries) - {e})
        R.inst(rid, "hm_union / ownership arm %s merges through union" % "/".join("(%s, %s)" % p_ for p_ in pairs),
               bool(region & ublocks),
               "the arm of hm_union taken when the operands' unique ownership is %s builds its result without calling the "
               "persistent map's union: whatever it does by hand decides duplicate keys on its own (folding the left map's "
               "missing entries into the right one keeps the RIGHT value), so (hash-union a b) depends on how a and b are "
               "owned" % ", ".join("(left %s, right %s)" % p_ for p_ in pairs), fn.loc(fn.blocks[e].get("line")), sample=True)
    tl = lib.tainted_locals(fn, ["_1"])
    tr = lib.tainted_locals(fn, ["_2"])
    for n_, (i, b) in enumerate(us):
        a0 = set(re.findall(r"_\d+", b["args"][0]))
        a1 = set(re.findall(r"_\d+", b["args"][1])) if len(b["args"]) > 1 else set()
        recv_left = bool(a0 & tl) and not (a0 & tr and not a0 & tl)
        arg_right = bool(a1 & tr)
        # a local can be tainted by both when it was assigned in both arms; require the discriminating direction
        ok = bool(a0 & tl) and bool(a1 & tr) and not (bool(a0 & tr) and not bool(a0 & tl))
        only_right_recv = bool(a0 & tr) and not bool(a0 & tl)
        R.inst(rid, "hm_union / union call #%d is left.union(right)" % n_, ok and not only_right_recv,
               "hm_union calls union with the right operand as receiver (line %s): the persistent map keeps the receiver's "
               "value on duplicate keys, so this ownership arm is right-biased while its siblings are left-biased — "
               "(hash-union a b) returns a different value for a shared key depending on how a and b are owned" % b["line"],
               fn.loc(b["line"]), sample={"receiver": b["args"][0], "argument": b["args"][1] if len(b["args"]) > 1 else ""})


def cross_side_rule(F, R):
    R.rule("C11.c", "equality of keyed collections compares across the two sides: in RecursiveEqualityHandler::visit every "
                    "membership / lookup call on a hash set or hash map (contains, contains_key, get) whose key comes from "
                    "iterating one operand is made on the OTHER operand")
    fn, _ = eq_classes(F)
    sws = lib.enum_switches(fn, "SteelVal")
    dom = fn.dominators()
    tops = [s_ for s_ in sws if not any(o != s_ and o in dom[s_] for o in sws)]
    pl = fn.blocks[tops[0]]["place"]          # e.g. "_21.0": the matched (left, right) tuple
    m = re.match(r"(_\d+)\.0", pl.strip("()*"))
    if not m:
        raise CheckError("anchor lost: RecursiveEqualityHandler::visit does not match on a (left, right) tuple (%s)" % pl)
    tup = m.group(1)
    tl = lib.tainted_locals(fn, [tup + ".0"])
    tr = lib.tainted_locals(fn, [tup + ".1"])
    n = 0
    for i, b in fn.calls():
        if not (re.search(r"::(contains|contains_key|get)$", b["callee"]) and re.search(r"Hash(Set|Map)", b["callee"])):
            continue
        if len(b["args"]) < 2:
            continue
        recv = set(lib.TOK.findall(b["args"][0]))
        key = set(lib.TOK.findall(b["args"][1]))
        rL, rR = any(x in tl for x in recv), any(x in tr for x in recv)
        kL, kR = any(x in tl for x in key), any(x in tr for x in key)
        n += 1
        same_side = (rL and not rR and kL and not kR) or (rR and not rL and kR and not kL)
        R.inst("C11.c", "%s at equality site #%d looks the key up on the other operand" % (lib.split_path(b["callee"])[-1], n),
               not same_side,
               "RecursiveEqualityHandler::visit calls %s (line %s) on the same operand whose elements it is iterating: the "
               "test is always true, so any two collections of that kind with the same number of elements compare equal" % (
                   lib.short_name(b["callee"]), b["line"]), fn.loc(b["line"]),
               sample={"receiver_from": "left" if rL and not rR else "right" if rR and not rL else "both/unknown",
                       "key_from": "left" if kL and not kR else "right" if kR and not kL else "both/unknown"})
    # the same lookups made inside a closure built here (`l.iter().all(|k| r.contains(k))`): the receiver is a captured
    # variable, the key comes from the iterator the closure is handed to
    def _side(toks):
        L, R_ = any(x in tl for x in toks), any(x in tr for x in toks)
        return "left" if L and not R_ else "right" if R_ and not L else "both/unknown"
    for i, blk in enumerate(fn.blocks):
        for e in blk["e"]:
            if e[0] != "closure_at" or e[2] not in F.fns:
                continue
            cl, cf = e[1], F.fns[e[2]]
            looks = [cb for _, cb in cf.calls()
                     if re.search(r"::(contains|contains_key|get)$", cb["callee"]) and re.search(r"Hash(Set|Map)", cb["callee"])
                     and len(cb["args"]) >= 2]
            if not looks:
                continue
            mvs = {}
            for b2 in cf.blocks:
                for ev in b2["e"]:
                    if ev[0] == "mv":
                        mvs.setdefault(ev[1], set()).add(ev[2])
            for b2 in cf.blocks:
                if b2["k"] == "call" and b2.get("dest"):
                    d = re.match(r"_\d+", b2["dest"])
                    if d and re.search(r"::(deref|as_ref|borrow|clone)$", b2["callee"]):
                        mvs.setdefault(d.group(0), set()).update(b2["args"][:1])

            def roots(tok):
                seen, st, up, arg = set(), [tok], set(), False
                while st:
                    x = st.pop()
                    if x in seen:
                        continue
                    seen.add(x)
                    for src in set(mvs.get(x, ())) | set(mvs.get(x.split(".")[0], ())):
                        m_ = re.search(r"_1\)?\.(\d+)", src)
                        if m_:
                            up.add(int(m_.group(1)))
                            continue
                        for t_ in lib.TOK.findall(src):
                            if t_.split(".")[0] == "_2":
                                arg = True
                            st.append(t_)
                    if x.split(".")[0] == "_2":
                        arg = True
                return up, arg
            # captured variables and the iterator, in the parent
            cap = {}
            for ev in blk["e"]:
                if ev[0] == "mv" and ev[1].startswith(cl + "."):
                    cap[int(ev[1].split(".")[1])] = set(lib.TOK.findall(ev[2]))
            users = [cb for _, cb in fn.calls() if any(cl in lib.TOK.findall(a) for a in cb["args"])]
            iter_toks = set()
            for cb in users:
                for a in cb["args"]:
                    ts = lib.TOK.findall(a)
                    if cl not in ts:
                        iter_toks.update(ts)
            for cb in looks:
                n += 1
                sides = []
                for a in cb["args"][:2]:
                    up, arg = set(), False
                    for t_ in lib.TOK.findall(a):
                        u, g = roots(t_)
                        up |= u
                        arg = arg or g
                    toks = set()
                    for k in up:
                        toks |= cap.get(k, set())
                    if arg:
                        toks |= iter_toks
                    sides.append(_side(toks))
                same_side = sides[0] == sides[1] and sides[0] in ("left", "right")
                R.inst("C11.c", "%s at equality site #%d (in a closure) looks the key up on the other operand" % (
                    lib.split_path(cb["callee"])[-1], n), not same_side,
                       "RecursiveEqualityHandler::visit calls %s (line %s, inside a closure) on the same operand whose elements "
                       "it is iterating: the test is always true, so any two collections of that kind with the same number of "
                       "elements compare equal" % (lib.short_name(cb["callee"]), cb["line"]), fn.loc(cb["line"]),
                       sample={"receiver_from": sides[0], "key_from": sides[1]})
    R.floor("C11.c", "keyed-collection lookups in equality", n, 2)


def _visit_tree(F):
    """the (left, right) decision tree of RecursiveEqualityHandler::visit: returns (fn, tuple-local, top switch,
    pair_arm(lv, rv) -> entry block of the match arm taken for that pair of kinds, header blocks)"""
    fn, _ = eq_classes(F)
    sws = lib.enum_switches(fn, "SteelVal")
    dom = fn.dominators()
    tops = [s_ for s_ in sws if not any(o != s_ and o in dom[s_] for o in sws)]
    top = tops[0]
    m = re.match(r"(_\d+)\.0", fn.blocks[top]["place"].strip("()*"))
    if not m:
        raise CheckError("anchor lost: RecursiveEqualityHandler::visit does not match on a (left, right) tuple")
    tup = m.group(1)

    def pair_arm(lv, rv):
        b = top
        for _ in range(64):
            blk = fn.blocks[b]
            if blk["k"] == "goto" and len(blk["s"]) == 1:
                b = blk["s"][0]
                continue
            if blk["k"] == "switch" and blk["on"] == "enum:SteelVal" and blk["place"].strip("()*") in (tup + ".0", tup + ".1"):
                v = lv if blk["place"].strip("()*") == tup + ".0" else rv
                t = [x for n, x in blk["targets"] if n == v]
                b = t[0] if t else blk["otherwise"]
                continue
            return b
        raise CheckError("decision tree of RecursiveEqualityHandler::visit too deep")
    return fn, tup, top, pair_arm, set(dom[top])


def nested_arm_rule(F, R):
    R.rule("C11.n", "nested equality agrees with top-level equality on which kinds are comparable (sibling agreement): every "
                    "value kind that <SteelVal as PartialEq>::eq compares in a direct (kind, kind) arm also has a (kind, kind) "
                    "arm in RecursiveEqualityHandler::visit, which is what compares the same two values when they sit inside "
                    "a list, vector, pair, struct or hash table")
    pe = F.one(r"^steel::rvals::cycles::\{impl PartialEq<SteelVal> for SteelVal\}::eq$")
    sws = lib.enum_switches(pe, "SteelVal")
    if len(sws) < 2:
        raise CheckError("anchor lost: <SteelVal as PartialEq>::eq does not match on a pair of SteelVals")
    dom = pe.dominators()
    top = [s_ for s_ in sws if not any(o != s_ and o in dom[s_] for o in sws)][0]
    direct = set()
    tm = lib.arm_map(pe, top)
    for v, t in tm.items():
        if v == "_":
            continue
        # the arm exists when, below the left test, a test of the other operand for the same kind leads somewhere else
        # than the catch-all
        b = t
        for _ in range(8):
            blk = pe.blocks[b]
            if blk["k"] == "goto" and len(blk["s"]) == 1:
                b = blk["s"][0]
                continue
            break
        blk = pe.blocks[b]
        if blk["k"] == "switch" and blk["on"] == "enum:SteelVal":
            nm = lib.arm_map(pe, b)
            if v in nm and nm[v] != nm.get("_"):
                direct.add(v)
        elif v == "Void":
            direct.add(v)
    R.floor("C11.n", "direct arms of <SteelVal as PartialEq>::eq", len(direct), 10)
    fn, tup, top_v, pair_arm, hdr = _visit_tree(F)
    fall = pair_arm("Void", "BoolV")
    if pair_arm("IntV", "IntV") == fall:
        raise CheckError("anchor lost: could not separate the catch-all arm of RecursiveEqualityHandler::visit")
    for v in sorted(direct):
        R.inst("C11.n", "kind %s has a nested equality arm" % v, pair_arm(v, v) != fall,
               "<SteelVal as PartialEq>::eq compares two SteelVal::%s directly, but RecursiveEqualityHandler::visit has no "
               "(%s, %s) arm and falls into the catch-all `return false`: two equal values of this kind compare equal at "
               "top level and unequal as soon as they are elements of a container, e.g. (equal? (list x) (list x))" % (v, v, v),
               fn.loc(), sample=True)


def visited_rules(F, R):
    R.rule("C11.p", "the visited set that cuts repeated work in structural equality is keyed on both operands: at every call "
                    "in RecursiveEqualityHandler::visit of a method that inserts into RecursiveEqualityHandler.visited, the "
                    "key arguments derive from the left AND the right value (a key made from one side only makes a sub-value "
                    "that occurs twice on one side skip its second comparison, whatever it is paired with)")
    R.rule("C11.v", "finding a pair already visited never makes the comparison fail: from the already-visited outcome of "
                    "every visited-set test in RecursiveEqualityHandler::visit, control goes on to the next queued pair "
                    "(back to the loop head), never to a return")
    fn, tup, top, pair_arm, hdr = _visit_tree(F)
    # methods of the handler that insert into .visited
    inserters = []
    for n, f in F.fns.items():
        if "{impl RecursiveEqualityHandler" not in n or f is fn:
            continue
        wr = any(e[1] == "RecursiveEqualityHandler" and e[2] == "visited" for _, _, e in f.events("fld"))
        if wr and f.call_blocks(r"HashSet<T,S,A>\}::insert$|::insert$"):
            inserters.append(n)
    if not inserters:
        raise CheckError("anchor lost: no RecursiveEqualityHandler method inserts into .visited")
    tl = lib.tainted_locals(fn, [tup + ".0"])
    tr = lib.tainted_locals(fn, [tup + ".1"])
    sites = [(i, b) for i, b in fn.calls() if b["callee"] in inserters]
    R.floor("C11.p", "visited-set tests in RecursiveEqualityHandler::visit", len(sites), 7)
    rets = set(fn.returns())
    per_line = {}
    for i, b in sites:
        toks = set(x for a in b["args"][1:] for x in lib.TOK.findall(a))
        L = any(x in tl for x in toks)
        Rr = any(x in tr for x in toks)
        arm = _arm_of(fn, i, pair_arm, F)
        per_line.setdefault(arm, []).append((L, Rr, i, b))
    for arm in sorted(per_line):
        both = all(L and Rr for L, Rr, _, _ in per_line[arm])
        R.inst("C11.p", "%s arm: visited key combines both operands" % arm, both,
               "RecursiveEqualityHandler::visit tests the visited set with a key made from one operand only in the %s arm "
               "(line %s): when the same sub-value occurs twice on one side, its second occurrence is skipped without being "
               "compared with its counterpart — (equal? (list v v) (list w1 w2)) is #true as soon as v equals whichever of "
               "w1, w2 is compared first" % (arm, per_line[arm][0][3]["line"]), fn.loc(per_line[arm][0][3]["line"]),
               sample={"sides": [("L" if L else "") + ("R" if Rr else "") for L, Rr, _, _ in per_line[arm]]})
        bad = None
        for L, Rr, i, b in per_line[arm]:
            t, f = lib.bool_branch(fn, i)
            if f is None:
                continue
            if rets & fn.reachable_from([f], avoid=hdr):
                bad = b
        R.inst("C11.v", "%s arm: an already-visited pair is skipped, not unequal" % arm, bad is None,
               "in the %s arm of RecursiveEqualityHandler::visit the already-visited outcome of the visited-set test leads "
               "to a return (line %s) instead of the next pair: a value that occurs twice in the compared structure makes "
               "equal? answer #false for structurally equal values" % (arm, bad["line"] if bad else "?"),
               fn.loc(bad["line"] if bad else None), sample=True)


def _arm_of(fn, block, pair_arm, F):
    kinds = [v["name"] for v in F.adt("SteelVal")["variants"]]
    for v in kinds:
        e = pair_arm(v, v)
        if block in fn.reachable_from([e], avoid=set(fn.dominators()[e]) - {e}):
            dom = fn.dominators()
            if e in dom[block]:
                return v
    return "?"


def unordered_hash_rule(F, R):
    R.rule("C11.o", "hashing an unordered collection does not depend on its iteration order: in the Hash impl of every "
                    "SteelVal payload type backed by a hash map / hash set (each instance has its own RandomState, so two "
                    "equal collections iterate in different orders), no call that receives the caller's hasher lies on a "
                    "loop — elements are hashed separately and combined commutatively, the caller's hasher is fed once")
    n = 0
    for a_name, a in F.adts.items():
        if not a_name.startswith("steel::rvals::"):
            continue
        backs = [f for v in a["variants"] for f in v["fields"] if re.search(r"Generic(HashMap|HashSet)|\bHash(Map|Set)<", f["ty"])]
        if not backs:
            continue
        hs = F.find(r"^steel::rvals::\{impl Hash for %s\}::hash$" % re.escape(a["short"]))
        if not hs:
            continue
        fn = hs[0]
        n += 1
        ts = lib.tainted_locals(fn, ["_2"])
        bad = None
        for i, b in fn.calls():
            if i not in fn.reachable_from(fn.succ(i)):
                continue
            if any(x in ts for a_ in b["args"] for x in lib.TOK.findall(a_)) and not re.search(
                    r"Iterator>::next$|::into_iter$", b["callee"]):
                bad = b
                break
        R.inst("C11.o", "<%s as Hash>::hash feeds the caller's hasher outside the element loop" % a["short"], bad is None,
               "<%s as Hash>::hash passes the caller's hasher to %s inside its loop over the entries (line %s): the result "
               "depends on the iteration order, which differs between two equal collections (separate RandomState per "
               "instance), so an equal? map/set used as a key or set member is not found — "
               "(hash-contains? (hash (hash 'a 1 'b 2) #t) (hash 'a 1 'b 2)) is #false" % (
                   a["short"], lib.short_name(bad["callee"]) if bad else "", bad["line"] if bad else ""),
               fn.loc(), sample=True)
    if n == 0 and "imbl" not in (F.meta.get("features") or []):
        R.note("C11.o: without the `imbl` feature the hash collections are the im/im-rc crates' types and their Hash impl is "
               "the dependency's (not analysed).")
        return
    R.floor("C11.o", "hash-backed payload types with a Hash impl", n, 2)


VAR_DESC = r"EqualityVisitor\b.*::visit_(immutable_vector|mutable_vector|list|hash_map|hash_set)$"
SEQ_KINDS = ["ListV", "VectorV", "MutableVector", "HashMapV", "HashSetV"]


def length_rule(F, R):
    from . import c07
    R.rule("C11.l", "containers of different sizes are never flattened into the comparison queues: in every arm of "
                    "RecursiveEqualityHandler::visit for a pair of sequence / hash-collection kinds that pushes the elements of "
                    "both sides onto the two work queues (visit_immutable_vector, visit_mutable_vector, visit_list, … or a "
                    "push_back loop), the pushes are dominated by a branch comparing a length taken from the left with a length "
                    "taken from the right. The queues are flat, so without the test two nestings whose length mismatches cancel "
                    "out — (vector 1 (vector 1)) and (vector (vector 1 1)) — compare equal")
    fn, tup, top, pair_arm, hdr = _visit_tree(F)
    maps = c07._backward(fn)
    dom = fn.dominators()
    fall = pair_arm("Void", "BoolV")

    def is_len(callee, blk):
        if re.search(r"::len$", callee):
            return True
        if re.search(r"HeapRef<T>\}::borrow$", callee):
            for e in blk["e"]:
                if e[0] == "closure" and e[1] in F.fns and F.fns[e[1]].call_blocks(r"::len$"):
                    return True
        return False
    lens = {}
    for i, b in fn.calls():
        d = re.match(r"_\d+", b.get("dest") or "")
        if d and is_len(b["callee"], b):
            lens[d.group(0)] = i
    tl = lib.tainted_locals(fn, [tup + ".0"])
    tr = lib.tainted_locals(fn, [tup + ".1"])
    n = 0
    seen = set()
    for lv in SEQ_KINDS:
        for rv in SEQ_KINDS:
            e = pair_arm(lv, rv)
            if e == fall or e in seen:
                continue
            seen.add(e)
            region = fn.reachable_from([e], avoid=hdr)
            desc = [b for b in region if fn.blocks[b]["k"] == "call" and (
                re.search(VAR_DESC, lib.short_name(fn.blocks[b]["callee"])) or
                (re.search(r"EqualityVisitor\b.*::push_back$", lib.short_name(fn.blocks[b]["callee"])) and
                 b in fn.reachable_from(fn.succ(b), avoid=hdr)))]
            if not desc:
                continue
            n += 1
            ok_all = True
            for dblk in desc:
                ok = False
                for sb in dom[dblk]:
                    if sb not in region and sb != e:
                        continue
                    blk = fn.blocks[sb]
                    if blk["k"] != "switch":
                        continue
                    loc = re.match(r"_\d+", blk.get("place", "").strip("()*"))
                    if not loc:
                        continue
                    org = c07._origins(fn, loc.group(0), maps)
                    ls = [o for o in org if o in lens]
                    sides = set()
                    for o in ls:
                        args = fn.blocks[lens[o]]["args"]
                        toks = [t for a in args for t in lib.TOK.findall(a)]
                        if any(t in tl for t in toks):
                            sides.add("L")
                        if any(t in tr for t in toks):
                            sides.add("R")
                    if sides == {"L", "R"}:
                        ok = True
                ok_all = ok_all and ok
            R.inst("C11.l", "(%s, %s) arm compares the two lengths before flattening" % (lv, rv), ok_all,
                   "the (%s, %s) arm of RecursiveEqualityHandler::visit pushes the elements of both containers onto the flat "
                   "work queues without first comparing their lengths: nested containers whose length differences cancel out "
                   "compare equal — (equal? (vector 1 (vector 1)) (vector (vector 1 1))) => #true" % (lv, rv),
                   fn.loc(fn.blocks[e].get("line")), sample=True)
    R.floor("C11.l", "container arms that flatten both sides", n, 5)


def identity_field_rule(F, R):
    R.rule("C11.i", "hashing and equality agree on what identifies a value (sibling agreement): when the Hash impl of a payload "
                    "type feeds an identity field into the hasher (a field whose type is one of the repository's own types and "
                    "holds no SteelVal — e.g. UserDefinedStruct.type_descriptor), the (kind, kind) arm of "
                    "RecursiveEqualityHandler::visit compares that field with the field type's own equality (a call of "
                    "<FieldType as PartialEq>::eq/ne in the arm or in a helper it calls) — comparing something derived from it "
                    "(a name, a length) makes values equal? that hash differently, so an equal? key is not found")
    sv = F.adts.get("steel::rvals::SteelVal")
    if sv is None:
        raise CheckError("anchor lost: steel::rvals::SteelVal")
    fn, tup, top, pair_arm, header = _visit_tree(F)
    default = pair_arm("Void", "IntV")
    n = 0
    for v in sv["variants"]:
        arm = pair_arm(v["name"], v["name"])
        if arm == default:
            continue
        for p in sorted(set(x for f in v["fields"] for x in f.get("mentions", []))):
            if not p.startswith("steel::") or p not in F.adts:
                continue
            short = p.split("::")[-1]
            hs = [x for x in F.fns if re.search(r"\{impl Hash for %s(<[^}]*>)?\}::hash$" % re.escape(short), x)]
            if not hs:
                continue
            hashed = sorted(set(e[2] for _, e in lib.deep_events(F, F.fns[hs[0]], "fld", depth=1) if e[1] == short))
            ftypes = {f["name"]: f for vv in F.adts[p]["variants"] for f in vv["fields"]}
            for f in hashed:
                fd = ftypes.get(f)
                if fd is None:
                    continue
                ments = [m_ for m_ in fd.get("mentions", []) if m_.startswith("steel::") and m_ in F.adts]
                if not ments or "SteelVal" in fd["ty"] or any("SteelVal" in str(F.adts[m_]) for m_ in ments):
                    continue
                tshort = fd["ty"].split("<")[0]
                eqrx = re.compile(r"\{impl PartialEq(<[^>]*>)? for %s(<[^}]*>)?\}::(eq|ne)$" % re.escape(tshort))
                if not any(eqrx.search(x) for x in F.fns):
                    continue
                n += 1
                region = fn.reachable_from([arm], avoid=header)
                found = False
                for b in region:
                    blk = fn.blocks[b]
                    if blk["k"] != "call":
                        continue
                    if eqrx.search(blk["callee"]):
                        found = True
                    elif blk["callee"] in F.fns and blk["callee"].startswith("steel::"):
                        if any(eqrx.search(cb["callee"]) for _, cb in lib.deep_calls(F, F.fns[blk["callee"]], depth=1)):
                            found = True
                R.inst("C11.i", "(%s, %s) arm compares %s.%s with <%s as PartialEq>" % (v["name"], v["name"], short, f, tshort), found,
                       "<%s as Hash>::hash feeds %s.%s into the hasher, but the (%s, %s) arm of RecursiveEqualityHandler::visit "
                       "never compares it with <%s as PartialEq>::eq: two values that differ only in that field are equal? and "
                       "hash differently (an equal? key is not found in a hash map / set)" % (short, short, f, v["name"], v["name"], tshort),
                       fn.loc(fn.blocks[arm].get("line")), sample={"hash_impl": lib.short_name(hs[0])})
    R.floor("C11.i", "identity fields fed into a payload's Hash", n, 1)


def symbol_identity_rule(F, R):
    R.rule("C11.s", "equal symbols are eq?: eq?/eqv? compare symbols by address, so every symbol that enters a program as part of "
                    "a constant or of data read at run time must be the shared allocation the constant map hands out. The "
                    "constant map's interning walk (ConstantMap::walk_constants, entered from add_or_get) has an arm for every "
                    "container kind the quoted-datum converter can build (lists, vectors and — through Pair::cons — improper "
                    "lists): a kind without an arm keeps private copies of its symbols, and (assq 'b '((a . 1) (b . 2))), "
                    "(eq? (cadr '(a b . c)) 'b), memq and case fail on them")
    conv = [f for n, f in F.fns.items() if re.search(r"tryfrom_visitor::\{impl ConsumingVisitor for TryFromExprKindForSteelVal\}::", n)]
    if not conv:
        raise CheckError("anchor lost: TryFromExprKindForSteelVal")
    built = {"ListV"}
    for f in conv:
        for _, cb in lib.family_calls(F, f):
            if re.search(r"values::lists::\{impl Pair\}::cons$", cb["callee"]):
                built.add("Pair")
        for _, e in lib.family_events(F, f, "agg"):
            if e[1] == "SteelVal" and e[2] in ("VectorV", "Pair", "ListV", "HashMapV", "HashSetV"):
                built.add(e[2])
    wc = F.one(r"compiler::constants::\{impl ConstantMap\}::walk_constants$")
    ag = F.one(r"compiler::constants::\{impl ConstantMap\}::add_or_get$")
    def arms(fn):
        out = set()
        for sb in lib.enum_switches(fn, "SteelVal"):
            am = lib.arm_map(fn, sb)
            out |= {v for v, t in am.items() if v != "_" and t != am.get("_")}
        return out
    wa, ga = arms(wc), arms(ag)
    R.floor("C11.s", "container kinds built by the quoted-datum converter", len(built), 2)
    for k in sorted(built):
        R.inst("C11.s", "constants of kind %s have their elements interned" % k, k in wa and k in ga,
               "the quoted-datum converter builds SteelVal::%s values, but ConstantMap::%s has no arm for that kind: symbols "
               "inside such a constant (or such data read from a port) are private allocations, and eq? / eqv? / assq / "
               "memq / case, which compare symbols by address, do not recognise them as the symbols written in the program"
               % (k, "walk_constants" if k not in wa else "add_or_get (the entry that decides whether to walk)"),
               wc.loc(), sample={"walk_arms": sorted(wa), "entry_arms": sorted(ga)})


KIND_ONLY_CALL = r"core::mem::discriminant$|\{impl PartialEq(<[^}]*>)? for Discriminant<T>\}::(eq|ne)$|core::intrinsics::discriminant_value$"


def shortcut_rule(F, R):
    from . import pairmatch
    R.rule("C11.x", "a shortcut never calls a pair of values unequal that the full comparison can call equal: "
                    "RecursiveEqualityHandler::visit has arms for pairs of *different* kinds (derived by simulating its "
                    "decision tree: mutable vs immutable vector, …); every other `match` on a pair of SteelVals in the "
                    "equality machinery (the inner matches of visit and of the functions of rvals::cycles it calls that take "
                    "two values and answer bool / Option<bool>) is simulated for each such pair: from the arm it takes, an "
                    "answer `false` / `Some(false)` must not be reachable through kind tests alone (mem::discriminant "
                    "comparisons, no look at the contents). nc: otherwise two values that are equal? at top level are unequal "
                    "as elements of a list — equal? is not a congruence")
    fn, tup, top_v, pair_arm, hdr = _visit_tree(F)
    kinds = [v["name"] for v in F.adt("SteelVal")["variants"]]
    fall = pair_arm("Void", "BoolV")
    cross = [(l, r) for l in kinds for r in kinds if l != r and pair_arm(l, r) != fall]
    if not cross:
        raise CheckError("anchor lost: RecursiveEqualityHandler::visit has no arm for two values of different kinds")
    cands = {fn.name: fn}
    for _, cb in lib.deep_calls(F, fn, depth=2):
        c = F.fns.get(cb["callee"])
        if c is not None and c.name.startswith("steel::rvals") and re.match(r"(bool|Option<bool>)", c.d["out"]) and \
                sum(1 for t in c.d["in"] if t in ("&SteelVal", "SteelVal")) >= 2 and \
                not re.search(r"\{impl PartialEq<SteelVal> for SteelVal\}::eq$", c.name):
            cands[c.name] = c
    n = 0
    for name, f in sorted(cands.items()):
        for pm in pairmatch.pair_matches(f):
            if f is fn and pm.top in (top_v,) + tuple(hdr):
                continue
            if f is fn and pm.tup == tup:
                continue
            offenders, where_ = [], None
            for (l, r) in cross:
                e = pm.arm(l, r)
                # blocks reachable from the arm entry through kind-only calls
                seen, st, bad = set(), [e], None
                while st and bad is None:
                    b = st.pop()
                    if b in seen:
                        continue
                    seen.add(b)
                    blk = f.blocks[b]
                    for ev in blk["e"]:
                        if ev[0] == "kv" and ev[1].split(".")[0] == "_0" and ev[2] in ("const:0", "wrapped:Option::Some(const:0)"):
                            bad = b
                    if blk["k"] == "call" and not re.search(KIND_ONLY_CALL, blk["callee"]) and not (
                            re.search(r"core::cmp::PartialEq::(eq|ne)$", blk["callee"]) and any("Discriminant" in t for t in blk["targs"])):
                        continue
                    if blk["k"] == "switch" and blk["on"].startswith("enum:SteelVal") is False and blk["on"] not in ("bool",):
                        continue
                    for t in f.succ(b):
                        st.append(t)
                if bad is not None:
                    offenders.append((l, r))
                    where_ = where_ or f.blocks[bad].get("line") or f.blocks[e].get("line")
            n += 1
            R.inst("C11.x", "%s / inner match on %s decides no cross-kind comparable pair `unequal` by kind alone" % (f.short(), pm.tup),
                   not offenders,
                   "%s answers `unequal` for %d kind pairs after looking only at the kinds (e.g. %s; line %s), but "
                   "RecursiveEqualityHandler::visit has arms that compare such pairs by contents: the two values are equal? on "
                   "their own and unequal inside a list" % (f.short(), len(offenders), ", ".join("(%s, %s)" % p for p in offenders[:4]), where_),
                   f.loc(where_), sample={"pairs_simulated": len(cross), "offending": offenders[:8]})
    R.note("C11.x: cross-kind pairs with an arm in visit: %s" % ", ".join("(%s, %s)" % p for p in cross))
    R.floor("C11.x", "inner pair matches in the equality machinery", n, 1)


def list_identity_rule(F, R):
    R.rule("C11.q", "`same list` is decided from the whole identity of a list: the persistent list's storage_ptr_eq compares the "
                    "element storage and index of the FIRST node only (take / append copy that node, and the copy shares its "
                    "elements), so every function of steel-core that calls it also compares the next pointers "
                    "(next_ptr_as_usize) — or is the one helper that does, and equality code calls the helper. nc: two lists of "
                    "different length, or with different tails behind a shared first chunk, were equal? and eq?")
    n = 0
    for name, fn in sorted(F.fns.items()):
        if not name.startswith("steel::"):
            continue
        cs = [b for _, b in fn.calls() if re.search(r"GenericList<[^}]*\}::storage_ptr_eq$", b["callee"])]
        if not cs:
            continue
        n += 1
        nx = [b for _, b in fn.calls() if re.search(r"GenericList<[^}]*\}::next_ptr_as_usize$", b["callee"])]
        R.inst("C11.q", "%s / storage_ptr_eq together with the next pointers" % fn.short(), len(nx) >= 2,
               "%s treats two lists as the same list when their first nodes share element storage and index (storage_ptr_eq, "
               "line %s) without comparing what follows the first node: lists that share a first chunk but differ in length or "
               "tail compare equal" % (fn.short(), cs[0]["line"]), fn.loc(cs[0]["line"]), sample=True)
    R.floor("C11.q", "users of the first-node storage comparison", n, 1)
    # the same for the identity that keys the visited set of the equality handler: identity_tuple() is (element storage, index)
    # of the first node as well
    m = 0
    for name, fn in sorted(F.fns.items()):
        if not re.search(r"^steel::rvals::cycles::\{impl RecursiveEqualityHandler(<[^{}]*>)?\}::", name):
            continue
        ids = [b for _, b in fn.calls() if re.search(r"GenericList<[^}]*\}::identity_tuple$", b["callee"])]
        if not ids:
            continue
        m += 1
        nx = [b for _, b in fn.calls() if re.search(r"GenericList<[^}]*\}::next_ptr_as_usize$", b["callee"])]
        R.inst("C11.q", "%s / identity_tuple together with the next pointers" % fn.short(), len(nx) >= len(ids),
               "%s keys `this pair of lists was compared already` by identity_tuple() alone (line %s): two different lists made by "
               "take / append share it, so a pair that was never compared is skipped — (equal? (list x2 c) (list y2 d)) answered "
               "#true for x2 = (append c '(1 2 3)), y2 = (append d '(9 9 9)) with equal c and d" % (fn.short(), ids[0]["line"]),
               fn.loc(ids[0]["line"]), sample=True)
    R.inst("C11.q", "the equality handler's list identities examined", m >= 1,
           "RecursiveEqualityHandler no longer uses identity_tuple (anchor changed: the rule has nothing to decide)", nontrivial=False)


def cross_kind_hash_rule(F, R):
    R.rule("C11.g", "kinds that can be equal? to each other hash under the same tag: RecursiveEqualityHandler::visit has arms "
                    "for pairs of different kinds (derived; Custom excluded — user-defined equality); for each such pair "
                    "<SteelVal as Hash>::hash must not feed mem::discriminant(self) into the hasher on the way both kinds take "
                    "(the call lies outside the arms of the two kinds, or the two kinds share the arm of the match that chooses "
                    "the tag). nc: two equal? values with different hashes are not interchangeable as hash-map keys")
    fn, tup, top_v, pair_arm, hdr = _visit_tree(F)
    kinds = [v["name"] for v in F.adt("SteelVal")["variants"]]
    fall = pair_arm("Void", "BoolV")
    cross = sorted({tuple(sorted((l, r))) for l in kinds for r in kinds if l != r and "Custom" not in (l, r) and pair_arm(l, r) != fall})
    h = F.one(r"\{impl Hash for SteelVal\}::hash$")
    sws = lib.enum_switches(h, "SteelVal")
    if not sws:
        raise CheckError("anchor lost: <SteelVal as Hash>::hash does not match on the value")
    dom = h.dominators()
    first = min(sws)
    disc = [i for i, b in h.calls() if re.search(r"core::mem::discriminant$", b["callee"])
            and "_1" in lib.alias_sources(h, re.match(r"_\d+", b["args"][0]).group(0), 4)]
    n = 0
    for (a, b_) in cross:
        n += 1
        am = lib.arm_map(h, first)
        ta, tb = am.get(a, am["_"]), am.get(b_, am["_"])
        bad = None
        for d in disc:
            if d in dom[first] or first not in dom[d]:
                # tag taken before / independently of the first match: applies to every kind
                if d in dom[first]:
                    bad = d
                continue
            ra = d == ta or d in h.reachable_from([ta], avoid={first})
            rb = d == tb or d in h.reachable_from([tb], avoid={first})
            if (ra or rb) and ta != tb:
                bad = d
        R.inst("C11.g", "Hash / (%s, %s) hash under one tag" % (a, b_), bad is None,
               "<SteelVal as Hash>::hash feeds mem::discriminant(self) into the hasher for %s and %s (line %s), two kinds that "
               "RecursiveEqualityHandler::visit can find equal: equal? values of the two kinds have different hashes, so one "
               "cannot be looked up with the other in a hash map or set" % (a, b_, h.blocks[bad].get("line") if bad is not None else ""),
               h.loc(h.blocks[bad].get("line") if bad is not None else None), sample=True)
    R.floor("C11.g", "cross-kind comparable pairs (Custom aside)", n, 1)


def fresh_storage_rule(F, R):
    R.rule("C11.b", "a primitive that answers a new byte vector answers fresh storage: the handle of a mutable byte vector "
                    "(SteelByteVector: shared, lock-protected storage) is duplicated only by cloning the value that holds it "
                    "(<SteelVal as Clone>::clone — the same object, by design); no other function turns a clone of the handle into a value, so "
                    "every SteelVal::ByteVector a primitive builds comes from SteelByteVector::new. A result that shares storage with "
                    "an argument changes when the argument is edited in place (bytes-set!, bytes-push!): the sequence it was "
                    "answered for is no longer what it holds, and as a hash key it is lost")
    owners = [n for n in F.fns if re.search(r"\{impl Clone for SteelByteVector\}::clone$", n)]
    if not owners:
        raise CheckError("anchor lost: Clone for SteelByteVector")
    news = [n for n in F.fns if re.search(r"\{impl SteelByteVector\}::new$", n)]
    R.inst("C11.b", "SteelByteVector::new exists (fresh storage constructor)", bool(news),
           "SteelByteVector::new is gone (anchor changed)", nontrivial=False)
    bad = []
    n = 0
    for name, fn in sorted(F.fns.items()):
        if not name.startswith("steel::"):
            continue
        for _, b in fn.calls():
            if b["callee"] in owners:
                n += 1
                if re.search(r"\{impl Clone for SteelVal\}::clone$", name):
                    continue
                # a clone that is only read from is harmless; one that becomes a value handed out shares storage
                t_ = lib.tainted_locals(fn, [b["dest"]])
                becomes_value = any(e[0] == "agg" and e[1] == "SteelVal" and e[2] == "ByteVector" and
                                    any(x in t_ for o in e[4:] for x in lib.TOK.findall(str(o)))
                                    for _, _, e in fn.events("agg"))
                if becomes_value:
                    bad.append((fn, b))
    R.floor("C11.b", "clones of the byte-vector handle (the value's own Clone)", n, 1)
    R.inst("C11.b", "only <SteelVal as Clone>::clone duplicates a byte-vector handle", not bad,
           bad and ("%s clones the handle of a byte vector (line %s): what it builds from the clone shares storage with the value it "
                    "was cloned from — (apply bytes-append (list chunk)) answers chunk itself, and a later (bytes-set! result 0 77) "
                    "changes chunk too" % (bad[0][0].short(), bad[0][1].get("line"))),
           bad[0][0].loc(bad[0][1].get("line")) if bad else "", sample=True)
