"""Derived sets shared by several properties (DESIGN §3). Everything here is computed from the facts of the
current tree; only anchor names are fixed."""
import re

from . import lib
from .lib import CheckError

GLOBAL_ACCESS_RX = re.compile(r"::repl_(lookup|maybe_lookup|set|define)_idx$")


def vm_dispatch(F):
    """(fn, switch-block) of the interpreter's opcode dispatch"""
    vm = F.one(r"^steel::steel_vm::vm::\{impl VmCore\}::vm$")
    sbs = lib.enum_switches(vm, "OpCode")
    # the dispatch switch is the one with the most explicit targets
    if not sbs:
        raise CheckError("anchor lost: no switch on OpCode in VmCore::vm")
    sb = max(sbs, key=lambda b: len(vm.blocks[b]["targets"]))
    if len(vm.blocks[sb]["targets"]) < 60:
        raise CheckError("anchor lost: VmCore::vm dispatch switch has only %d explicit arms" % len(vm.blocks[sb]["targets"]))
    return vm, sb


def opcode_variants(F):
    a = F.adt("OpCode")
    return [v["name"] for v in a["variants"]]


def live_blocks(fn):
    """blocks reachable from entry when switches on compile-time constants (cfg!(..)) are resolved"""
    seen = {0}
    stack = [0]
    while stack:
        b = stack.pop()
        blk = fn.blocks[b]
        succ = fn.succ(b)
        if blk["k"] == "switch" and blk.get("cv") is not None:
            cv = str(blk["cv"])
            tgt = None
            for v, t in blk["targets"]:
                if v == cv:
                    tgt = t
            if tgt is None:
                tgt = blk["otherwise"]
            succ = [tgt]
        for s in succ:
            if s not in seen:
                seen.add(s)
                stack.append(s)
    return seen


EMIT_SCOPE = re.compile(r"^steel::(compiler::|steel_vm::(builtin|vm)::)")
EMIT_EXCLUDE = re.compile(r"(\{impl [^}]*Visitor[^}]* for __Visitor\}|\{impl From<u8> for OpCode\}|::jit2::|"
                          r"\{impl [^}]*(Debug|Display|Serialize|Deserialize)[^}]* for )")


def emit_set(F):
    """opcode -> set of functions constructing it as a value, over the code that builds executables:
    crate::compiler::*, steel_vm::builtin (hand-assembled builtins), steel_vm::vm (eval_program, the JIT trampoline)."""
    em = {}
    for n, fn in F.fns.items():
        if not EMIT_SCOPE.search(n) or EMIT_EXCLUDE.search(n):
            continue
        live = None
        for i, j, e in fn.events("agg"):
            if e[1] != "OpCode":
                continue
            if live is None:
                live = live_blocks(fn)
            if i not in live:
                continue
            em.setdefault(e[2], set()).add(n)
    if len(em) < 60:
        raise CheckError("floor not reached: only %d emittable opcodes derived (expected >= 60)" % len(em))
    return em


def ephemeral_opcodes(F):
    """variants for which OpCode::is_ephemeral_opcode returns true (stripped before execution)"""
    fs = F.find(r"\{impl OpCode\}::is_ephemeral_opcode$")
    if len(fs) != 1:
        return set()
    fn = fs[0]
    out = set()
    for sb in lib.enum_switches(fn, "OpCode"):
        m = lib.arm_map(fn, sb)
        for v, t in m.items():
            if v != "_" and t != m["_"]:
                out.add(v)
    return out


def gidx_vm(F):
    """opcodes whose interpreter arm uses (a value derived from) the payload as a global-slot index:
    the arm reaches Env::repl_{lookup,maybe_lookup,set,define}_idx directly or through <=2 helper levels."""
    vm, sb = vm_dispatch(F)
    ac = lib.arm_calls(vm, sb)
    res = {}
    for v, calls in ac.items():
        if v == "_":
            continue
        hit = None
        for c, b in calls:
            if GLOBAL_ACCESS_RX.search(c):
                hit = [c]
                break
            if c in F.fns and re.search(r"^steel::steel_vm::", c):
                p = F.reaches(c, GLOBAL_ACCESS_RX, maxdepth=2,
                              stop=lambda n: not n.startswith("steel::steel_vm::vm::{impl VmCore}") and not n.startswith("steel::steel_vm::vm::{impl SteelThread}"))
                if p:
                    hit = p
                    break
        if hit:
            res[v] = hit
    return res


def gidx_compiler(F):
    """opcodes to which the index interner assigns a SymbolMap index"""
    res = {}
    for fname in ("collect_first_pass_defines", "collect_second_pass_defines"):
        fn = F.one(r"\{impl DebruijnIndicesInterner\}::%s$" % fname)
        sws = lib.enum_switches(fn, "OpCode")
        dom = fn.dominators()
        # only the outermost test of a pattern (the instruction being stamped), not nested tests of its neighbours;
        # rustc may split one `match` into several switches on the same place: treat them as one group
        top = [sb for sb in sws if not any(o != sb and o in dom.get(sb, ()) for o in sws)]
        places = set(fn.blocks[sb]["place"] for sb in top)
        group = [sb for sb in sws if fn.blocks[sb]["place"] in places]
        for sb in group:
            ac = lib.arm_calls(fn, sb, extra_avoid=[x for x in group if x != sb])
            for v, calls in ac.items():
                if v == "_":
                    continue
                if any(re.search(r"\{impl SymbolMap\}::(add|get)$", c) for c, _ in calls) and \
                        any(re.search(r"u24\}::from_usize$", c) for c, _ in calls):
                    res.setdefault(v, set()).add(fname)
    return res


_SR = {}


def script_reach(F):
    """functions reachable (resolved calls, closures constructed, fn items taken by address) from the embedding API
    (pub methods of Engine) and the interpreter loop. Registered primitives enter through the address-taken edges of
    the module registration code."""
    k = id(F)
    if k not in _SR:
        roots = [n for n, f in F.fns.items()
                 if (re.search(r"^steel::steel_vm::engine::\{impl Engine\}::", n) and f.d.get("pub"))
                 or n == "steel::steel_vm::vm::{impl VmCore}::vm"]
        if len(roots) < 40:
            raise CheckError("anchor lost: only %d Engine API roots found" % len(roots))
        _SR[k] = F.reach(roots)
    return _SR[k]
