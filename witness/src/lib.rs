//! Compile-fail witnesses (E3): type-level clauses of properties C03, C05, C19, C20.
//!
//! Every witness is a `compile_fail,E0xxx` doc-test paired with a compiling twin that differs only in the offending
//! line, so that a wrong path or missing item cannot pass as "fails to compile".  Run with
//! `cargo +nightly test --doc --offline` (error codes are only checked on nightly).

/// C03.c — a shared value cannot be mutated through `Gc` (no `DerefMut`).
///
/// ```compile_fail,E0596
/// let mut g = steel::gc::Gc::new(vec![1u8]);
/// g.push(2u8); // needs &mut Vec<u8>: Gc<T> only implements Deref
/// ```
///
/// twin: the checked accessor compiles.
/// ```
/// let mut g = steel::gc::Gc::new(vec![1u8]);
/// if let Some(v) = g.get_mut() { v.push(2u8); }
/// ```
pub struct C03GcIsNotDerefMut;

/// C03.c — assigning through a `Gc` does not type-check.
///
/// ```compile_fail,E0594
/// let g = steel::gc::Gc::new(1u8);
/// *g = 2u8;
/// ```
///
/// twin:
/// ```
/// let g = steel::gc::Gc::new(1u8);
/// let _copy: u8 = *g;
/// ```
pub struct C03GcIsNotAssignable;

/// C05.e — a biased reference-counted pointer to non-`Sync` data cannot cross threads.
///
/// ```compile_fail,E0277
/// fn assert_send<T: Send>() {}
/// assert_send::<steel_rc::BiasedRc<std::cell::Cell<u8>>>();
/// ```
///
/// twin:
/// ```
/// fn assert_send<T: Send>() {}
/// assert_send::<steel_rc::BiasedRc<u8>>();
/// ```
pub struct C05BiasedRcSendNeedsSync;

/// C19.d — a host root cannot be duplicated (the token that frees it exists once).
///
/// ```compile_fail,E0599
/// let v = steel::SteelVal::IntV(1);
/// let r = v.as_rooted();
/// let _r2 = r.clone();
/// ```
///
/// twin:
/// ```
/// let v = steel::SteelVal::IntV(1);
/// let r = v.as_rooted();
/// let _same: &steel::SteelVal = r.value();
/// ```
pub struct C19RootIsNotClone;

/// C20.d — a lent host object cannot be touched while the guard that lends it is alive.
///
/// ```compile_fail,E0506
/// use steel::steel_vm::engine::Engine;
/// use steel::gc::unsafe_erased_pointers::CustomReference;
/// struct Ext { value: usize }
/// impl CustomReference for Ext {}
/// steel::custom_reference!(Ext);
/// let mut engine = Engine::new();
/// let mut ext = Ext { value: 1 };
/// let guard = engine.with_mut_reference::<Ext, Ext>(&mut ext);
/// ext.value = 2; // second mutable use while lent
/// drop(guard);
/// ```
///
/// twin: using the object after the guard is gone compiles.
/// ```
/// use steel::steel_vm::engine::Engine;
/// use steel::gc::unsafe_erased_pointers::CustomReference;
/// struct Ext { value: usize }
/// impl CustomReference for Ext {}
/// steel::custom_reference!(Ext);
/// let mut engine = Engine::new();
/// let mut ext = Ext { value: 1 };
/// let guard = engine.with_mut_reference::<Ext, Ext>(&mut ext);
/// drop(guard);
/// ext.value = 2;
/// ```
pub struct C20LentObjectIsExclusivelyBorrowed;

/// C20.d — the guard cannot outlive the lent object.
///
/// ```compile_fail,E0597
/// use steel::steel_vm::engine::Engine;
/// use steel::gc::unsafe_erased_pointers::CustomReference;
/// struct Ext { value: usize }
/// impl CustomReference for Ext {}
/// steel::custom_reference!(Ext);
/// let mut engine = Engine::new();
/// let guard;
/// {
///     let mut ext = Ext { value: 1 };
///     guard = engine.with_mut_reference::<Ext, Ext>(&mut ext);
/// } // ext dropped here while still lent
/// drop(guard);
/// ```
///
/// twin:
/// ```
/// use steel::steel_vm::engine::Engine;
/// use steel::gc::unsafe_erased_pointers::CustomReference;
/// struct Ext { value: usize }
/// impl CustomReference for Ext {}
/// steel::custom_reference!(Ext);
/// let mut engine = Engine::new();
/// let mut ext = Ext { value: 1 };
/// {
///     let guard = engine.with_mut_reference::<Ext, Ext>(&mut ext);
///     drop(guard);
/// }
/// let _ = ext.value;
/// ```
pub struct C20GuardCannotOutliveObject;
