// steel-facts: a rustc_private driver that dumps, for every crate whose name is listed in
// STEEL_FACTS_CRATES, a JSON file of program facts taken from the type-checked program and its MIR
// (resolved callees, CFG, field accesses, casts, integer arithmetic, enum constructions, ADT layouts,
// impls).  No rule lives here: the rules are in /verif/rules (python) and read these files.
//
// Used as RUSTC_WORKSPACE_WRAPPER: argv[1] is the real rustc path (dropped).
#![feature(rustc_private)]
#![allow(rustc::internal)]

extern crate rustc_abi;
extern crate rustc_data_structures;
extern crate rustc_driver;
extern crate rustc_hir;
extern crate rustc_index;
extern crate rustc_interface;
extern crate rustc_middle;
extern crate rustc_span;

use rustc_driver::{Callbacks, Compilation};
use rustc_hir::def::DefKind;
use rustc_hir::def_id::{DefId, LOCAL_CRATE};
use rustc_hir::definitions::DefPathData;
use rustc_middle::mir::visit::{MutatingUseContext, NonMutatingUseContext, PlaceContext, Visitor};
use rustc_middle::mir::{
    self, AggregateKind, BasicBlock, Body, CastKind, Location, Operand, Place, ProjectionElem,
    Rvalue, StatementKind, TerminatorKind,
};
use rustc_middle::ty::print::with_no_trimmed_paths;
use rustc_middle::ty::{self, Instance, InstanceKind, Ty, TyCtxt, TypingEnv};
use rustc_span::Span;
use std::collections::BTreeSet;
use std::fmt::Write as _;

// ---------------------------------------------------------------- json helpers
fn esc(s: &str) -> String {
    let mut o = String::with_capacity(s.len() + 2);
    o.push('"');
    for c in s.chars() {
        match c {
            '"' => o.push_str("\\\""),
            '\\' => o.push_str("\\\\"),
            '\n' => o.push_str("\\n"),
            '\t' => o.push_str("\\t"),
            '\r' => o.push_str("\\r"),
            c if (c as u32) < 0x20 => {
                let _ = write!(o, "\\u{:04x}", c as u32);
            }
            c => o.push(c),
        }
    }
    o.push('"');
    o
}
fn arr(items: &[String]) -> String {
    let mut o = String::from("[");
    for (i, it) in items.iter().enumerate() {
        if i > 0 {
            o.push(',');
        }
        o.push_str(it);
    }
    o.push(']');
    o
}

// ---------------------------------------------------------------- naming
fn cname(tcx: TyCtxt<'_>, def_id: DefId) -> String {
    let krate = tcx.crate_name(def_id.krate).to_string();
    let mut parts: Vec<String> = Vec::new();
    let mut cur = def_id;
    loop {
        let key = tcx.def_key(cur);
        let dis = key.disambiguated_data.disambiguator;
        match key.disambiguated_data.data {
            DefPathData::CrateRoot => break,
            DefPathData::Impl => parts.push(impl_header(tcx, cur)),
            DefPathData::TypeNs(s)
            | DefPathData::ValueNs(s)
            | DefPathData::MacroNs(s)
            | DefPathData::LifetimeNs(s) => {
                if dis > 0 {
                    parts.push(format!("{}#{}", s, dis))
                } else {
                    parts.push(s.to_string())
                }
            }
            DefPathData::Closure => parts.push(format!("{{closure#{}}}", dis)),
            DefPathData::Ctor => parts.push("{ctor}".to_string()),
            ref other => parts.push(format!("{{{:?}#{}}}", other, dis)),
        }
        match key.parent {
            Some(p) => cur = DefId { krate: cur.krate, index: p },
            None => break,
        }
    }
    parts.reverse();
    if parts.is_empty() {
        krate
    } else {
        format!("{}::{}", krate, parts.join("::"))
    }
}

fn impl_header(tcx: TyCtxt<'_>, impl_id: DefId) -> String {
    let self_ty = tcx.type_of(impl_id).instantiate_identity().skip_norm_wip();
    let s = ty_short(tcx, self_ty);
    if let DefKind::Impl { of_trait: true } = tcx.def_kind(impl_id) {
        let tr = tcx.impl_trait_ref(impl_id).instantiate_identity().skip_norm_wip();
        let mut tn = tcx.item_name(tr.def_id).to_string();
        let targs: Vec<String> = tr
            .args
            .iter()
            .skip(1)
            .filter_map(|a| a.as_type())
            .map(|t| ty_short(tcx, t))
            .collect();
        if !targs.is_empty() {
            tn = format!("{}<{}>", tn, targs.join(","));
        }
        format!("{{impl {} for {}}}", tn, s)
    } else {
        format!("{{impl {}}}", s)
    }
}

fn ty_short<'tcx>(tcx: TyCtxt<'tcx>, ty: Ty<'tcx>) -> String {
    ty_short_d(tcx, ty, 0)
}
fn ty_short_d<'tcx>(tcx: TyCtxt<'tcx>, ty: Ty<'tcx>, d: usize) -> String {
    if d > 6 {
        return "…".to_string();
    }
    match ty.kind() {
        ty::Adt(def, args) => {
            let n = tcx.item_name(def.did()).to_string();
            let targs: Vec<String> =
                args.iter().filter_map(|a| a.as_type()).map(|t| ty_short_d(tcx, t, d + 1)).collect();
            if targs.is_empty() {
                n
            } else {
                format!("{}<{}>", n, targs.join(","))
            }
        }
        ty::Ref(_, t, m) => format!("&{}{}", if m.is_mut() { "mut " } else { "" }, ty_short_d(tcx, *t, d + 1)),
        ty::RawPtr(t, m) => {
            format!("*{} {}", if m.is_mut() { "mut" } else { "const" }, ty_short_d(tcx, *t, d + 1))
        }
        ty::Slice(t) => format!("[{}]", ty_short_d(tcx, *t, d + 1)),
        ty::Array(t, _) => format!("[{};N]", ty_short_d(tcx, *t, d + 1)),
        ty::Tuple(ts) => {
            let v: Vec<String> = ts.iter().map(|t| ty_short_d(tcx, t, d + 1)).collect();
            format!("({})", v.join(","))
        }
        ty::Param(p) => p.name.to_string(),
        ty::Dynamic(preds, ..) => {
            let mut n = String::from("dyn ");
            if let Some(p) = preds.principal_def_id() {
                n.push_str(&tcx.item_name(p).to_string());
            } else {
                n.push_str("?");
            }
            n
        }
        ty::FnDef(did, _) => format!("fn{{{}}}", cname(tcx, *did)),
        ty::Closure(did, _) | ty::CoroutineClosure(did, _) | ty::Coroutine(did, _) => {
            format!("{{closure@{}}}", cname(tcx, *did))
        }
        ty::FnPtr(sig_tys, _) => {
            let s = sig_tys.skip_binder();
            let ins: Vec<String> = s.inputs().iter().map(|t| ty_short_d(tcx, *t, d + 1)).collect();
            format!("fn({})->{}", ins.join(","), ty_short_d(tcx, s.output(), d + 1))
        }
        ty::Alias(..) => with_no_trimmed_paths!(format!("{}", ty)),
        ty::Bool | ty::Char | ty::Int(_) | ty::Uint(_) | ty::Float(_) | ty::Str | ty::Never => {
            with_no_trimmed_paths!(format!("{}", ty))
        }
        _ => with_no_trimmed_paths!(format!("{}", ty)),
    }
}

/// cnames of every ADT / trait object / closure mentioned anywhere inside `ty`.
fn ty_mentions<'tcx>(tcx: TyCtxt<'tcx>, ty: Ty<'tcx>, out: &mut BTreeSet<String>) {
    // Types named only inside a function signature (fn pointers, dyn Fn/Future objects) are not owned data:
    // record the opaque marker and do not descend.
    let mut walker = ty.walk();
    while let Some(ga) = walker.next() {
        if let Some(t) = ga.as_type() {
            match t.kind() {
                ty::Adt(def, _) => {
                    out.insert(cname(tcx, def.did()));
                }
                ty::Dynamic(preds, ..) => {
                    if let Some(p) = preds.principal_def_id() {
                        out.insert(format!("dyn {}", cname(tcx, p)));
                    }
                    walker.skip_current_subtree();
                }
                ty::FnPtr(..) => {
                    out.insert("fnptr".to_string());
                    walker.skip_current_subtree();
                }
                ty::FnDef(..) | ty::Closure(..) => {
                    walker.skip_current_subtree();
                }
                ty::RawPtr(..) => {
                    out.insert("rawptr".to_string());
                }
                _ => {}
            }
        }
    }
}

fn interesting_crate(tcx: TyCtxt<'_>, def_id: DefId) -> bool {
    if def_id.is_local() {
        return true;
    }
    let n = tcx.crate_name(def_id.krate);
    n.as_str().starts_with("steel")
}

// ---------------------------------------------------------------- span helpers
fn span_loc(tcx: TyCtxt<'_>, span: Span) -> (String, usize) {
    let sm = tcx.sess.source_map();
    let lo = sm.lookup_char_pos(span.lo());
    let f = format!("{}", lo.file.name.prefer_local_unconditionally());
    (f, lo.line)
}
fn span_macros(span: Span) -> String {
    let mut v: Vec<String> = Vec::new();
    for e in span.macro_backtrace() {
        if let rustc_span::ExpnKind::Macro(_, name) = e.kind {
            v.push(name.to_string());
        } else if let rustc_span::ExpnKind::Desugaring(k) = e.kind {
            v.push(format!("desugar:{:?}", k));
        } else if let rustc_span::ExpnKind::AstPass(k) = e.kind {
            v.push(format!("astpass:{:?}", k));
        }
    }
    v.join(">")
}

// ---------------------------------------------------------------- body visitor
struct BV<'a, 'tcx> {
    tcx: TyCtxt<'tcx>,
    body: &'a Body<'tcx>,
    tenv: TypingEnv<'tcx>,
    // per block: list of event json strings
    ev: Vec<Vec<String>>,
    file: String,
}

impl<'a, 'tcx> BV<'a, 'tcx> {
    fn line(&self, span: Span) -> usize {
        let (f, l) = span_loc(self.tcx, span);
        if f != self.file {
            // different file (macro defined elsewhere): keep line but it refers to f; encode by negative? keep simple
            l
        } else {
            l
        }
    }
    fn push(&mut self, bb: BasicBlock, s: String) {
        self.ev[bb.as_usize()].push(s);
    }
    fn place_str(&self, place: &Place<'tcx>) -> String {
        let tcx = self.tcx;
        let mut s = format!("_{}", place.local.as_usize());
        let mut pty = mir::PlaceTy::from_ty(self.body.local_decls[place.local].ty);
        for elem in place.projection.iter() {
            match elem {
                ProjectionElem::Deref => s = format!("(*{})", s),
                ProjectionElem::Field(f, _) => {
                    let name = field_name(tcx, pty, f);
                    let _ = write!(s, ".{}", name);
                }
                ProjectionElem::Index(l) => {
                    let _ = write!(s, "[_{}]", l.as_usize());
                }
                ProjectionElem::ConstantIndex { offset, from_end, .. } => {
                    let _ = write!(s, "[{}{}]", if from_end { "-" } else { "" }, offset);
                }
                ProjectionElem::Subslice { .. } => s.push_str("[..]"),
                ProjectionElem::Downcast(name, _) => {
                    if let Some(n) = name {
                        let _ = write!(s, " as {}", n);
                    }
                }
                _ => s.push_str("?"),
            }
            pty = pty.projection_ty(tcx, elem);
        }
        s
    }
    fn operand_str(&self, op: &Operand<'tcx>) -> String {
        match op {
            Operand::Copy(p) | Operand::Move(p) => self.place_str(p),
            Operand::Constant(c) => {
                let ty = c.const_.ty();
                match ty.kind() {
                    ty::FnDef(did, _) => format!("fn:{}", cname(self.tcx, *did)),
                    ty::Int(_) | ty::Uint(_) | ty::Bool | ty::Char => {
                        if let Some(si) = c.const_.try_eval_scalar_int(self.tcx, self.tenv) {
                            let size = si.size();
                            if matches!(ty.kind(), ty::Int(_)) {
                                format!("const:{}", si.to_int(size))
                            } else {
                                format!("const:{}", si.to_uint(size))
                            }
                        } else {
                            "const:?".to_string()
                        }
                    }
                    ty::Ref(_, inner, _) if inner.is_str() => {
                        // string literal: its text (helper names of the JIT's symbol table, error messages, ...)
                        let span = c.span;
                        match c.const_.eval(self.tcx, self.tenv, span) {
                            Ok(cv) => match cv.try_get_slice_bytes_for_diagnostics(self.tcx) {
                                Some(bytes) if bytes.len() <= 96 => {
                                    format!("str:{}", String::from_utf8_lossy(bytes))
                                }
                                _ => "const<&str>".to_string(),
                            },
                            Err(_) => "const<&str>".to_string(),
                        }
                    }
                    ty::Adt(def, _) if def.is_enum() && def.variants().iter().all(|v| v.fields.is_empty()) => {
                        // field-less enum constant: the variant's name
                        let mut out = format!("const<{}>", ty_short(self.tcx, ty));
                        if let Some(si) = c.const_.try_eval_scalar_int(self.tcx, self.tenv) {
                            let val = si.to_uint(si.size());
                            for (vi, d) in def.discriminants(self.tcx) {
                                if d.val == val {
                                    out = format!("variant:{}::{}", self.tcx.item_name(def.did()), def.variant(vi).name);
                                }
                            }
                        }
                        out
                    }
                    ty::Ref(_, inner, _)
                        if matches!(inner.kind(), ty::Adt(d, _) if d.is_enum()) =>
                    {
                        // `&Enum::Variant` (a promoted temporary): the variant built in the promoted body
                        let mut out = format!("const<{}>", ty_short(self.tcx, ty));
                        if let mir::Const::Unevaluated(uv, _) = c.const_ {
                            if let Some(pidx) = uv.promoted {
                                if uv.def.is_local() {
                                    let promoted = self.tcx.promoted_mir(uv.def);
                                    if let Some(body) = promoted.get(pidx) {
                                        for bb in body.basic_blocks.iter() {
                                            for st in &bb.statements {
                                                if let mir::StatementKind::Assign(b) = &st.kind {
                                                    if let Rvalue::Aggregate(k, ops) = &b.1 {
                                                        if let AggregateKind::Adt(did, vidx, _, _, _) = &**k {
                                                            let adt = self.tcx.adt_def(*did);
                                                            if ops.is_empty() && adt.is_enum() {
                                                                out = format!(
                                                                    "variant:{}::{}",
                                                                    self.tcx.item_name(*did),
                                                                    adt.variant(*vidx).name
                                                                );
                                                            }
                                                        }
                                                    }
                                                }
                                            }
                                        }
                                    }
                                }
                            }
                        }
                        out
                    }
                    _ => format!("const<{}>", ty_short(self.tcx, ty)),
                }
            }
            #[allow(unreachable_patterns)]
            _ => "?".to_string(),
        }
    }
}

fn field_name<'tcx>(tcx: TyCtxt<'tcx>, pty: mir::PlaceTy<'tcx>, f: rustc_abi::FieldIdx) -> String {
    match pty.ty.kind() {
        ty::Adt(def, _) => {
            let v = match pty.variant_index {
                Some(vi) => def.variant(vi),
                None => {
                    if def.is_enum() {
                        return format!("{}", f.as_usize());
                    }
                    def.non_enum_variant()
                }
            };
            if f.as_usize() < v.fields.len() {
                v.fields[f].name.to_string()
            } else {
                format!("{}", f.as_usize())
            }
        }
        _ => format!("{}", f.as_usize()),
    }
}

fn ctx_mode(ctx: PlaceContext) -> &'static str {
    match ctx {
        PlaceContext::NonMutatingUse(n) => match n {
            NonMutatingUseContext::Inspect => "i",
            NonMutatingUseContext::Copy => "r",
            NonMutatingUseContext::Move => "mv",
            NonMutatingUseContext::SharedBorrow => "b",
            NonMutatingUseContext::FakeBorrow => "fb",
            NonMutatingUseContext::RawBorrow => "rb",
            NonMutatingUseContext::PlaceMention => "pm",
            NonMutatingUseContext::Projection => "p",
        },
        PlaceContext::MutatingUse(m) => match m {
            MutatingUseContext::Store => "w",
            MutatingUseContext::SetDiscriminant => "w",
            MutatingUseContext::AsmOutput => "w",
            MutatingUseContext::Call => "w",
            MutatingUseContext::Yield => "w",
            MutatingUseContext::Drop => "d",
            MutatingUseContext::Borrow => "m",
            MutatingUseContext::RawBorrow => "rm",
            MutatingUseContext::Projection => "p",
            MutatingUseContext::Retag => "rt",
        },
        PlaceContext::NonUse(_) => "n",
    }
}

impl<'a, 'tcx> Visitor<'tcx> for BV<'a, 'tcx> {
    fn visit_place(&mut self, place: &Place<'tcx>, ctx: PlaceContext, loc: Location) {
        if matches!(ctx, PlaceContext::NonUse(_)) {
            return;
        }
        let tcx = self.tcx;
        let mode = ctx_mode(ctx);
        let mut pty = mir::PlaceTy::from_ty(self.body.local_decls[place.local].ty);
        let n = place.projection.len();
        // index of last Field projection
        let mut last_field = None;
        for (i, e) in place.projection.iter().enumerate() {
            if matches!(e, ProjectionElem::Field(..)) {
                last_field = Some(i);
            }
        }
        let mut evs: Vec<String> = Vec::new();
        for (i, elem) in place.projection.iter().enumerate() {
            match elem {
                ProjectionElem::Field(f, _) => {
                    if let ty::Adt(def, _) = pty.ty.kind() {
                        if interesting_crate(tcx, def.did()) {
                            let fname = field_name(tcx, pty, f);
                            let vname = match pty.variant_index {
                                Some(vi) if def.is_enum() => format!("::{}", def.variant(vi).name),
                                _ => String::new(),
                            };
                            let through = if Some(i) == last_field && i + 1 == n {
                                ""
                            } else if Some(i) == last_field {
                                "+" // last field but followed by deref/index
                            } else {
                                "^"
                            };
                            evs.push(format!(
                                "[\"fld\",{},{},{}]",
                                esc(&format!("{}{}", tcx.item_name(def.did()), vname)),
                                esc(&fname),
                                esc(&format!("{}{}", mode, through))
                            ));
                        }
                    }
                }
                ProjectionElem::Deref => {
                    if let ty::RawPtr(t, _) = pty.ty.kind() {
                        evs.push(format!("[\"rawderef\",{},{}]", esc(&ty_short(tcx, *t)), esc(mode)));
                    }
                }
                _ => {}
            }
            pty = pty.projection_ty(tcx, elem);
        }
        for e in evs {
            self.push(loc.block, e);
        }
    }

    fn visit_const_operand(&mut self, c: &mir::ConstOperand<'tcx>, loc: Location) {
        if let ty::FnDef(did, _) = c.const_.ty().kind() {
            let s = format!("[\"fnref\",{},{}]", esc(&cname(self.tcx, *did)), self.line(c.span));
            self.push(loc.block, s);
        }
        // named constants / statics used by value: edges to their initialiser bodies
        if let mir::Const::Unevaluated(uv, _) = c.const_ {
            if interesting_crate(self.tcx, uv.def) && uv.promoted.is_none() {
                let s = format!("[\"constref\",{},{}]", esc(&cname(self.tcx, uv.def)), self.line(c.span));
                self.push(loc.block, s);
            }
            // a promoted temporary (`&CONST`, `&[f, g]`, …): its body is not dumped on its own, so the named constants,
            // statics and functions it mentions are attributed to the use site
            if let Some(p) = uv.promoted {
                if uv.def.is_local() {
                    let promoted = self.tcx.promoted_mir(uv.def);
                    if let Some(body) = promoted.get(p) {
                        let mut found: Vec<String> = Vec::new();
                        struct PV<'a, 'tcx> {
                            tcx: TyCtxt<'tcx>,
                            out: &'a mut Vec<String>,
                            line: usize,
                        }
                        impl<'a, 'tcx> Visitor<'tcx> for PV<'a, 'tcx> {
                            fn visit_const_operand(&mut self, c: &mir::ConstOperand<'tcx>, _loc: Location) {
                                if let ty::FnDef(did, _) = c.const_.ty().kind() {
                                    self.out.push(format!("[\"fnref\",{},{}]", esc(&cname(self.tcx, *did)), self.line));
                                }
                                if let mir::Const::Unevaluated(uv, _) = c.const_ {
                                    if interesting_crate(self.tcx, uv.def) && uv.promoted.is_none() {
                                        self.out.push(format!(
                                            "[\"constref\",{},{}]",
                                            esc(&cname(self.tcx, uv.def)),
                                            self.line
                                        ));
                                    }
                                }
                                if let Some(did) = c.check_static_ptr(self.tcx) {
                                    if interesting_crate(self.tcx, did) {
                                        self.out.push(format!(
                                            "[\"staticref\",{},{}]",
                                            esc(&cname(self.tcx, did)),
                                            self.line
                                        ));
                                    }
                                }
                            }
                        }
                        let line = self.line(c.span);
                        let mut pv = PV { tcx: self.tcx, out: &mut found, line };
                        pv.visit_body(body);
                        for s in found {
                            self.push(loc.block, s);
                        }
                    }
                }
            }
        }
        if let Some(did) = c.check_static_ptr(self.tcx) {
            if interesting_crate(self.tcx, did) {
                let s = format!("[\"staticref\",{},{}]", esc(&cname(self.tcx, did)), self.line(c.span));
                self.push(loc.block, s);
            }
        }
    }

    fn visit_rvalue(&mut self, rv: &Rvalue<'tcx>, loc: Location) {
        let tcx = self.tcx;
        let span = self.body.source_info(loc).span;
        let line = self.line(span);
        match rv {
            Rvalue::Aggregate(kind, ops) => match &**kind {
                AggregateKind::Adt(did, vidx, _, _, _) => {
                    if interesting_crate(tcx, *did) {
                        let adt = tcx.adt_def(*did);
                        let vname =
                            if adt.is_enum() { adt.variant(*vidx).name.to_string() } else { String::new() };
                        let opss: Vec<String> = ops.iter().map(|o| esc(&self.operand_str(o))).collect();
                        let s = format!(
                            "[\"agg\",{},{},{},{}]",
                            esc(&tcx.item_name(*did).to_string()),
                            esc(&vname),
                            line,
                            arr(&opss)
                        );
                        self.push(loc.block, s);
                    }
                }
                AggregateKind::Closure(did, _)
                | AggregateKind::Coroutine(did, _)
                | AggregateKind::CoroutineClosure(did, _) => {
                    let s = format!("[\"closure\",{},{}]", esc(&cname(tcx, *did)), line);
                    self.push(loc.block, s);
                }
                _ => {}
            },
            Rvalue::Cast(kind, op, to) => {
                let from = op.ty(&self.body.local_decls, tcx);
                let k = match kind {
                    CastKind::IntToInt => "IntToInt",
                    CastKind::FloatToInt => "FloatToInt",
                    CastKind::IntToFloat => "IntToFloat",
                    CastKind::FloatToFloat => "FloatToFloat",
                    CastKind::PtrToPtr => "PtrToPtr",
                    CastKind::Transmute => "Transmute",
                    CastKind::PointerExposeProvenance => "PtrExpose",
                    CastKind::PointerWithExposedProvenance => "PtrFromExposed",
                    CastKind::FnPtrToPtr => "FnPtrToPtr",
                    CastKind::PointerCoercion(..) => "PtrCoercion",
                    _ => "Other",
                };
                let record = match kind {
                    CastKind::PointerCoercion(..) => false,
                    _ => true,
                };
                if record {
                    let s = format!(
                        "[\"cast\",{},{},{},{},{},{}]",
                        esc(k),
                        esc(&ty_short(tcx, from)),
                        esc(&ty_short(tcx, *to)),
                        line,
                        esc(&span_macros(span)),
                        esc(&self.operand_str(op))
                    );
                    self.push(loc.block, s);
                }
            }
            Rvalue::BinaryOp(op, ops) => {
                let lt = ops.0.ty(&self.body.local_decls, tcx);
                if lt.is_integral() {
                    let s = format!(
                        "[\"binop\",{},{},{},{},{},{}]",
                        esc(&format!("{:?}", op)),
                        esc(&ty_short(tcx, lt)),
                        line,
                        esc(&span_macros(span)),
                        esc(&self.operand_str(&ops.0)),
                        esc(&self.operand_str(&ops.1))
                    );
                    self.push(loc.block, s);
                } else if lt.is_floating_point()
                    && matches!(
                        op,
                        mir::BinOp::Eq | mir::BinOp::Ne | mir::BinOp::Lt | mir::BinOp::Le | mir::BinOp::Gt | mir::BinOp::Ge
                    )
                {
                    // comparisons of floats (own event kind: the integer rules iterate `binop`)
                    let s = format!(
                        "[\"fcmp\",{},{},{},{},{},{}]",
                        esc(&format!("{:?}", op)),
                        esc(&ty_short(tcx, lt)),
                        line,
                        esc(&span_macros(span)),
                        esc(&self.operand_str(&ops.0)),
                        esc(&self.operand_str(&ops.1))
                    );
                    self.push(loc.block, s);
                }
            }
            Rvalue::UnaryOp(op, o) => {
                let t = o.ty(&self.body.local_decls, tcx);
                if t.is_integral() && matches!(op, mir::UnOp::Neg) {
                    let s = format!(
                        "[\"unop\",\"Neg\",{},{},{}]",
                        esc(&ty_short(tcx, t)),
                        line,
                        esc(&span_macros(span))
                    );
                    self.push(loc.block, s);
                }
            }
            _ => {}
        }
        self.super_rvalue(rv, loc);
    }

    fn visit_statement(&mut self, st: &mir::Statement<'tcx>, loc: Location) {
        if let StatementKind::Assign(b) = &st.kind {
            let (place, rv) = &**b;
            // simple value flow: dest-local <- place (copies, moves, borrows, derefs, casts of a place)
            if place.projection.is_empty() {
                let src: Option<&Place<'tcx>> = match rv {
                    Rvalue::Use(Operand::Copy(p) | Operand::Move(p), ..) => Some(p),
                    Rvalue::Ref(_, _, p) => Some(p),
                    Rvalue::RawPtr(_, p) => Some(p),
                    Rvalue::CopyForDeref(p) => Some(p),
                    Rvalue::Cast(_, Operand::Copy(p) | Operand::Move(p), _) => Some(p),
                    _ => None,
                };
                if let Some(p) = src {
                    let s = format!(
                        "[\"mv\",\"_{}\",{}]",
                        place.local.as_usize(),
                        esc(&self.place_str(p))
                    );
                    self.push(loc.block, s);
                }
                // constants worth knowing by value (string literals, field-less enum variants, small integers)
                if let Rvalue::Use(Operand::Constant(_), ..) = rv {
                    if let Rvalue::Use(op, ..) = rv {
                        let v = self.operand_str(op);
                        if v.starts_with("str:") || v.starts_with("variant:") || v.starts_with("const:") {
                            let s = format!("[\"kv\",\"_{}\",{}]", place.local.as_usize(), esc(&v));
                            self.push(loc.block, s);
                        }
                    }
                }
                // field-less enum variant built as an aggregate (`_5 = InferredType::Int`)
                if let Rvalue::Aggregate(kind, ops) = rv {
                    if let AggregateKind::Adt(did, vidx, _, _, _) = &**kind {
                        if ops.is_empty() && interesting_crate(self.tcx, *did) {
                            let adt = self.tcx.adt_def(*did);
                            if adt.is_enum() {
                                let v = format!("variant:{}::{}", self.tcx.item_name(*did), adt.variant(*vidx).name);
                                let s = format!("[\"kv\",\"_{}\",{}]", place.local.as_usize(), esc(&v));
                                self.push(loc.block, s);
                            }
                        }
                    }
                }
                // `Some(<constant>)` / `Ok(<constant>)` of the standard library's Option / Result (`Some(false)`: a decided answer)
                if let Rvalue::Aggregate(kind, ops) = rv {
                    if let AggregateKind::Adt(did, vidx, _, _, _) = &**kind {
                        if !interesting_crate(self.tcx, *did) && ops.len() == 1 {
                            let adt = self.tcx.adt_def(*did);
                            let an = self.tcx.item_name(*did).to_string();
                            if adt.is_enum() && (an == "Option" || an == "Result") {
                                if let Some(Operand::Constant(_)) = ops.iter().next() {
                                    let inner = self.operand_str(ops.iter().next().unwrap());
                                    if inner.starts_with("const:") {
                                        let v = format!("wrapped:{}::{}({})", an, adt.variant(*vidx).name, inner);
                                        let s = format!("[\"kv\",\"_{}\",{}]", place.local.as_usize(), esc(&v));
                                        self.push(loc.block, s);
                                    }
                                }
                            }
                        }
                    }
                }
                // which local holds a closure value (to connect captured variables, `mv _N.k`, with the closure body's upvars)
                if let Rvalue::Aggregate(kind, _) = rv {
                    if let AggregateKind::Closure(did, _) = &**kind {
                        let s = format!(
                            "[\"closure_at\",\"_{}\",{}]",
                            place.local.as_usize(),
                            esc(&cname(self.tcx, *did))
                        );
                        self.push(loc.block, s);
                    }
                }
                // aggregates (Some(x), tuples, struct literals): the result is derived from each operand
                if let Rvalue::Aggregate(_, ops) = rv {
                    for (idx, op) in ops.iter().enumerate() {
                        if let Operand::Copy(p) | Operand::Move(p) = op {
                            // field-sensitive: the idx-th field of the aggregate is derived from p
                            let s = format!(
                                "[\"mv\",\"_{}.{}\",{}]",
                                place.local.as_usize(),
                                idx,
                                esc(&self.place_str(p))
                            );
                            self.push(loc.block, s);
                        }
                    }
                }
                // arithmetic / comparisons / negation: the result is *derived from* (not an alias of) each operand
                let derived: Vec<(String, &Place<'tcx>, usize)> = match rv {
                    Rvalue::BinaryOp(op, ops) => [&ops.0, &ops.1]
                        .into_iter()
                        .enumerate()
                        .filter_map(|(i, o)| {
                            if let Operand::Copy(p) | Operand::Move(p) = o { Some((format!("{:?}", op), p, i)) } else { None }
                        })
                        .collect(),
                    Rvalue::UnaryOp(op, Operand::Copy(p) | Operand::Move(p)) => vec![(format!("{:?}", op), p, 0)],
                    _ => vec![],
                };
                for (op, p, i) in derived {
                    let s = format!(
                        "[\"der\",\"_{}\",{},{},{}]",
                        place.local.as_usize(),
                        esc(&self.place_str(p)),
                        esc(&op),
                        i
                    );
                    self.push(loc.block, s);
                }
            } else {
                // store through a projection (`*p = x`, `s.f = x`, `(*p).f = x`)
                let src: Option<String> = match rv {
                    Rvalue::Use(Operand::Copy(p) | Operand::Move(p), ..) => Some(self.place_str(p)),
                    Rvalue::Use(Operand::Constant(_), ..) => Some("const".to_string()),
                    Rvalue::Cast(_, Operand::Copy(p) | Operand::Move(p), _) => Some(self.place_str(p)),
                    _ => None,
                };
                if let Some(src) = src {
                    let s = format!("[\"st\",{},{}]", esc(&self.place_str(place)), esc(&src));
                    self.push(loc.block, s);
                }
            }
        }
        self.super_statement(st, loc);
    }
}

// ---------------------------------------------------------------- per-function dump
fn dump_body<'tcx>(tcx: TyCtxt<'tcx>, def_id: DefId, body: &Body<'tcx>, out: &mut String) {
    let kind = tcx.def_kind(def_id);
    let name = cname(tcx, def_id);
    let (file, line) = span_loc(tcx, body.span);
    let tenv = TypingEnv::post_analysis(tcx, def_id);
    let nblocks = body.basic_blocks.len();
    let mut bv = BV { tcx, body, tenv, ev: vec![Vec::new(); nblocks], file: file.clone() };

    // statements (events) — custom terminator handling below
    let mut blocks_json: Vec<String> = Vec::with_capacity(nblocks);
    for (bb, data) in body.basic_blocks.iter_enumerated() {
        for (i, st) in data.statements.iter().enumerate() {
            bv.visit_statement(st, Location { block: bb, statement_index: i });
        }
        let loc = Location { block: bb, statement_index: data.statements.len() };
        let term = data.terminator();
        let tspan = term.source_info.span;
        let tline = bv.line(tspan);
        let mut t = String::new();
        let succ: Vec<String> = term.successors().map(|s| s.as_usize().to_string()).collect();
        match &term.kind {
            TerminatorKind::Call { func, args, destination, target, fn_span, .. } => {
                let argv: Vec<String> = args.iter().map(|a| esc(&bv.operand_str(&a.node))).collect();
                for a in args.iter() {
                    bv.visit_operand(&a.node, loc);
                }
                bv.visit_place(destination, PlaceContext::MutatingUse(MutatingUseContext::Call), loc);
                let callee = callee_json(&bv, func, *fn_span);
                let _ = write!(
                    t,
                    "\"k\":\"call\",{},\"args\":{},\"dest\":{},\"ret\":{},\"line\":{},\"mac\":{}",
                    callee,
                    arr(&argv),
                    esc(&bv.place_str(destination)),
                    match target {
                        Some(b) => b.as_usize().to_string(),
                        None => "null".to_string(),
                    },
                    tline,
                    esc(&span_macros(tspan))
                );
                if let Operand::Copy(p) | Operand::Move(p) = func {
                    bv.visit_place(p, PlaceContext::NonMutatingUse(NonMutatingUseContext::Copy), loc);
                }
            }
            TerminatorKind::TailCall { func, args, fn_span } => {
                let argv: Vec<String> = args.iter().map(|a| esc(&bv.operand_str(&a.node))).collect();
                for a in args.iter() {
                    bv.visit_operand(&a.node, loc);
                }
                let callee = callee_json(&bv, func, *fn_span);
                let _ = write!(
                    t,
                    "\"k\":\"call\",{},\"args\":{},\"dest\":\"\",\"ret\":null,\"line\":{},\"mac\":{},\"tail\":true",
                    callee,
                    arr(&argv),
                    tline,
                    esc(&span_macros(tspan))
                );
            }
            TerminatorKind::SwitchInt { discr, targets } => {
                bv.visit_operand(discr, loc);
                let dty = discr.ty(&body.local_decls, tcx);
                // find Discriminant(place) feeding this local in the same block
                let mut on = format!("{}", ty_short(tcx, dty));
                let mut on_place = bv.operand_str(discr);
                let mut variants: Option<Vec<(u128, String)>> = None;
                if let Operand::Copy(p) | Operand::Move(p) = discr {
                    if p.projection.is_empty() {
                        for st in data.statements.iter().rev() {
                            if let StatementKind::Assign(b) = &st.kind {
                                if b.0.local == p.local && b.0.projection.is_empty() {
                                    if let Rvalue::Discriminant(src) = &b.1 {
                                        let ety = src.ty(&body.local_decls, tcx).ty;
                                        if let ty::Adt(adt, _) = ety.kind() {
                                            if adt.is_enum() {
                                                on = format!("enum:{}", tcx.item_name(adt.did()));
                                                on_place = bv.place_str(src);
                                                let mut v = Vec::new();
                                                for (vi, d) in adt.discriminants(tcx) {
                                                    v.push((d.val, adt.variant(vi).name.to_string()));
                                                }
                                                variants = Some(v);
                                            }
                                        }
                                    }
                                    break;
                                }
                            }
                        }
                    }
                }
                // compile-time constant discriminant (cfg!(..), const bools): lets rules prune dead arms
                let mut cv = String::from("null");
                match discr {
                    Operand::Constant(_) => {
                        let s = bv.operand_str(discr);
                        if let Some(v) = s.strip_prefix("const:") {
                            cv = esc(v);
                        }
                    }
                    Operand::Copy(p) | Operand::Move(p) if p.projection.is_empty() => {
                        for st in data.statements.iter().rev() {
                            if let StatementKind::Assign(b) = &st.kind {
                                if b.0.local == p.local && b.0.projection.is_empty() {
                                    if let Rvalue::Use(op @ Operand::Constant(_), ..) = &b.1 {
                                        let s = bv.operand_str(op);
                                        if let Some(v) = s.strip_prefix("const:") {
                                            cv = esc(v);
                                        }
                                    }
                                    break;
                                }
                            }
                        }
                    }
                    _ => {}
                }
                let mut tv: Vec<String> = Vec::new();
                for (val, tb) in targets.iter() {
                    let label = match &variants {
                        Some(vs) => vs
                            .iter()
                            .find(|(d, _)| *d == val)
                            .map(|(_, n)| n.clone())
                            .unwrap_or_else(|| format!("{}", val)),
                        None => format!("{}", val),
                    };
                    tv.push(format!("[{},{}]", esc(&label), tb.as_usize()));
                }
                let _ = write!(
                    t,
                    "\"k\":\"switch\",\"on\":{},\"place\":{},\"targets\":{},\"otherwise\":{},\"line\":{},\"cv\":{}",
                    esc(&on),
                    esc(&on_place),
                    arr(&tv),
                    targets.otherwise().as_usize(),
                    tline,
                    cv
                );
            }
            TerminatorKind::Assert { cond, expected, msg, target, .. } => {
                bv.visit_operand(cond, loc);
                let kind = match &**msg {
                    mir::AssertKind::BoundsCheck { .. } => "bounds".to_string(),
                    mir::AssertKind::Overflow(op, ..) => format!("overflow:{:?}", op),
                    mir::AssertKind::OverflowNeg(..) => "overflow:Neg".to_string(),
                    mir::AssertKind::DivisionByZero(..) => "divzero".to_string(),
                    mir::AssertKind::RemainderByZero(..) => "remzero".to_string(),
                    mir::AssertKind::MisalignedPointerDereference { .. } => "misaligned".to_string(),
                    mir::AssertKind::NullPointerDereference => "nullptr".to_string(),
                    _ => "other".to_string(),
                };
                let _ = write!(
                    t,
                    "\"k\":\"assert\",\"what\":{},\"expected\":{},\"ok\":{},\"line\":{},\"mac\":{}",
                    esc(&kind),
                    expected,
                    target.as_usize(),
                    tline,
                    esc(&span_macros(tspan))
                );
            }
            TerminatorKind::Drop { place, target, .. } => {
                bv.visit_place(place, PlaceContext::MutatingUse(MutatingUseContext::Drop), loc);
                let pty = place.ty(&body.local_decls, tcx).ty;
                let _ = write!(
                    t,
                    "\"k\":\"drop\",\"ty\":{},\"place\":{},\"ret\":{},\"line\":{}",
                    esc(&ty_short(tcx, pty)),
                    esc(&bv.place_str(place)),
                    target.as_usize(),
                    tline
                );
            }
            TerminatorKind::Return => t.push_str("\"k\":\"return\""),
            TerminatorKind::Goto { .. } => t.push_str("\"k\":\"goto\""),
            TerminatorKind::Unreachable => t.push_str("\"k\":\"unreachable\""),
            TerminatorKind::UnwindResume => t.push_str("\"k\":\"resume\""),
            TerminatorKind::UnwindTerminate(_) => t.push_str("\"k\":\"abort\""),
            TerminatorKind::Yield { .. } => t.push_str("\"k\":\"yield\""),
            TerminatorKind::CoroutineDrop => t.push_str("\"k\":\"codrop\""),
            TerminatorKind::FalseEdge { .. } => t.push_str("\"k\":\"falseedge\""),
            TerminatorKind::FalseUnwind { .. } => t.push_str("\"k\":\"falseunwind\""),
            TerminatorKind::InlineAsm { .. } => t.push_str("\"k\":\"asm\""),
        }
        let evs = std::mem::take(&mut bv.ev[bb.as_usize()]);
        blocks_json.push(format!(
            "{{\"s\":[{}],\"c\":{},\"e\":{},{}}}",
            succ.join(","),
            if data.is_cleanup { 1 } else { 0 },
            arr(&evs),
            t
        ));
    }

    // signature
    let (sig_in, sig_out, vis_pub, is_unsafe) = match kind {
        DefKind::Fn | DefKind::AssocFn => {
            let sig = tcx.fn_sig(def_id).instantiate_identity().skip_norm_wip().skip_binder();
            let ins: Vec<String> = sig.inputs().iter().map(|t| esc(&ty_short(tcx, *t))).collect();
            (
                arr(&ins),
                esc(&ty_short(tcx, sig.output())),
                tcx.visibility(def_id).is_public(),
                sig.safety().is_unsafe(),
            )
        }
        _ => ("[]".to_string(), "\"\"".to_string(), false, false),
    };
    let abi = match kind {
        DefKind::Fn | DefKind::AssocFn => {
            let sig = tcx.fn_sig(def_id).instantiate_identity().skip_norm_wip().skip_binder();
            format!("{:?}", sig.abi())
        }
        _ => String::new(),
    };
    let parent = match kind {
        DefKind::Closure | DefKind::InlineConst | DefKind::AnonConst => {
            let p = tcx.typeck_root_def_id(def_id);
            esc(&cname(tcx, p))
        }
        _ => "null".to_string(),
    };
    let nargs = body.arg_count;
    let _ = write!(
        out,
        "{{\"name\":{},\"kind\":{},\"file\":{},\"line\":{},\"pub\":{},\"unsafe\":{},\"abi\":{},\"parent\":{},\"nargs\":{},\"in\":{},\"out\":{},\"mac\":{},\"blocks\":{}}}",
        esc(&name),
        esc(&format!("{:?}", kind)),
        esc(&file),
        line,
        vis_pub,
        is_unsafe,
        esc(&abi),
        parent,
        nargs,
        sig_in,
        sig_out,
        esc(&span_macros(body.span)),
        arr(&blocks_json)
    );
}

fn callee_json<'a, 'tcx>(bv: &BV<'a, 'tcx>, func: &Operand<'tcx>, _fn_span: Span) -> String {
    let tcx = bv.tcx;
    let fty = func.ty(&bv.body.local_decls, tcx);
    match fty.kind() {
        ty::FnDef(did, gargs) => {
            let decl = cname(tcx, *did);
            let mut targs: Vec<String> =
                gargs.iter().filter_map(|a| a.as_type()).map(|t| esc(&ty_short(tcx, t))).collect();
            // const generic arguments (`call::<true>(..)`), rendered as "const:<value>" ("const:M" when it is the
            // caller's own parameter)
            for c in gargs.iter().filter_map(|a| a.as_const()) {
                targs.push(esc(&format!("const:{}", c)));
            }
            let (res, how) = match Instance::try_resolve(tcx, bv.tenv, *did, gargs) {
                Ok(Some(inst)) => match inst.def {
                    InstanceKind::Item(d) => (cname(tcx, d), "r"),
                    InstanceKind::Virtual(d, _) => (cname(tcx, d), "v"),
                    InstanceKind::Intrinsic(d) => (cname(tcx, d), "i"),
                    InstanceKind::ClosureOnceShim { .. } | InstanceKind::FnPtrShim(..) => {
                        // the shim calls the closure / fn pointer in self position
                        let st = gargs.type_at(0);
                        match st.kind() {
                            ty::Closure(cd, _) => (cname(tcx, *cd), "r"),
                            ty::FnDef(fd, _) => (cname(tcx, *fd), "r"),
                            _ => (decl.clone(), "s"),
                        }
                    }
                    _ => (cname(tcx, inst.def_id()), "s"),
                },
                _ => (decl.clone(), "u"),
            };
            format!(
                "\"callee\":{},\"decl\":{},\"how\":{},\"targs\":{}",
                esc(&res),
                esc(&decl),
                esc(how),
                arr(&targs)
            )
        }
        ty::FnPtr(..) => {
            format!(
                "\"callee\":\"<fnptr>\",\"decl\":{},\"how\":\"p\",\"targs\":[],\"via\":{}",
                esc(&ty_short(tcx, fty)),
                esc(&bv.operand_str(func))
            )
        }
        _ => format!(
            "\"callee\":\"<other>\",\"decl\":{},\"how\":\"o\",\"targs\":[]",
            esc(&ty_short(tcx, fty))
        ),
    }
}

// ---------------------------------------------------------------- crate dump
fn dump_crate(tcx: TyCtxt<'_>, dir: &str) {
    let crate_name = tcx.crate_name(LOCAL_CRATE).to_string();
    let mut out = String::with_capacity(64 << 20);
    let _ = write!(out, "{{\"crate\":{},\"fns\":[", esc(&crate_name));
    let mut first = true;
    let mut nfn = 0usize;
    for ldid in tcx.hir_body_owners() {
        let def_id = ldid.to_def_id();
        let kind = tcx.def_kind(def_id);
        let body: &Body<'_> = match kind {
            DefKind::Fn | DefKind::AssocFn | DefKind::Closure => {
                if tcx.is_const_fn(def_id) && false {
                    continue;
                }
                tcx.optimized_mir(def_id)
            }
            DefKind::Const { .. }
            | DefKind::AssocConst { .. }
            | DefKind::Static { .. }
            | DefKind::AnonConst
            | DefKind::InlineConst => tcx.mir_for_ctfe(def_id),
            _ => continue,
        };
        if !first {
            out.push(',');
        }
        first = false;
        dump_body(tcx, def_id, body, &mut out);
        out.push('\n');
        nfn += 1;
    }
    out.push_str("],\"adts\":[");
    // ADTs
    let mut first = true;
    let items = tcx.hir_crate_items(());
    for ldid in items.definitions() {
        let def_id = ldid.to_def_id();
        match tcx.def_kind(def_id) {
            DefKind::Struct | DefKind::Enum | DefKind::Union => {}
            _ => continue,
        }
        let adt = tcx.adt_def(def_id);
        let (file, line) = span_loc(tcx, tcx.def_span(def_id));
        let mut vs: Vec<String> = Vec::new();
        for v in adt.variants() {
            let mut fs: Vec<String> = Vec::new();
            for f in v.fields.iter() {
                let fty = tcx.type_of(f.did).instantiate_identity().skip_norm_wip();
                let mut m = BTreeSet::new();
                ty_mentions(tcx, fty, &mut m);
                let ms: Vec<String> = m.iter().map(|s| esc(s)).collect();
                fs.push(format!(
                    "{{\"name\":{},\"ty\":{},\"mentions\":{},\"pub\":{}}}",
                    esc(&f.name.to_string()),
                    esc(&ty_short(tcx, fty)),
                    arr(&ms),
                    f.vis.is_public()
                ));
            }
            vs.push(format!("{{\"name\":{},\"fields\":{}}}", esc(&v.name.to_string()), arr(&fs)));
        }
        let dropfn = match tcx.adt_destructor(def_id) {
            Some(d) => esc(&cname(tcx, d.did)),
            None => "null".to_string(),
        };
        if !first {
            out.push(',');
        }
        first = false;
        let _ = write!(
            out,
            "{{\"name\":{},\"short\":{},\"kind\":{},\"file\":{},\"line\":{},\"drop\":{},\"variants\":{}}}\n",
            esc(&cname(tcx, def_id)),
            esc(&tcx.item_name(def_id).to_string()),
            esc(if adt.is_enum() {
                "enum"
            } else if adt.is_union() {
                "union"
            } else {
                "struct"
            }),
            esc(&file),
            line,
            dropfn,
            arr(&vs)
        );
    }
    out.push_str("],\"impls\":[");
    let mut first = true;
    for ldid in items.definitions() {
        let def_id = ldid.to_def_id();
        let of_trait = match tcx.def_kind(def_id) {
            DefKind::Impl { of_trait } => of_trait,
            _ => continue,
        };
        let self_ty = tcx.type_of(def_id).instantiate_identity().skip_norm_wip();
        let self_adt = match self_ty.kind() {
            ty::Adt(d, _) => esc(&cname(tcx, d.did())),
            _ => "null".to_string(),
        };
        let (tr, neg, uns) = if of_trait {
            let h = tcx.impl_trait_header(def_id);
            let trf = h.trait_ref.instantiate_identity().skip_norm_wip();
            (
                esc(&cname(tcx, trf.def_id)),
                matches!(h.polarity, ty::ImplPolarity::Negative),
                h.safety.is_unsafe(),
            )
        } else {
            ("null".to_string(), false, false)
        };
        let mut its: Vec<String> = Vec::new();
        for it in tcx.associated_items(def_id).in_definition_order() {
            its.push(esc(&cname(tcx, it.def_id)));
        }
        let (file, line) = span_loc(tcx, tcx.def_span(def_id));
        if !first {
            out.push(',');
        }
        first = false;
        let _ = write!(
            out,
            "{{\"trait\":{},\"self\":{},\"self_adt\":{},\"neg\":{},\"unsafe\":{},\"items\":{},\"file\":{},\"line\":{}}}\n",
            tr,
            esc(&ty_short(tcx, self_ty)),
            self_adt,
            neg,
            uns,
            arr(&its),
            esc(&file),
            line
        );
    }
    let _ = write!(out, "],\"nfn\":{}}}", nfn);
    let path = format!("{}/{}.json", dir, crate_name);
    let tmp = format!("{}/.{}.json.tmp.{}", dir, crate_name, std::process::id());
    std::fs::write(&tmp, out.as_bytes()).expect("write facts");
    std::fs::rename(&tmp, &path).expect("rename facts");
}

struct Cb {
    dir: String,
    crates: Vec<String>,
}
impl Callbacks for Cb {
    fn after_analysis<'tcx>(
        &mut self,
        _compiler: &rustc_interface::interface::Compiler,
        tcx: TyCtxt<'tcx>,
    ) -> Compilation {
        let name = tcx.crate_name(LOCAL_CRATE).to_string();
        if self.crates.iter().any(|c| *c == name) {
            dump_crate(tcx, &self.dir);
        }
        Compilation::Continue
    }
}

fn main() {
    let mut args: Vec<String> = std::env::args().collect();
    // RUSTC_WORKSPACE_WRAPPER protocol: argv[1] is the path of the real rustc.
    if args.len() > 1 && (args[1].ends_with("rustc") || args[1].contains("/rustc")) {
        args.remove(1);
    }
    let dir = std::env::var("STEEL_FACTS_DIR").unwrap_or_else(|_| ".".to_string());
    let crates: Vec<String> = std::env::var("STEEL_FACTS_CRATES")
        .unwrap_or_else(|_| "steel,steel_rc,steel_parser,steel_gen".to_string())
        .split(',')
        .map(|s| s.trim().to_string())
        .collect();
    let mut cb = Cb { dir, crates };
    rustc_driver::run_compiler(&args, &mut cb);
}
