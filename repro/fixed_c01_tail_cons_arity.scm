(define (f) (cons 1 2 3))
(displayln (with-handler (lambda (e) 'arity-error) (f)))
(define (g) (cons 1))
(displayln (with-handler (lambda (e) 'arity-error) (g)))
