// An interrupt that arrives while the engine thread is parked at the instruction poll for another thread's
// stop-the-world must still stop the evaluation.
use std::time::{Duration, Instant};
use steel::steel_vm::engine::Engine;
use steel::steel_vm::interrupt::InterruptHandler;

fn main() {
    let mut engine = Engine::new();
    engine.run("(define (loop) (loop)) (define x 0) (define (spin n) (set! x n) (spin (+ n 1))) (define t (spawn-native-thread (lambda () (spin 0))))").unwrap();
    let handler = InterruptHandler::new(&mut engine, Duration::from_millis(200));
    std::thread::spawn(|| {
        std::thread::sleep(Duration::from_secs(40));
        println!("HANG: a run was not stopped by the watchdog");
        std::process::exit(2);
    });
    for i in 0..40 {
        let at = Instant::now();
        let res = handler.run_with_timeout(|| engine.run("(loop)"));
        println!("run {i}: err={} after {} ms", res.is_err(), at.elapsed().as_millis());
    }
    println!("all runs stopped");
    std::process::exit(0);
}
