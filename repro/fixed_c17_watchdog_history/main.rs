// Side experiment for meta.md "Side remarks" (not part of the PASS/FAIL demo, and it behaves the
// same with and without the seeded change): InterruptHandler over a history of runs.
// The second run after a timed-out one is not watched any more.
use std::time::{Duration, Instant};

use steel::steel_vm::engine::Engine;
use steel::steel_vm::interrupt::InterruptHandler;

fn main() {
    let mut engine = Engine::new();
    engine.run("(define (loop) (loop))").unwrap();
    let handler = InterruptHandler::new(&mut engine, Duration::from_millis(300));

    std::thread::spawn(|| {
        std::thread::sleep(Duration::from_secs(8));
        println!("HANG: a run was not stopped by the watchdog");
        std::process::exit(2);
    });

    for i in 0..3 {
        let at = Instant::now();
        let res = handler.run_with_timeout(|| engine.run("(loop)"));
        println!("run {i}: err={} after {} ms", res.is_err(), at.elapsed().as_millis());
    }
}
