(displayln (list (= 1+2i 1+2i) (= 2+2i 2+2i) (= 1+2i 1+3i) (= 2+2i 2+3i) (equal? 1+2i 1+2i) (= (make-rectangular 1 2) (make-rectangular 1 2))))
