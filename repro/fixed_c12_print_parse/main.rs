use steel_parser::parser::Parser;
fn roundtrip(src: &str) {
    let a: Vec<_> = match Parser::parse(src) { Ok(v) => v, Err(e) => { println!("{src:?}: parse error {e:?}"); return; } };
    let printed = a.iter().map(|x| x.to_string()).collect::<Vec<_>>().join(" ");
    match Parser::parse(&printed) {
        Ok(b) => {
            let again = b.iter().map(|x| x.to_string()).collect::<Vec<_>>().join(" ");
            let same = format!("{:?}", strip(&a)) == format!("{:?}", strip(&b));
            println!("{:<40} -> {:<40} reparse_same_print={} {}", src, printed, again == printed, if same {""} else {"(trees differ)"});
        }
        Err(e) => println!("{:<40} -> {:<40} REPARSE ERROR {:?}", src, printed, e),
    }
}
fn strip(v: &Vec<steel_parser::ast::ExprKind>) -> Vec<String> { v.iter().map(|x| x.to_string()).collect() }
fn main() {
    for s in ["(lambda (a . b) a)", "(lambda args args)", "(define (f a . rest) rest)", "\"a\\\"b\"", "\"back\\\\slash\"", "\"line\\nbreak\"", "#\\a", "#\\space", "'(1 . 2)", "`(a ,b ,@c)", "(quasiquote (unquote (a)))", "#(1 2 3)", "#u8(1 2)", "1/2", "-0.5", "+inf.0", "|hello world|", "(a . (b . (c)))", "#t", "#true", "(let ((x 1)) x)", "(set! x 1)", "(if a b c)", "(begin 1 2)", "(define-syntax m (syntax-rules () [(_ a) a]))", "(require \"x.scm\")", "(let loop ((i 0)) (loop (+ i 1)))"] {
        roundtrip(s);
    }
}
