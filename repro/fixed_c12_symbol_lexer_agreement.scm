; before b3059aa8: MISMATCH lines for +. fn defn +a +- 1@2 +inf.0i ...; after: only 'done'
(define (rt x)
  (define s (call-with-output-string (lambda (p) (write x p))))
  (define y (with-handler (lambda (e) (list 'READ-ERROR e)) (read (open-input-string s))))
  (if (equal? x y) 'ok (begin (display "MISMATCH ") (write x) (display " -> ") (display s) (display " -> ") (write y) (newline))))
(for-each rt (list #\delete #\alarm #\backspace #\escape #\return #\x0 #\x1 #\x80 #\xA0 #\x200B #\xFEFF #\xD7FF #\xE000 #\x10FFFF
  1e300 5e-324 123456789012345678901234.0 0.1 100.0 1e10 1e22 1.7976931348623157e308 -1e-320 0.000001 12345678.9
  (string->symbol "+1") (string->symbol "1/2") (string->symbol "1e3") (string->symbol "#t") (string->symbol "+inf.0") (string->symbol "-") (string->symbol "+") (string->symbol "1.") (string->symbol ".5") (string->symbol "-.5") (string->symbol "+.") (string->symbol "#\\a") (string->symbol "a.b") (string->symbol "a#") (string->symbol "a,b") (string->symbol "a`b") (string->symbol "{") (string->symbol "a[b") (string->symbol "a]") (string->symbol "é") (string->symbol " ") (string->symbol "\t") (string->symbol "a\x0;b") (string->symbol "#") (string->symbol "#%foo") (string->symbol "##x") (string->symbol "@") (string->symbol ",@") (string->symbol "'") (string->symbol "+i") (string->symbol "-i") (string->symbol "1+2i") (string->symbol "+nan.0") (string->symbol "#:kw") (string->symbol "x:") (string->symbol "#;")
  (string #\x0) (string #\x1b) (string #\x7f #\x80) (string #\x200B) (string #\xFEFF) "\\x41;" "a\
   b" (make-string 3 #\") (list "a" 'b #\c 1.5 '(d . "e")) (vector '() (vector) "")
  (list 1 (list 2 (list 3 (list 4 (vector 5 (list 6 '|a b|))))))
  (bytes 1 2 3) (list (bytes) (bytes 10))
   ))
(display "done") (newline)
(for-each rt (map string->symbol (list "define" "lambda" "if" "quote" "begin" "let" "set!" "return!" "require" "λ" "fn" "defn" "%plain-let" "define-syntax" "syntax-rules" "..." "=>" "else" "unquote" "quasiquote" "unquote-splicing" "#%app"
 "+.a" "-.a" "+.." "-.." "+.+" ".a" "..a" ".+" ".-" "+.5" "-.5x" "1+" "1-" "-1+" "+a" "-a" "+-" "-+" "1.a" "1a" "0x10" "1e" "1e+" "e1" "+e1" "1/" "/1" "1//2" "1/2/3" "+1/2i" "1@2" "#e1" "#x10" "#b1" "#d1" "#o7" "#i1" "nan.0" "inf.0" "+inf.0i" "+inf" "-nan.0" "i" "+i1" "1i" "1+i" "1-2i" "1e2i" ".i" "+.i")))
(display "done")(newline)
