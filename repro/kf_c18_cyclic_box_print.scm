(define b (box 1)) (set-box! b (list 1 b)) (displayln b) (displayln "after")
