use steel::parser::parser::Parser;
fn main() {
    let n: usize = std::env::args().nth(1).unwrap().parse().unwrap();
    let mode = std::env::args().nth(2).unwrap();
    let src = match mode.as_str() {
        "paren" => format!("{}{}", "(".repeat(n), ")".repeat(n)),
        "quote" => format!("{}a", "'".repeat(n)),
        "open" => "(".repeat(n),
        "vec" => format!("{}{}", "#(".repeat(n), ")".repeat(n)),
        _ => unreachable!(),
    };
    eprintln!("parsing {} bytes", src.len());
    let r = Parser::parse(&src);
    eprintln!("parsed: ok={}", r.is_ok());
    let v = r;
    eprintln!("about to drop");
    std::mem::forget(v);
    eprintln!("done (forgot AST)");
}
