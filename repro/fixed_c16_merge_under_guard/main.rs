// Owner M's explicit merge destroys a payload that holds references owned by other (registered, live) threads.
// Dropping such a reference from M queues it for its owner: QUEUE.map.get_mut(owner). run_explicit_merge still holds
// the guard of M's own entry; when the owner's key lives in the same DashMap shard the thread deadlocks on itself.
use std::sync::mpsc;
use std::time::Duration;
use steel_rc::{register_thread, BiasedRc, QueueHandle};

struct Holder(Vec<BiasedRc<u64>>);

fn main() {
    register_thread();
    let n = 300;
    let (tx, rx) = mpsc::channel::<BiasedRc<u64>>();
    let (stop_tx, stop_rx) = mpsc::channel::<()>();
    let stop_rx = std::sync::Arc::new(std::sync::Mutex::new(stop_rx));
    let mut hs = vec![];
    for i in 0..n {
        let tx = tx.clone();
        let stop_rx = stop_rx.clone();
        hs.push(std::thread::spawn(move || {
            register_thread();
            let y = BiasedRc::new(i as u64);
            let keep = y.clone(); // owner count 2
            tx.send(y).unwrap(); // one reference moves to M
            // stay alive (and registered) until told to stop
            loop {
                std::thread::sleep(Duration::from_millis(20));
                if let Ok(g) = stop_rx.try_lock() { if g.try_recv().is_ok() { break; } }
            }
            drop(keep);
            QueueHandle::run_explicit_merge();
        }));
    }
    let ys: Vec<_> = (0..n).map(|_| rx.recv().unwrap()).collect();
    let x = BiasedRc::new(Holder(ys));
    let x2 = x.clone(); // owner count 2
    let c = std::thread::spawn(move || {
        register_thread();
        drop(x2); // non-owner decrement: shared -1 -> queued for M
    });
    c.join().unwrap();
    drop(x); // owner count 2 -> 1; with the queued -1 the merge reaches 0 and destroys the payload
    let (done_tx, done_rx) = mpsc::channel();
    let m = std::thread::current();
    let _ = m;
    // run the merge on this (owner) thread but watch it from another one
    let w = std::thread::spawn(move || {
        match done_rx.recv_timeout(Duration::from_secs(20)) {
            Ok(n) => { println!("PASS merge returned ({n} objects)"); std::process::exit(0) }
            Err(_) => { println!("FAIL run_explicit_merge did not return within 20 s (self-deadlock on a DashMap shard)"); std::process::exit(1) }
        }
    });
    let k = QueueHandle::run_explicit_merge();
    done_tx.send(k).unwrap();
    for _ in 0..n { let _ = stop_tx.send(()); }
    w.join().unwrap();
}
