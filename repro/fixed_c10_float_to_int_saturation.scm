(displayln (exact 1e19))
(displayln (even? 1e19))
(displayln (= 9223372036854775807 9223372036854775808.0))
