(define m (- -9223372036854775807 1))
(displayln m)
(displayln (abs m))
(displayln (quotient m -1))
