use std::sync::atomic::{AtomicUsize, Ordering};
use std::sync::mpsc::channel;
use steel_rc::{BiasedRc, QueueHandle};

static DROPS: AtomicUsize = AtomicUsize::new(0);
struct P(u64);
impl Drop for P {
    fn drop(&mut self) {
        DROPS.fetch_add(1, Ordering::SeqCst);
        eprintln!("drop P({:#x})", self.0);
    }
}

fn main() {
    steel_rc::register_thread();
    let (to_t, from_o) = channel::<BiasedRc<P>>();
    let (to_o, from_t) = channel::<BiasedRc<P>>();
    let (ack_s, ack_r) = channel::<()>();
    let (fin_s, fin_r) = channel::<()>();

    let a = BiasedRc::new(P(0xABCD));
    let b = a.clone();
    let c = a.clone();

    let t = std::thread::spawn(move || {
        steel_rc::register_thread();
        let b = from_o.recv().unwrap();
        drop(b); // shared -1, queued, enqueued for the owner
        ack_s.send(()).unwrap();
        let c = from_o.recv().unwrap();
        let d = c.clone();
        let e = c.clone(); // shared 1
        to_o.send(d).unwrap();
        to_o.send(e).unwrap();
        fin_r.recv().unwrap();
        drop(c); // merged, 0 -> deallocate
        eprintln!("T dropped the last reference; drops = {}", DROPS.load(Ordering::SeqCst));
    });

    to_t.send(b).unwrap();
    ack_r.recv().unwrap();
    to_t.send(c).unwrap();
    let d = from_t.recv().unwrap();
    let e = from_t.recv().unwrap();
    drop(a);
    drop(d);
    drop(e); // owner-local counter reaches 0 -> merged, shared 1, unbiased
    fin_s.send(()).unwrap();
    t.join().unwrap();
    eprintln!("owner: drops before merge = {}", DROPS.load(Ordering::SeqCst));
    let n = QueueHandle::run_explicit_merge(); // the queue still holds the pointer
    eprintln!("owner: merged {} queued objects; drops after merge = {}", n, DROPS.load(Ordering::SeqCst));
}
