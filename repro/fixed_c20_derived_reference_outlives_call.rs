// Demonstration for property C20 (host boundary / lent references).
//
// A host object `World` is lent to a script for the duration of one call.
// Registered host functions hand out references *derived* from it:
//
//   world-room-mut : &mut World -> &mut Room     (derived, exclusive)
//   room-chest     : &mut Room  -> &Chest        (derived from the derived one, shared)
//   room-chest-mut : &mut Room  -> &mut Chest    (derived from the derived one, exclusive)
//   world-clear!   : &mut World -> ()            (frees every Room)
//
// While a derived reference is alive in the script, any use of the object it
// was derived from must be refused ("Value is already borrowed!"), otherwise
// `world-clear!` frees the rooms under a reference the script still holds.

use steel::custom_reference;
use steel::gc::unsafe_erased_pointers::CustomReference;
use steel::rvals::SteelVal;
use steel::steel_vm::engine::Engine;
use steel::steel_vm::register_fn::{MarkerWrapper7, MarkerWrapper8, RegisterFn};

struct Chest {
    coins: usize,
}

struct Room {
    name: String,
    chest: Chest,
}

struct World {
    rooms: Vec<Room>,
}

impl World {
    fn new() -> Self {
        World {
            rooms: vec![Room {
                name: "hall".to_string(),
                chest: Chest { coins: 42 },
            }],
        }
    }

    fn room_mut(&mut self) -> &mut Room {
        &mut self.rooms[0]
    }

    fn clear(&mut self) {
        self.rooms.clear();
        self.rooms.shrink_to_fit();
    }

    fn room_count(&mut self) -> usize {
        self.rooms.len()
    }
}

impl Room {
    fn chest(&mut self) -> &Chest {
        &self.chest
    }

    fn chest_mut(&mut self) -> &mut Chest {
        &mut self.chest
    }

    fn name(&mut self) -> String {
        self.name.clone()
    }
}

impl Chest {
    fn coins(&self) -> usize {
        self.coins
    }
}

impl CustomReference for World {}
impl CustomReference for Room {}
impl CustomReference for Chest {}
custom_reference!(World);
custom_reference!(Room);
custom_reference!(Chest);

fn engine() -> Engine {
    let mut engine = Engine::new();
    engine.register_value("*world*", SteelVal::Void);

    RegisterFn::<_, MarkerWrapper7<(World, Room, Room, World)>, Room>::register_fn(
        &mut engine,
        "world-room-mut",
        World::room_mut,
    );
    RegisterFn::<_, MarkerWrapper8<(Room, Chest, Chest, Room)>, Chest>::register_fn(
        &mut engine,
        "room-chest",
        Room::chest,
    );
    RegisterFn::<_, MarkerWrapper7<(Room, Chest, Chest, Room)>, Chest>::register_fn(
        &mut engine,
        "room-chest-mut",
        Room::chest_mut,
    );
    engine.register_fn("world-clear!", World::clear);
    engine.register_fn("world-room-count", World::room_count);
    engine.register_fn("room-name", Room::name);
    engine.register_fn("chest-coins", Chest::coins);
    engine
}

/// Lends a fresh world to `steps`, evaluated one after the other on one
/// engine inside one lending call. Returns the outcome of the last step and
/// the number of rooms the host sees once the call is over.
fn lend(steps: &[&str]) -> (Vec<Result<String, String>>, usize) {
    let mut engine = engine();
    let mut world = World::new();

    let outcomes = engine
        .with_mut_reference::<World, World>(&mut world)
        .consume(|engine, args| {
            engine.update_value("*world*", args.into_iter().next().unwrap());
            let outcomes = steps
                .iter()
                .map(|step| {
                    engine
                        .compile_and_run_raw_program(step.to_string())
                        .map(|v| v.last().map(|x| x.to_string()).unwrap_or_default())
                        .map_err(|e| e.to_string())
                })
                .collect::<Vec<_>>();
            engine.update_value("*world*", SteelVal::Void);
            outcomes
        });

    (outcomes, world.rooms.len())
}


fn main() {
    // probe 1: two derived refs in one call, used after the call
    let mut engine = engine();
    let mut world = World::new();
    let out = engine
        .with_mut_reference::<World, World>(&mut world)
        .consume(|engine, args| {
            engine.update_value("*world*", args.into_iter().next().unwrap());
            let r = engine.compile_and_run_raw_program("(define room (world-room-mut *world*)) (define chest (room-chest room)) (define saved *world*)".to_string()).map(|_| ());
            engine.update_value("*world*", SteelVal::Void);
            r
        });
    println!("probe1 setup: {:?}", out.map_err(|e| e.to_string()));
    for s in ["(world-room-count saved)", "(room-name room)", "(chest-coins chest)", "(set! chest #f)", "(room-name room)"] {
        let r = engine.compile_and_run_raw_program(s.to_string()).map(|v| v.last().map(|x| x.to_string())).map_err(|e| e.to_string());
        println!("probe1 after call {} => {:?}", s, r);
    }
    drop(world);

    // probe 2: drop intermediate, keep grandchild
    let (out, rooms) = lend(&[
        "(define room (world-room-mut *world*))",
        "(define chest (room-chest room))",
        "(set! room #f)",
        "(world-clear! *world*)",
    ]);
    println!("probe2: {:?} rooms-after={}", out, rooms);
}
