(display (+ 1 2;comment
))
(newline)(display {+ 1 2})(newline)(display (list 1"a"))(newline)(display (number? (car (quote (2;x
)))))
