use std::sync::atomic::{AtomicUsize, Ordering};
use steel_rc::{register_thread, BiasedRc, QueueHandle};

static DROPS: AtomicUsize = AtomicUsize::new(0);
struct P(String);
impl Drop for P {
    fn drop(&mut self) {
        DROPS.fetch_add(1, Ordering::SeqCst);
    }
}

#[test]
fn get_mut_on_merged_box_keeps_the_count() {
    std::thread::spawn(|| {
        register_thread();
        let mut v = BiasedRc::new(P("a".to_string()));
        let a = v.clone();
        let b = v.clone();
        std::thread::spawn(move || {
            drop(a);
            drop(b);
        })
        .join()
        .unwrap();
        QueueHandle::run_explicit_merge();
        println!("count after merge = {}", BiasedRc::strong_count(&v));
        let got = BiasedRc::get_mut(&mut v).is_some();
        println!("get_mut = {got}; count after get_mut = {}", BiasedRc::strong_count(&v));
        let w = v.clone();
        drop(w);
        println!("destructor runs while v is alive = {} (expected 0)", DROPS.load(Ordering::SeqCst));
        assert_eq!(DROPS.load(Ordering::SeqCst), 0);
        drop(v);
        assert_eq!(DROPS.load(Ordering::SeqCst), 1);
    })
    .join()
    .unwrap();
}
