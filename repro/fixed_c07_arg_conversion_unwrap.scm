(displayln (with-handler (lambda (e) 'caught) (will-execute 0)))
(displayln (with-handler (lambda (e) 'caught) (callstack-hydrate-names 0)))
