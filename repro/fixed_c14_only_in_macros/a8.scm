(require (only-in "vault.scm" open-vault (with-vault wv)))
(displayln (list (open-vault) (wv 1)))
