(require (only-in "vault.scm" open-vault))
(displayln (open-vault))
(displayln (with-vault 1))
