(require (only-in "vault.scm" open-vault with-vault))
(displayln (list (open-vault) (with-vault 1)))
