(define p (open-input-string "a　b c"))
(displayln (read p)) (displayln (read p)) (displayln (read p))
(define q (open-input-string "+foo bar baz"))
(displayln (read q)) (displayln (read q)) (displayln (read q))
