;; C13 / C07: an ellipsis followed by a dotted tail. Before the fix: ((1 2) (3)) for the first line, a host panic
;; (attempt to subtract with overflow, debug builds) for (m1) and for the nested use.
(define-syntax m1 (syntax-rules () [(_ a ... . r) '((a ...) r)]))
(displayln (m1 1 2 3))      ; ((1 2 3) ())
(displayln (m1 1 2 . 3))    ; ((1 2) 3)
(displayln (m1))            ; (() ())
(define-syntax m9 (syntax-rules () [(_ (a b ... . r) ...) '((a (b ...) r) ...)]))
(displayln (m9 (1 2 3) (4 5 . 6) (7)))   ; ((1 (2 3) ()) (4 (5) 6) (7 () ()))
