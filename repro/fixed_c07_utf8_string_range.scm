(displayln (with-handler (lambda (e) (quote caught)) (utf8->string (bytes 65 66) 1 5))) (displayln (utf8->string (bytes 65 66 67) 1 3))
