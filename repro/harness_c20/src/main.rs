use steel::steel_vm::engine::Engine;
use steel::steel_vm::register_fn::RegisterFn;
fn main() {
    let mut e = Engine::new();
    e.register_fn("show-i32", |x: i32| format!("i32:{}", x));
    e.register_fn("show-u16", |x: u16| format!("u16:{}", x));
    e.register_fn("show-usize", |x: usize| format!("usize:{}", x));
    e.register_fn("show-u64", |x: u64| format!("u64:{}", x));
    e.register_fn("big-u64", || u64::MAX - 1);
    e.register_fn("small-u64", || 42u64);
    for p in ["(show-i32 7)", "(show-i32 4294967297)", "(show-u16 65537)", "(show-u16 65535)", "(show-usize -1)", "(show-usize 5)", "(show-u64 -1)", "(big-u64)", "(small-u64)", "(show-i32 -2147483648)", "(show-i32 -2147483649)"] {
        let r = e.compile_and_run_raw_program(p.to_string());
        println!("{} => {:?}", p, r.map_err(|e| e.to_string()));
    }
}
