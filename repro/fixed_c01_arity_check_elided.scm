(define (f a b)
  (if (> a 3) (list a b) (f (+ a 1) b 99)))
(displayln (f 0 7))
