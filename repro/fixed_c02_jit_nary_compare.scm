(define (f a b c) (< a b c))
(define (h a b c) (f a b c))
(displayln (h 1 2 3))
