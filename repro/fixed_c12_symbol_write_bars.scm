(define (w d) (let ((p (open-output-string))) (write d p) (get-output-string p)))
(define names (list "1+" "1-" "-" "+" "..." "->x" "a.b" "x1" "1" "-1" "+5" "1.5" ".5" "-.5" "1e3" "1/2" "+inf.0" "-nan.0" "1+2i" "+i" "a b" "" "." "#t" "#:key" "λ" "a|b" "a\\b" "(" "x;y" "'q" "1abc" "1/x" "e1" "-e"))
(for-each (lambda (n) (let* ((s (string->symbol n)) (out (w s)) (back (with-handler (lambda (e) 'ERR) (read (open-input-string out)))))
   (displayln (list n out (if (equal? back s) 'ok (list 'BAD back)))))) names)
