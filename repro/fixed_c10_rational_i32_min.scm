;; before 3957da1a / d5ef75ab: host panic inside num-rational (debug), non-canonical 1/-8
(displayln (/ 1 -2147483648))          ; -1/2147483648
(displayln (expt -2 -31))              ; -1/2147483648
(displayln (= (expt -2 -3) -1/8))      ; #true
