;; C07 (host panic): three bounds tests that let a position through to an operation asserting on it.
;; before 16a4b3cf / cc411020 / 00890728 each line aborted the host; now each prints err / the value.
(displayln (with-handler (lambda (e) 'err) (immutable-vector-set (immutable-vector 1 2 3) 3 9)))          ; err
(displayln (with-handler (lambda (e) 'err) (let ((a (immutable-vector 1 2))) (list (immutable-vector-set a 2 5) a)))) ; err
(displayln (with-handler (lambda (e) 'err) (let ((a (immutable-vector 1 2))) (list (immutable-vector-take a 5) a)))) ; (#(1 2) #(1 2))
(displayln (with-handler (lambda (e) 'err) (bytes-set! (bytes 1 2) 2 9)))                                  ; err
