use std::sync::mpsc;
use std::time::Duration;
use steel::steel_vm::engine::Engine;
use steel::steel_vm::interrupt::InterruptHandler;

fn run_with_watchdog(program: &'static str) -> Option<(Result<String, String>, Result<String,String>)> {
    let (tx, rx) = mpsc::channel();
    std::thread::spawn(move || {
        let mut engine = Engine::new();
        let handler = InterruptHandler::new(&mut engine, Duration::from_millis(200));
        let res = handler.run_with_timeout(|| engine.run(program));
        let first = res.map(|v| format!("{:?}", v)).map_err(|e| e.to_string());
        let second = engine.run("(define zz 5) (set! zz (+ zz 1)) zz").map(|v| format!("{:?}", v)).map_err(|e| e.to_string());
        let _ = tx.send((first, second));
    });
    rx.recv_timeout(Duration::from_secs(8)).ok()
}

#[test]
fn set_bang_loop_is_interrupted() {
    let mut lost = 0;
    for i in 0..12 {
        match run_with_watchdog("(define c 0) (define (spin) (set! c (+ c 1)) (spin)) (spin)") {
            Some((Err(e), second)) => { assert!(e.contains("Interrupted"), "{e}"); assert!(second.is_ok(), "engine unusable afterwards: {:?}", second); }
            Some((Ok(v), _)) => panic!("ran to completion: {v}"),
            None => { lost += 1; eprintln!("run {i}: still running 8s after the 200ms watchdog fired"); }
        }
    }
    assert_eq!(lost, 0, "{lost} of 12 interrupts were lost");
}
