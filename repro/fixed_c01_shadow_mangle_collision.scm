(define (f x1 q)
 (let ((v0 (+ q 0))) (let ((v1 (+ q 1))) (let ((v2 (+ q 2))) (let ((v3 (+ q 3))) (let ((v4 (+ q 4))) (let ((v5 (+ q 5))) (let ((v6 (+ q 6))) (let ((v7 (+ q 7))) (let ((v8 (+ q 8))) (let ((x (+ q 1000))) (list x1 x v0))))))))))))
(displayln (f 1 2))

