;; C16 demonstration: one thread keeps assigning a global (each assignment is a
;; stop-the-world rendezvous), while the main thread spawns and joins short-lived
;; native threads.  Only ONE thread ever issues stop requests, so the script's own
;; logic can never block: it must always print "done".

(define counter 0)

;; Background thread: assign a global until told to stop through a channel.
(define (spin-set! receiver)
  (let loop ()
    (set! counter (+ counter 1))
    (if (empty-channel-object? (channel/try-recv receiver))
        (loop)
        'stopped)))

(define (spawn-many n)
  (let loop ([i 0])
    (when (< i n)
      (#%closure->boxed-function (lambda (x) x))
      (loop (+ i 1)))))

(define (main)
  (let* ([ch (channels/new)]
         [sender (channels-sender ch)]
         [receiver (channels-receiver ch)]
         [bg (spawn-native-thread (lambda () (spin-set! receiver)))])
    (spawn-many 300)
    (channel/send sender 'stop)
    (thread-join! bg)))

(displayln (list 'done (main)))
