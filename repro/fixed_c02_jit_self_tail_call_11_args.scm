(define (lp a b c d e f g h i j k)
  (if (> a 5) (list a b c d e f g h i j k) (lp (+ a 1) b c d e f g h i j (+ k a))))
(displayln (lp 0 1 2 3 4 5 6 7 8 9 10))
