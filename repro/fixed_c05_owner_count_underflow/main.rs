// The owner's local count reaches 0 while the object is queued; references that a non-owner cloned come back to the
// owner, which drops them one after the other.
use std::sync::atomic::{AtomicUsize, Ordering};
use std::sync::mpsc;
use steel_rc::{register_thread, BiasedRc, QueueHandle};

static DROPS: AtomicUsize = AtomicUsize::new(0);
struct Payload;
impl Drop for Payload { fn drop(&mut self) { DROPS.fetch_add(1, Ordering::SeqCst); } }

fn main() {
    register_thread();
    let x = BiasedRc::new(Payload);
    let y = x.clone();                       // owner count 2
    std::thread::spawn(move || { register_thread(); drop(y); }).join().unwrap();   // shared -1: queued for main
    let (tx, rx) = mpsc::channel();
    let (done_tx, done_rx) = mpsc::channel::<()>();
    let t2 = std::thread::spawn(move || {
        register_thread();
        for _ in 0..3 { tx.send(x.clone()).unwrap(); }   // three non-owner clones: shared +3
        done_rx.recv().unwrap();
        drop(x);
    });
    let clones: Vec<_> = (0..3).map(|_| rx.recv().unwrap()).collect();
    for (i, c) in clones.into_iter().enumerate() {
        drop(c);                                   // the owner drops a reference somebody else cloned
        println!("owner dropped clone {i}");
    }
    done_tx.send(()).unwrap();
    t2.join().unwrap();
    QueueHandle::run_explicit_merge();
    let d = DROPS.load(Ordering::SeqCst);
    println!("{}", if d == 1 { "PASS payload destroyed exactly once" } else { "FAIL payload destroyed a wrong number of times" });
    std::process::exit(if d == 1 { 0 } else { 1 });
}
