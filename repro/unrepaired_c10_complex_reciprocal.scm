; NOT REPAIRED, NOT RULE-REPORTED (see DESIGN §6): complex_reciprocal divides c.re (not c.im) by the norm for the
; imaginary part, so (/ 1+2i) => 1/5-1/5i (correct: 1/5-2/5i) and (/ 1+2i 3+4i) => 9/25+3/25i (correct: 11/25+2/25i).
; The pinned suite asserts the wrong value (crates/steel-core/src/tests/success/numbers.scm:133
; `(assert-equal! 1/5-1/5i (/ 1+2i))`), so the one-word fix (c.im) makes tests::integration_success::numbers fail.
(displayln (list (/ 1+2i) (/ 1+2i 3+4i) (* (/ 1+2i) 1+2i)))
