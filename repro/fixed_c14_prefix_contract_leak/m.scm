(require (prefix-in n: "n.scm"))
(provide m-go)
(define (m-go x) (n:inc (n:plain x)))
