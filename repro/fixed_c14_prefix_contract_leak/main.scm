(require "m.scm")
(displayln (m-go 1))
(displayln (n:inc 5))
