(provide (contract/out inc (->/c int? int?)) plain)
(define (inc x) (+ x 1))
(define (plain x) x)
