(require (prefix-in n: "n.scm"))
(displayln (n:inc 5) (n:plain 2))
