use steel::steel_vm::engine::Engine;
use std::time::{Duration, Instant};
fn main() {
    let prog = std::env::args().nth(1).unwrap();
    let mut engine = Engine::new();
    let ctl = engine.get_thread_state_controller();
    let t = std::thread::spawn(move || { std::thread::sleep(Duration::from_millis(800)); ctl.interrupt(); eprintln!("interrupt requested"); });
    let start = Instant::now();
    let wd = std::thread::spawn(move || { std::thread::sleep(Duration::from_secs(8)); eprintln!("WATCHDOG: still running after 8s -> not interruptible"); std::process::exit(3); });
    let r = engine.compile_and_run_raw_program_with_path(prog, std::path::PathBuf::from("/scratch/exp/x.scm"));
    eprintln!("returned after {:?}: {:?}", start.elapsed(), r.map(|_| ()).map_err(|e| e.to_string()));
    let _ = t.join();
    drop(wd);
}
