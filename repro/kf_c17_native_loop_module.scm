(define (loop x) (loop (+ x 1))) (loop 0)
