(define (many a b c d e f g h . rest) (list a h rest))
(define (caller x) (cons 'r (many x 2 3 4 5 6 7 8 9 10 11)))
(define cs (list caller))
(displayln ((car cs) 1))
