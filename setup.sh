#!/bin/sh
# Build the analysis tooling from files on disk only (offline).
set -e
cd "$(dirname "$0")"
export CARGO_NET_OFFLINE=true
(cd driver && cargo +nightly build --release --offline)
test -x driver/target/release/steel-facts
python3 -c "import json,sys; json.load(open('MANIFEST.json'))"
# warm the dependency build of the analysed workspace (not needed for correctness: every check re-runs the
# driver over /repo's current sources whenever their content hash changes)
python3 rules/facts.py ws >/dev/null
echo "setup ok"
